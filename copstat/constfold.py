"""Numeric folding of constant expressions: literals, IEEE machine constants named through sys / numpy / math, module-level
constants of the project (followed to their defining expression) and + - * / ** of those.  Returns a float or None."""

import ast
import math

F64_EPS = 2.220446049250313e-16
F32_EPS = 1.1920928955078125e-07
KNOWN = {
    'sys.float_info.epsilon': F64_EPS, 'sys.float_info.max': 1.7976931348623157e308, 'sys.float_info.min': 2.2250738585072014e-308,
    'numpy.inf': math.inf, 'numpy.Inf': math.inf, 'numpy.infty': math.inf, 'math.inf': math.inf, 'numpy.pi': math.pi, 'math.pi': math.pi,
    'numpy.e': math.e, 'math.e': math.e, 'numpy.nan': math.nan, 'math.nan': math.nan,
}
FLOAT64_NAMES = {'float', 'numpy.float64', 'numpy.double', 'numpy.float_'}
FLOAT32_NAMES = {'numpy.float32', 'numpy.single'}


def _finfo(prog, mod, call):
    """np.finfo(<type>) -> 64 / 32 / None."""
    if isinstance(call, ast.Call) and prog.resolve(mod, call.func) == 'numpy.finfo' and len(call.args) <= 1 and not call.keywords:
        if not call.args:
            return 64
        a = call.args[0]
        nm = prog.resolve(mod, a) or (a.value if isinstance(a, ast.Constant) else None)
        if nm in FLOAT64_NAMES or nm in ('float64', 'd', 'f8'):
            return 64
        if nm in FLOAT32_NAMES or nm in ('float32', 'f', 'f4'):
            return 32
    return None


def fold(prog, mod, e, fnnode=None, depth=0):
    if depth > 8 or e is None:
        return None
    if isinstance(e, ast.Constant):
        return float(e.value) if isinstance(e.value, (int, float)) and not isinstance(e.value, bool) else None
    if isinstance(e, ast.UnaryOp) and isinstance(e.op, (ast.USub, ast.UAdd)):
        v = fold(prog, mod, e.operand, fnnode, depth + 1)
        return None if v is None else (-v if isinstance(e.op, ast.USub) else v)
    if isinstance(e, ast.BinOp):
        a, b = fold(prog, mod, e.left, fnnode, depth + 1), fold(prog, mod, e.right, fnnode, depth + 1)
        if a is None or b is None:
            return None
        try:
            if isinstance(e.op, ast.Add):
                return a + b
            if isinstance(e.op, ast.Sub):
                return a - b
            if isinstance(e.op, ast.Mult):
                return a * b
            if isinstance(e.op, ast.Div):
                return a / b if b != 0 else (math.inf if a > 0 else -math.inf if a < 0 else math.nan)
            if isinstance(e.op, ast.Pow):
                return float(a ** b)
        except (OverflowError, ValueError, ZeroDivisionError):
            return None
        return None
    if isinstance(e, ast.Attribute):
        bits = _finfo(prog, mod, e.value)
        if bits is not None:
            table = {64: {'eps': F64_EPS, 'max': 1.7976931348623157e308, 'tiny': 2.2250738585072014e-308, 'resolution': 1e-15},
                     32: {'eps': F32_EPS, 'max': 3.4028234663852886e38, 'tiny': 1.1754943508222875e-38, 'resolution': 1e-6}}[bits]
            return table.get(e.attr)
    if isinstance(e, ast.Call) and isinstance(e.func, ast.Name) and e.func.id == 'float' and len(e.args) == 1:
        a = e.args[0]
        if isinstance(a, ast.Constant) and isinstance(a.value, str):
            try:
                return float(a.value)
            except ValueError:
                return None
        return fold(prog, mod, a, fnnode, depth + 1)
    if isinstance(e, (ast.Name, ast.Attribute)):
        if isinstance(e, ast.Name) and fnnode is not None:
            from .idioms import single_def
            d = single_def(fnnode, e.id)
            if isinstance(d, ast.AST):
                return fold(prog, mod, d, fnnode, depth + 1)
        nm = prog.resolve(mod, e)
        if nm in KNOWN:
            return KNOWN[nm]
        d = prog.constant(nm)
        if d is not None:
            modname = nm.rpartition('.')[0]
            return fold(prog, prog.modules[modname], d, None, depth + 1)
    return None
