"""Are the elements of a list-valued expression Python scalars or NumPy scalars?

JSON (and `==` with what `json.loads` gives back) needs Python scalars: `numpy.int64`, `numpy.bool_` and `numpy.float32`
are not accepted by the json module (`numpy.float64` is: it subclasses float).  Iterating a pandas Index / a DataFrame /
`.items()` / a `.tolist()` result yields Python objects; iterating an ndarray (`.to_numpy()`, `.values`, `np.array`,
`np.unique`, `np.arange`) yields NumPy scalars whenever the array has a numeric dtype - for column labels that is the
case for every table built from an ndarray (integer labels).

elements(...) -> 'py' | 'np' | None (not derived).  Locals, loop variables, `.append` accumulation, tuple unpacking of a
helper's returned tuple and one-return project helpers are followed (bounded depth)."""

import ast

from .model import call_name, is_self_attr, walk_no_nested

NDARRAY_MAKERS = {'to_numpy', 'array', 'asarray', 'unique', 'arange', 'ravel', 'flatten', 'argsort', 'nonzero', 'where'}
PY_ITERABLES = {'items', 'keys', 'tolist', 'to_list', 'range', 'enumerate', 'iterrows', 'itertuples'}


def _join(kinds):
    kinds = [k for k in kinds]
    if not kinds or any(k is None for k in kinds):
        return 'np' if 'np' in kinds else None
    return 'np' if 'np' in kinds else 'py'


def iter_kind(ctx, fn, e, depth=0):
    """Kind of the items obtained by iterating e."""
    if depth > 6 or e is None:
        return None
    if isinstance(e, ast.Call):
        leaf = call_name(e)
        if isinstance(e.func, ast.Attribute) and leaf in PY_ITERABLES or (isinstance(e.func, ast.Name) and leaf in ('range', 'enumerate', 'zip', 'sorted', 'reversed', 'list', 'tuple', 'set')
                                                                           and leaf in ('range', 'enumerate')):
            return 'py'
        if leaf in ('list', 'tuple', 'sorted', 'reversed', 'set') and isinstance(e.func, ast.Name) and e.args:
            return iter_kind(ctx, fn, e.args[0], depth + 1)
        if leaf in NDARRAY_MAKERS:
            return 'np'
        if leaf in ('difference', 'union', 'intersection', 'drop', 'copy') and isinstance(e.func, ast.Attribute):
            return iter_kind(ctx, fn, e.func.value, depth + 1)
        return elements(ctx, fn, e, depth + 1)
    if isinstance(e, ast.Attribute):
        if e.attr == 'values':
            return 'np'
        if e.attr in ('columns', 'index'):
            return 'py'       # a pandas Index iterates as Python objects
        if fn.self_name and is_self_attr(e, fn.self_name):
            return elements(ctx, fn, e, depth + 1)
        return None
    if isinstance(e, ast.Subscript) and isinstance(e.slice, ast.Slice):
        return iter_kind(ctx, fn, e.value, depth + 1)
    if isinstance(e, (ast.List, ast.Tuple)):
        return _join([scalar_kind(ctx, fn, x, depth + 1) for x in e.elts]) if e.elts else 'py'
    if isinstance(e, ast.Name):
        if e.id in fn.params:
            return 'py' if fn.params.index(e.id) >= 0 and _is_frame_param(fn, e.id) else None
        return elements(ctx, fn, e, depth + 1)
    return None


def _is_frame_param(fn, name):
    """The training table parameter of fit-side helpers (iterating a DataFrame yields its labels as Python objects)."""
    return name in ('X', 'data', 'table', 'df', 'frame')


def scalar_kind(ctx, fn, e, depth=0):
    if depth > 6 or e is None:
        return None
    if isinstance(e, ast.Constant):
        return 'py'
    if isinstance(e, ast.Call):
        leaf = call_name(e)
        if isinstance(e.func, ast.Name) and leaf in ('int', 'float', 'str', 'bool', 'len'):
            return 'py'
        if leaf in ('item', 'tolist'):
            return 'py'
        if leaf in ('int64', 'int32', 'intp', 'float32', 'bool_'):
            return 'np'
    if isinstance(e, ast.Name):
        # a loop variable: kind of the iterated items; a plain local: its definitions
        for n in walk_no_nested(fn.node):
            if isinstance(n, (ast.For, ast.comprehension)):
                tg = n.target
                if isinstance(tg, ast.Name) and tg.id == e.id:
                    return iter_kind(ctx, fn, n.iter, depth + 1)
                if isinstance(tg, ast.Tuple) and any(isinstance(x, ast.Name) and x.id == e.id for x in tg.elts):
                    it = n.iter
                    if isinstance(it, ast.Call) and call_name(it) in ('items', 'enumerate', 'zip', 'iterrows'):
                        idx = [getattr(x, 'id', None) for x in tg.elts].index(e.id)
                        if call_name(it) == 'zip' and idx < len(it.args):
                            return iter_kind(ctx, fn, it.args[idx], depth + 1)
                        return 'py' if (call_name(it), idx) in (('items', 0), ('enumerate', 0), ('iterrows', 0)) else None
        defs = [a.value for a in walk_no_nested(fn.node) if isinstance(a, ast.Assign) and len(a.targets) == 1 and isinstance(a.targets[0], ast.Name) and a.targets[0].id == e.id]
        if defs:
            return _join([scalar_kind(ctx, fn, d, depth + 1) for d in defs])
    if isinstance(e, ast.Subscript):
        # an element of a sequence
        return iter_kind(ctx, fn, e.value, depth + 1)
    return None


def elements(ctx, fn, e, depth=0):
    """Kind of the elements of the list-valued expression e evaluated in fn."""
    prog = ctx.prog
    if depth > 6 or e is None:
        return None
    if isinstance(e, (ast.List, ast.Tuple)):
        return _join([scalar_kind(ctx, fn, x, depth + 1) for x in e.elts]) if e.elts else 'py'
    if isinstance(e, ast.ListComp) and len(e.generators) == 1:
        if isinstance(e.elt, ast.Name) and isinstance(e.generators[0].target, ast.Name) and e.elt.id == e.generators[0].target.id:
            return iter_kind(ctx, fn, e.generators[0].iter, depth + 1)
        return scalar_kind(ctx, fn, e.elt, depth + 1)
    if isinstance(e, ast.Call):
        leaf = call_name(e)
        if leaf in ('list', 'tuple', 'sorted') and isinstance(e.func, ast.Name) and e.args:
            return iter_kind(ctx, fn, e.args[0], depth + 1)
        if leaf in ('tolist', 'to_list'):
            return 'py'
        if leaf in NDARRAY_MAKERS:
            return 'np'
        tg = [t for t in ctx.cg.targets(fn, e) if t.kind == 'proj' and not t.how.startswith('decorator') and t.how != 'by method name']
        if len(tg) == 1:
            g = tg[0].fn
            rets = [r.value for r in walk_no_nested(g.node) if isinstance(r, ast.Return) and r.value is not None]
            if rets:
                return _join([elements(ctx, g, r, depth + 1) for r in rets])
        return None
    if isinstance(e, ast.Name):
        kinds = []
        for a in walk_no_nested(fn.node):
            if isinstance(a, ast.Assign) and len(a.targets) == 1:
                t = a.targets[0]
                if isinstance(t, ast.Name) and t.id == e.id:
                    kinds.append(elements(ctx, fn, a.value, depth + 1))
                elif isinstance(t, (ast.Tuple, ast.List)) and any(isinstance(x, ast.Name) and x.id == e.id for x in t.elts):
                    idx = [getattr(x, 'id', None) for x in t.elts].index(e.id)
                    v = a.value
                    if isinstance(v, (ast.Tuple, ast.List)) and len(v.elts) == len(t.elts):
                        kinds.append(elements(ctx, fn, v.elts[idx], depth + 1))
                    elif isinstance(v, ast.Call):
                        tg = [x for x in ctx.cg.targets(fn, v) if x.kind == 'proj' and not x.how.startswith('decorator') and x.how != 'by method name']
                        if len(tg) == 1:
                            g = tg[0].fn
                            for r in walk_no_nested(g.node):
                                if isinstance(r, ast.Return) and isinstance(r.value, ast.Tuple) and len(r.value.elts) == len(t.elts):
                                    kinds.append(elements(ctx, g, r.value.elts[idx], depth + 1))
                        else:
                            kinds.append(None)
                    else:
                        kinds.append(None)
            if isinstance(a, ast.Call) and isinstance(a.func, ast.Attribute) and isinstance(a.func.value, ast.Name) and a.func.value.id == e.id:
                if a.func.attr == 'append' and a.args:
                    kinds.append(scalar_kind(ctx, fn, a.args[0], depth + 1))
                elif a.func.attr == 'extend' and a.args:
                    kinds.append(iter_kind(ctx, fn, a.args[0], depth + 1))
        kinds = [k for k in kinds]
        # an empty-list initialisation contributes nothing
        kinds = [k for k in kinds if k != 'empty']
        return _join(kinds) if kinds else None
    if isinstance(e, ast.Attribute) and fn.self_name and is_self_attr(e, fn.self_name) and fn.cls is not None:
        # the attribute as the fit of the class leaves it
        kinds = []
        for m in fn.cls.mro_methods() if hasattr(fn.cls, 'mro_methods') else [x for c in fn.cls.mro() for x in c.methods.values()]:
            if not m.self_name or m.name in ('from_dict', '__init__'):
                continue
            for a in walk_no_nested(m.node):
                if isinstance(a, ast.Assign):
                    for i_, t in enumerate(a.targets):
                        if is_self_attr(t, m.self_name, e.attr):
                            kinds.append(elements(ctx, m, a.value, depth + 1))
                        elif isinstance(t, (ast.Tuple, ast.List)):
                            for j_, x in enumerate(t.elts):
                                if is_self_attr(x, m.self_name, e.attr):
                                    v = a.value
                                    if isinstance(v, ast.Call):
                                        tg = [y for y in ctx.cg.targets(m, v) if y.kind == 'proj' and not y.how.startswith('decorator') and y.how != 'by method name']
                                        if len(tg) == 1:
                                            for r in walk_no_nested(tg[0].fn.node):
                                                if isinstance(r, ast.Return) and isinstance(r.value, ast.Tuple) and len(r.value.elts) == len(t.elts):
                                                    kinds.append(elements(ctx, tg[0].fn, r.value.elts[j_], depth + 1))
        return _join(kinds) if kinds else None
    return None
