"""Inlined view of a function: calls of straight-line private project helpers are replaced by their bodies.

Used by path rules that are stated about one function (the context manager of C15, for instance) so that a helper extraction
("the save and the install move into `_enter_random_state`") leaves the rule's view unchanged.  The view is a *copy*: the program
model itself is not modified, and the helper remains an ordinary function for every other rule.

A helper qualifies when it is a project function (module level, or a method of the same class called on `self`) whose body is a
docstring, simple statements (assignments, expression statements) and at most one final `return`; no yield, no nested definitions,
no *args/**kwargs.  Call forms that are inlined: `x = h(...)`, `h(...)`, `return h(...)` and `f(h(...))` as an expression
statement or assignment value with `h(...)` the first positional argument of a plainly named callee.
Arguments are bound to fresh locals first (evaluation order kept); helper locals are renamed apart.
"""
import ast
import copy

from .model import FuncInfo, clone, walk_no_nested


def _simple_body(g):
    body = list(g.node.body)
    if body and isinstance(body[0], ast.Expr) and isinstance(body[0].value, ast.Constant) and isinstance(body[0].value.value, str):
        body = body[1:]
    if not body:
        return None
    # a procedure (no value returned anywhere): `if c: A; return` followed by REST is `if c: A else: REST`
    valued = any(isinstance(x, ast.Return) and x.value is not None and not (isinstance(x.value, ast.Constant) and x.value.value is None) for x in walk_no_nested(g.node))
    if not valued:
        def fold(stmts):
            out = []
            for i, s_ in enumerate(stmts):
                if isinstance(s_, ast.Return):
                    return out                     # nothing after a bare return runs
                if isinstance(s_, ast.If) and not s_.orelse and s_.body and isinstance(s_.body[-1], ast.Return):
                    rest = fold(stmts[i + 1:])
                    new_if = ast.copy_location(ast.If(test=s_.test, body=fold(s_.body[:-1]) or [ast.copy_location(ast.Pass(), s_)], orelse=rest), s_)
                    out.append(new_if)
                    return out
                if isinstance(s_, ast.If):
                    s2 = ast.copy_location(ast.If(test=s_.test, body=fold(s_.body) or [ast.copy_location(ast.Pass(), s_)], orelse=fold(s_.orelse)), s_)
                    out.append(s2)
                else:
                    out.append(s_)
            return out
        import copy as _copy
        body = fold(clone(body))
        if any(isinstance(x, ast.Return) for s_ in body for x in ast.walk(s_)):
            return None
    ret = None
    if isinstance(body[-1], ast.Return):
        ret = body[-1]
        body = body[:-1]
    def plain(stmts):
        # simple statements and if/else blocks of simple statements (no return inside: the single exit is the final return)
        for s in stmts:
            if isinstance(s, ast.If):
                if not plain(s.body) or not plain(s.orelse):
                    return False
            elif not isinstance(s, (ast.Assign, ast.AugAssign, ast.Expr, ast.Pass, ast.Raise, ast.Assert)):
                return False
        return True
    if not plain(body):
        return None
    for s in body + ([ret] if ret is not None else []):
        for x in ast.walk(s):
            if isinstance(x, (ast.Yield, ast.YieldFrom, ast.Await, ast.Lambda, ast.FunctionDef, ast.ClassDef, ast.NamedExpr, ast.ListComp, ast.SetComp,
                              ast.DictComp, ast.GeneratorExp, ast.Global, ast.Nonlocal)):
                return None
    if g.vararg or g.kwarg:
        return None
    return body, ret


class _Rename(ast.NodeTransformer):
    def __init__(self, mapping):
        self.mapping = mapping

    def visit_Name(self, n):
        if n.id in self.mapping:
            return ast.copy_location(ast.Name(id=self.mapping[n.id], ctx=n.ctx), n)
        return n


def inlined_view(ctx, fn, max_inlines=8):
    """FuncInfo whose node is a copy of fn.node with qualifying helper calls inlined (the same FuncInfo when nothing was inlined)."""
    prog = ctx.prog
    node = clone(fn.node)
    counter = [0]

    def callee_of(call):
        if isinstance(call.func, ast.Attribute) and isinstance(call.func.value, ast.Name) and fn.self_name and call.func.value.id == fn.self_name and fn.cls is not None:
            g = fn.cls.lookup(call.func.attr)
            return (g, True) if g is not None else (None, False)
        q = prog.resolve(fn.module, call.func)
        g = prog.functions.get(q or '')
        if g is not None and g.cls is None and g.outer is None:
            return g, False
        return None, False

    def expand(call, at, target=None):
        """([statements], result expression or None) for an inlined call, or None."""
        if counter[0] >= max_inlines or any(isinstance(a, ast.Starred) for a in call.args) or any(k.arg is None for k in call.keywords):
            return None
        g, bound_self = callee_of(call)
        if g is None or g is fn or any(d != 'staticmethod' for d in g.decorators):
            return None
        sb = _simple_body(g)
        if sb is None:
            return None
        body, ret = sb
        params = list(g.params)
        if bound_self and g.self_name:
            params = params[1:]
        if len(call.args) > len(params):
            return None
        counter[0] += 1
        tag = f'_inl{counter[0]}_'
        mapping = {}
        pre = []
        if bound_self and g.self_name:
            mapping[g.self_name] = fn.self_name
        given = dict(zip(params, call.args))
        for k in call.keywords:
            if k.arg not in params or k.arg in given:
                return None
            given[k.arg] = k.value
        stored = {x.id for s in body for x in ast.walk(s) if isinstance(x, ast.Name) and isinstance(x.ctx, ast.Store)}
        caller_stored = {x.id for x in ast.walk(node) if isinstance(x, ast.Name) and isinstance(x.ctx, ast.Store)}
        for p in params + g.kwonly:
            if p in given:
                val = given[p]
            elif p in g.defaults:
                val = clone(g.defaults[p])
            else:
                return None
            if isinstance(val, ast.Name) and p not in stored:
                mapping[p] = val.id          # a plain name handed to a parameter the helper never re-binds: the same object throughout the inlined body
                continue
            mapping[p] = tag + p
            pre.append(ast.copy_location(ast.Assign(targets=[ast.Name(id=tag + p, ctx=ast.Store())], value=val), at))
        # `x = h(...)` with `return r`, r a local of h bound once: r becomes x (no copy statement, the rule sees `x = <what r was bound to>`)
        direct = None
        if target is not None and ret is not None and isinstance(ret.value, ast.Name) and ret.value.id in stored and ret.value.id not in params \
                and sum(1 for s in body for x in ast.walk(s) if isinstance(x, ast.Name) and isinstance(x.ctx, ast.Store) and x.id == ret.value.id) == 1 \
                and target not in {x.id for a in list(call.args) + [k.value for k in call.keywords] for x in ast.walk(a) if isinstance(x, ast.Name)}:
            direct = ret.value.id
            mapping[direct] = target
        for nm in stored:
            mapping.setdefault(nm, tag + nm)
        out = list(pre)
        for s in body:
            s2 = _Rename(mapping).visit(clone(s))
            for x in ast.walk(s2):
                ast.copy_location(x, at)
            out.append(s2)
        # all inlined statements carry the line of the call (for reports); their order is kept in col_offset
        for k_, s2 in enumerate(out):
            for x in ast.walk(s2):
                if hasattr(x, 'col_offset'):
                    x.col_offset = getattr(at, 'col_offset', 0) + k_
        order_base = getattr(at, 'col_offset', 0) + len(out)
        res = None
        if ret is not None and ret.value is not None:
            res = _Rename(mapping).visit(clone(ret.value))
            for x in ast.walk(res):
                ast.copy_location(x, at)
                if hasattr(x, 'col_offset'):
                    x.col_offset = order_base
        elif ret is None or ret.value is None:
            res = ast.copy_location(ast.Constant(value=None), at)
        if direct is not None:
            res = 'direct'
        return out, res

    def block(stmts):
        out = []
        for st in stmts:
            for f in ('body', 'orelse', 'finalbody'):
                v = getattr(st, f, None)
                if isinstance(v, list) and v and isinstance(v[0], ast.stmt) and not isinstance(st, (ast.FunctionDef, ast.AsyncFunctionDef, ast.ClassDef)):
                    setattr(st, f, block(v))
            if isinstance(st, ast.Try):
                for h in st.handlers:
                    h.body = block(h.body)
            done = False
            top = st.value if isinstance(st, (ast.Assign, ast.Expr, ast.Return)) and isinstance(getattr(st, 'value', None), ast.Call) else None
            if top is not None:
                tgt = st.targets[0].id if isinstance(st, ast.Assign) and len(st.targets) == 1 and isinstance(st.targets[0], ast.Name) else None
                ex = expand(top, st, tgt)
                if ex is not None:
                    pre, res = ex
                    out.extend(pre)
                    if isinstance(st, ast.Expr) or res == 'direct':
                        pass
                    else:
                        st.value = res
                        out.append(st)
                    done = True
                elif top.args and isinstance(top.args[0], ast.Call) and not any(isinstance(a, ast.Starred) for a in top.args):
                    plain = top.func
                    while isinstance(plain, ast.Attribute):
                        plain = plain.value
                    if isinstance(plain, ast.Name):
                        ex = expand(top.args[0], st)
                        if ex is not None:
                            pre, res = ex
                            out.extend(pre)
                            top.args[0] = res
                            out.append(st)
                            done = True
            if not done:
                out.append(st)
        return out

    node.body = block(node.body)
    # records (namedtuples of this module) that, after inlining, live and die inside the function become one local per field
    from .model import record_types, scalarize_records
    for parent in ast.walk(node):
        for child in ast.iter_child_nodes(parent):
            child._parent = parent
    sra = scalarize_records(node, record_types(fn.module.tree))
    if counter[0] == 0 and not sra:
        return fn
    if sra:
        # the per-field tuples that replace `for v in record` / `a, b = record` are literal sequences again
        from .model import unroll_literal_loops
        wrapper = ast.Module(body=[node], type_ignores=[])
        node = unroll_literal_loops(wrapper).body[0]
    ast.fix_missing_locations(node)
    for parent in ast.walk(node):
        for child in ast.iter_child_nodes(parent):
            child._parent = parent
    node._parent = getattr(fn.node, '_parent', None)
    view = FuncInfo(prog, fn.module, node, cls=fn.cls, outer=fn.outer)
    view.decorators = list(fn.decorators)
    view.inlined_from = fn
    return view
