"""Lane-order kinds: does an array still have one entry per entry of an input array, in the same order?

Values
  ('lanes', base, word)   one entry per entry of `base` (a symbol: the data parameter, or 'mask:<name>' for the entries
                          selected by a boolean mask); `word` is the sequence of permutations applied to the order so far:
                          (pid, False) = gathered by permutation pid (x[order]); (pid, True) = its inverse.  The empty word
                          is the order of the base itself.
  ('perm', pid, inv, base) an index permutation of the lanes of `base` (result of argsort); inv: it is the inverse one
  'uniform'               a value that is the same for every lane (scalar, constant array): compatible with any order
  TOP                     unknown (includes every reordering the domain does not model: sort, unique, shuffle, ...)

`x[p]` appends (pid, inv); np.argsort(p) of a permutation p gives its inverse; a scatter store `out[p] = x` gives `out`
the word of x followed by the inverse of p.  Adjacent inverse pairs cancel.  Element-wise library calls keep the word;
everything else that is not listed yields TOP.  Only a *definite* non-empty word is ever reported.
"""

import ast

from .absint import BOT, TOP, AbsInt, Tup
from .model import call_name

ELEMENTWISE = {'exp', 'log', 'log1p', 'expm1', 'sqrt', 'abs', 'absolute', 'power', 'clip', 'where', 'minimum', 'maximum', 'negative', 'sign', 'square',
               'array', 'asarray', 'asanyarray', 'ascontiguousarray', 'copy', 'ravel', 'squeeze', 'atleast_1d', 'float64', 'astype', 'nan_to_num',
               'isnan', 'isfinite', 'isinf', 'logical_and', 'logical_or', 'logical_not', 'ndtr', 'ndtri', 'erf', 'erfc', 'cdf', 'ppf', 'pdf', 'logpdf',
               'sf', 'isf', 'round', 'around', 'floor', 'ceil', 'add', 'subtract', 'multiply', 'divide', 'true_divide', 'zeros_like', 'ones_like',
               'full_like', 'empty_like', 'tolist', 'to_numpy', 'flatten', 'reshape'}
UNIFORM = {'zeros', 'ones', 'full', 'empty', 'float', 'int', 'len', 'sum', 'mean', 'max', 'min', 'std', 'var', 'median', 'prod', 'any', 'all', 'dot',
           'shape', 'size', 'ceil', 'finfo', 'amax', 'amin', 'nanmax', 'nanmin', 'count_nonzero'}
REORDER = {'sort', 'sorted', 'unique', 'flip', 'flipud', 'fliplr', 'roll', 'permutation', 'shuffle', 'choice', 'partition', 'argpartition', 'lexsort',
           'searchsorted', 'take', 'reversed'}


def reduce_word(word):
    out = []
    for tok in word:
        if out and out[-1][0] == tok[0] and out[-1][1] != tok[1]:
            out.pop()
        else:
            out.append(tok)
    return tuple(out)


def lanes(base, word=()):
    return ('lanes', base, reduce_word(word))


class LaneKind(AbsInt):
    MAX_DEPTH = 4

    def __init__(self, ctx, data_param, masks=()):
        super().__init__(ctx)
        self.data_param = data_param
        self.masks = set(masks)      # names of boolean masks over the data parameter
        self.perms = {}              # pid -> readable text

    # ------------------------------------------------------------------ leaves
    def const(self, node, fr):
        return 'uniform'

    def param(self, name, fr):
        if name in fr.params:
            return fr.params[name]
        if fr.depth == 0 and name == self.data_param:
            return lanes('param:' + name)
        return 'uniform' if fr.depth == 0 else TOP

    def self_attr(self, attr, node, fr):
        return 'uniform'

    def global_name(self, dotted, node, fr):
        return 'uniform'

    def join(self, a, b):
        if a == 'uniform' and isinstance(b, tuple):
            return b
        if b == 'uniform' and isinstance(a, tuple):
            return a
        return super().join(a, b)

    def join_distinct(self, a, b):
        return TOP

    # --------------------------------------------------------------- operators
    def _combine(self, vals):
        out = 'uniform'
        for v in vals:
            if v == 'uniform' or v is BOT:
                continue
            if not (isinstance(v, tuple) and v and v[0] == 'lanes'):
                return TOP
            if out == 'uniform':
                out = v
            elif out != v:
                return TOP  # arrays in different orders combined element by element: not modelled (and suspicious)
        return out

    def binop(self, node, left, right, fr):
        return self._combine([left, right])

    def unaryop(self, node, operand, fr):
        return operand

    def compare(self, node, fr):
        return self._combine([self.value(node.left, fr)] + [self.value(c, fr) for c in node.comparators])

    def boolop(self, node, vals, fr):
        return self._combine(vals)

    def attribute(self, node, base, fr):
        if node.attr in ('shape', 'size', 'ndim', 'dtype'):
            return 'uniform'
        if node.attr in ('T', 'values', 'real'):
            return base
        return TOP

    def sequence(self, node, vals, fr):
        return Tup(vals)

    def subscript(self, node, base, fr):
        sl = node.slice
        if isinstance(base, Tup):
            from .model import const_value
            i = const_value(sl)
            if isinstance(i, int) and -len(base.elems) <= i < len(base.elems):
                return base.elems[i]
            return TOP
        if base == 'uniform':
            return 'uniform'
        if not (isinstance(base, tuple) and base and base[0] == 'lanes'):
            return TOP
        if isinstance(sl, ast.Name) and sl.id in self.masks:
            # entries selected by a boolean mask: a new lane set, in the order of the base restricted to the mask
            return lanes('mask:' + sl.id, base[2]) if base[1].startswith('param:') else TOP
        idx = self.value(sl, fr)
        if isinstance(idx, tuple) and idx and idx[0] == 'perm':
            if idx[3] != base[1]:
                return TOP
            return lanes(base[1], base[2] + ((idx[1], idx[2]),))
        if isinstance(sl, ast.Tuple) and sl.elts and isinstance(sl.elts[0], ast.Slice) and sl.elts[0].lower is None and sl.elts[0].upper is None \
                and sl.elts[0].step is None:
            return base  # x[:, None] and the like keep the row order
        if isinstance(sl, ast.Slice) and sl.lower is None and sl.upper is None and sl.step is None:
            return base
        return TOP

    def comprehension(self, node, fr):
        return TOP

    def iter_elem(self, val, node, fr):
        return TOP

    # ------------------------------------------------------------------- calls
    def _argsort(self, node, arg, fr):
        v = self.value(arg, fr)
        if isinstance(v, tuple) and v and v[0] == 'perm':
            return ('perm', v[1], not v[2], v[3])
        if isinstance(v, tuple) and v and v[0] == 'lanes' and not v[2]:
            self.perms[id(node)] = ast.unparse(node)[:60]
            return ('perm', id(node), False, v[1])
        return TOP

    def external_call(self, name, node, fr):
        leaf = (name or '').split('.')[-1] or call_name(node)
        a = node.args
        if leaf == 'argsort' and a:
            return self._argsort(node, a[0], fr)
        if leaf in REORDER:
            return TOP
        if leaf == 'concatenate' and a:
            # np.concatenate([f(chunk) for chunk in np.array_split(x, k)]): the chunks of x in order, each mapped entry by entry
            c = a[0]
            if isinstance(c, (ast.ListComp, ast.GeneratorExp)) and len(c.generators) == 1 and not c.generators[0].ifs:
                it = c.generators[0].iter
                if isinstance(it, ast.Call) and call_name(it) in ('array_split', 'split') and it.args and isinstance(c.generators[0].target, ast.Name):
                    src = self.value(it.args[0], fr)
                    if isinstance(src, tuple) and src and src[0] == 'lanes':
                        # the loop variable stands for a chunk: lanes of the same set in the same order
                        return self._value_with_chunk(c.elt, fr, c.generators[0].target.id, src)
            return TOP
        if leaf in UNIFORM:
            return 'uniform'
        if leaf in ELEMENTWISE:
            return self._combine([self.value(x, fr) for x in a] + [self.value(k.value, fr) for k in node.keywords])
        return TOP

    def _value_with_chunk(self, expr, fr, name, val):
        """Evaluate expr with the local `name` standing for `val` (a chunk of an array keeps the lane kind of the array)."""
        saved = fr.params.get(name, None)
        had = name in fr.params
        fr.params[name] = val
        old_memo = fr.memo
        fr.memo = {}
        self._chunk_names = getattr(self, '_chunk_names', set()) | {name}
        try:
            return self.value(expr, fr)
        finally:
            self._chunk_names.discard(name)
            fr.memo = old_memo
            if had:
                fr.params[name] = saved
            else:
                fr.params.pop(name, None)

    def name(self, node, fr):
        if node.id in getattr(self, '_chunk_names', ()) and node.id in fr.params:
            return fr.params[node.id]
        return super().name(node, fr)

    def project_call_override(self, g, node, fr):
        # contract of the vectorised root finders: one root per lane, in the order of the brackets and of f's values
        if g.qualname in ('copulas.optimize.bisect', 'copulas.optimize.chandrupatla') and node.args:
            vals = [self.value(a, fr) for a in node.args[1:3]]
            f = node.args[0]
            if isinstance(f, ast.Name):
                inner = [h for h in self.prog.functions.values() if h.outer is fr.fn and h.name == f.id]
                if len(inner) == 1:
                    from .absint import Frame
                    from .model import walk_no_nested
                    sub = Frame(inner[0], {p_: 'uniform' for p_ in inner[0].params}, fr.concrete, fr.depth + 1)
                    sub.outer_frame = fr
                    for r in walk_no_nested(inner[0].node):
                        if isinstance(r, ast.Return) and r.value is not None:
                            vals.append(self.value(r.value, sub))
                else:
                    return TOP
            else:
                return TOP
            return self._combine(vals)
        return None

    def method_call(self, meth, node, recv, fr):
        if meth == 'argsort' and not node.args:
            return self._argsort(node, node.func.value, fr)
        if meth in REORDER:
            return TOP
        if meth in UNIFORM:
            return 'uniform'
        if meth in ELEMENTWISE:
            return self._combine([recv] + [self.value(x, fr) for x in node.args])
        return None


def word_text(lk, v):
    if not (isinstance(v, tuple) and v and v[0] == 'lanes'):
        return str(v)
    if not v[2]:
        return f'order of {v[1]}'
    steps = [('inverse of ' if inv else '') + f'`{lk.perms.get(pid, "permutation")}`' for pid, inv in v[2]]
    return f'order of {v[1]} rearranged by ' + ' then '.join(steps)
