"""Abstract evaluation of dict-valued expressions to their key sets (C03 D2/D3, used wherever a parameter dict is built).

DK(keys, order, zipped) - keys: frozenset of constant keys, or None when not derivable; order: the keys in insertion order
when known; zipped: for dict(zip(NAMES, call)) the call node whose positional results the names label.
The evaluation follows locals (single definition plus later `name[k] = v` stores), dict()/dict(**kw)/dict(mapping)/
dict(zip(...))/dict.fromkeys(...), dict comprehensions over literal tuples, `{**a, 'k': v}` spreads and calls of project
functions (module-level helpers, methods on self, static methods) whose parameters are bound to the call's arguments,
including a **kwargs parameter that is turned into a dict.
"""

import ast

from .idioms import single_def
from .model import const_value, is_self_attr, walk_no_nested

MAX_DEPTH = 4


class DK:
    __slots__ = ('keys', 'order', 'zipped', 'values')

    def __init__(self, keys, order=None, zipped=None, values=None):
        self.keys = frozenset(keys) if keys is not None else None
        self.order = tuple(order) if order is not None else None
        self.zipped = zipped
        self.values = values  # {key: (env, expr)} where the stored value expression is known

    def __repr__(self):
        return f'DK({sorted(self.keys) if self.keys is not None else None})'


UNKNOWN = DK(None)


class Env:
    """Bindings of one activation: param -> ('expr', fn, env, node) | ('kw', {name: (fn, env, node)})."""

    def __init__(self, fn, cls, binds=None):
        self.fn, self.cls, self.binds = fn, cls, binds or {}


def const_tuple(ctx, env, e, depth=0):
    """Tuple of string constants denoted by e, or None."""
    if depth > MAX_DEPTH:
        return None
    if isinstance(e, (ast.Tuple, ast.List)) and e.elts and all(isinstance(x, ast.Constant) and isinstance(x.value, str) for x in e.elts):
        return tuple(x.value for x in e.elts)
    if isinstance(e, ast.Name):
        b = env.binds.get(e.id)
        if b is not None and b[0] == 'expr':
            return const_tuple(ctx, b[2], b[3], depth + 1)
        d = single_def(env.fn.node, e.id)
        if isinstance(d, ast.AST):
            return const_tuple(ctx, env, d, depth + 1)
        c = ctx.prog.constant(ctx.prog.resolve(env.fn.module, e))
        if c is not None:
            return const_tuple(ctx, env, c, depth + 1)
    if isinstance(e, ast.Attribute) and isinstance(e.value, ast.Name) and e.value.id in ('self', 'cls') and env.cls is not None:
        a = env.cls.lookup_attr(e.attr)
        if a is not None and isinstance(a[1], ast.AST):
            return const_tuple(ctx, env, a[1], depth + 1)
    return None


def _merge(a, b):
    if a.keys is None or b.keys is None:
        return UNKNOWN
    order = None
    if a.order is not None and b.order is not None:
        order = a.order + tuple(k for k in b.order if k not in a.order)
    vals = dict(a.values or {})
    vals.update(b.values or {})
    for k in (a.keys | b.keys):
        if k not in vals:
            vals.pop(k, None)
    return DK(a.keys | b.keys, order, a.zipped or b.zipped, vals)


def _item_stores(fn, name):
    out = []
    for s in walk_no_nested(fn.node):
        if isinstance(s, ast.Assign):
            for t in s.targets:
                if isinstance(t, ast.Subscript) and isinstance(t.value, ast.Name) and t.value.id == name:
                    out.append((const_value(t.slice), s.value))
        if isinstance(s, ast.Call) and isinstance(s.func, ast.Attribute) and s.func.attr in ('update', 'setdefault', 'pop', 'popitem', 'clear') \
                and isinstance(s.func.value, ast.Name) and s.func.value.id == name:
            out.append((None, None))
    return out


def evaluate(ctx, env, e, depth=0):
    if depth > MAX_DEPTH or e is None:
        return UNKNOWN
    prog = ctx.prog
    fn = env.fn
    if isinstance(e, ast.Dict):
        cur = DK((), ())
        for k, v in zip(e.keys, e.values):
            if k is None:
                cur = _merge(cur, evaluate(ctx, env, v, depth + 1))
            else:
                kv = const_value(k)
                if not isinstance(kv, str):
                    return UNKNOWN
                cur = _merge(cur, DK((kv,), (kv,), None, {kv: (env, v)}))
        return cur
    if isinstance(e, ast.Name):
        b = env.binds.get(e.id)
        if b is not None:
            if b[0] == 'kw':
                return DK(b[1].keys(), tuple(b[1].keys()), None, {k: (v[1], v[2]) for k, v in b[1].items()})
            return evaluate(ctx, b[2], b[3], depth + 1)
        d = single_def(fn.node, e.id)
        if not isinstance(d, ast.AST):
            return UNKNOWN
        cur = evaluate(ctx, env, d, depth + 1)
        for k, v in _item_stores(fn, e.id):
            if not isinstance(k, str):
                return UNKNOWN
            cur = _merge(cur, DK((k,), (k,), None, {k: (env, v)}))
        return cur
    if isinstance(e, ast.DictComp) and len(e.generators) == 1 and not e.generators[0].ifs and isinstance(e.generators[0].target, ast.Name) \
            and isinstance(e.key, ast.Name) and e.key.id == e.generators[0].target.id:
        names = const_tuple(ctx, env, e.generators[0].iter)
        return DK(names, names) if names is not None else UNKNOWN
    if isinstance(e, ast.Call):
        f = e.func
        if isinstance(f, ast.Name) and f.id == 'dict':
            cur = DK((), ())
            if len(e.args) == 1:
                a = e.args[0]
                if isinstance(a, ast.Call) and isinstance(a.func, ast.Name) and a.func.id == 'zip' and len(a.args) == 2:
                    names = const_tuple(ctx, env, a.args[0])
                    if names is None:
                        return UNKNOWN
                    cur = DK(names, names, a.args[1])
                else:
                    cur = evaluate(ctx, env, a, depth + 1)
            elif e.args:
                return UNKNOWN
            for k in e.keywords:
                if k.arg is None:
                    cur = _merge(cur, evaluate(ctx, env, k.value, depth + 1))
                else:
                    cur = _merge(cur, DK((k.arg,), (k.arg,), None, {k.arg: (env, k.value)}))
            return cur
        if isinstance(f, ast.Attribute) and f.attr == 'fromkeys' and isinstance(f.value, ast.Name) and f.value.id == 'dict' and e.args:
            names = const_tuple(ctx, env, e.args[0])
            return DK(names, names) if names is not None else UNKNOWN
        if isinstance(f, ast.Attribute) and f.attr == 'copy' and not e.args:
            return evaluate(ctx, env, f.value, depth + 1)
        # project call
        g = None
        if isinstance(f, ast.Attribute) and isinstance(f.value, ast.Name) and f.value.id in (fn.self_name, 'cls') and env.cls is not None:
            g = env.cls.lookup(f.attr)
        elif isinstance(f, ast.Name) or isinstance(f, ast.Attribute):
            g = prog.functions.get(prog.resolve(fn.module, f) or '')
        if g is None or g.node is fn.node:
            return UNKNOWN
        params = list(g.params)
        if g.cls is not None and g.kind in ('method', 'classmethod') and isinstance(f, ast.Attribute):
            params = params[1:]
        binds, extra = {}, {}
        for p_, a in zip(params, e.args):
            if isinstance(a, ast.Starred):
                return UNKNOWN
            binds[p_] = ('expr', fn, env, a)
        for k in e.keywords:
            if k.arg is None:
                return UNKNOWN
            if k.arg in params or k.arg in g.kwonly:
                binds[k.arg] = ('expr', fn, env, k.value)
            else:
                extra[k.arg] = (fn, env, k.value)
        if g.kwarg:
            binds[g.kwarg] = ('kw', extra)
        elif extra:
            return UNKNOWN
        sub = Env(g, env.cls if g.cls is not None else None, binds)
        rets = [r for r in walk_no_nested(g.node) if isinstance(r, ast.Return) and r.value is not None]
        if not rets:
            return UNKNOWN
        vals = [evaluate(ctx, sub, r.value, depth + 1) for r in rets]
        if any(v.keys is None for v in vals) or len({v.keys for v in vals}) != 1:
            return UNKNOWN
        return vals[0]
    return UNKNOWN


def deref(ctx, env, e, depth=0):
    """Follow a name through parameter bindings and single definitions: (env, expr) of the defining expression."""
    while isinstance(e, ast.Name) and depth < 8:
        depth += 1
        b = env.binds.get(e.id)
        if b is not None and b[0] == 'expr':
            env, e = b[2], b[3]
            continue
        d = single_def(env.fn.node, e.id)
        if isinstance(d, ast.AST):
            e = d
            continue
        break
    return env, e


def stored_params(ctx, fn, cls, attr='_params'):
    """[(assign stmt, DK)] for `self.<attr> = <expr>` in fn (evaluated for the concrete class cls)."""
    out = []
    env = Env(fn, cls)
    for s in walk_no_nested(fn.node):
        if isinstance(s, ast.Assign) and any(is_self_attr(t, fn.self_name, attr) for t in s.targets):
            out.append((s, evaluate(ctx, env, s.value)))
    return out
