"""copstat - repository-specific static analysis for sdv-dev/Copulas (properties C01-C20)."""
