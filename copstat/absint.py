"""E5 core - a small demand-driven abstract interpreter over expressions.

`AbsInt.value(expr)` evaluates an expression of one function to an abstract value.  Local names
are resolved through their reaching definitions (flow-aware: a definition in an enclosing block
kills earlier ones; definitions inside sibling branches or loop bodies are joined), parameters
through the binding supplied by the caller, calls of project functions by evaluating the
callee's return expressions under the bound arguments (depth-limited), `self.<attr>` through a
per-domain table or the stores found in the class.  Each kind system subclasses this and
supplies the meaning of constants, operators and external calls.
"""

import ast

from .model import is_self_attr, walk_no_nested


class _Top:
    def __repr__(self):
        return 'TOP'


class _Bot:
    def __repr__(self):
        return 'BOT'


TOP = _Top()
BOT = _Bot()


class Tup:
    """A tuple/list literal of abstract values (for unpacking)."""

    def __init__(self, elems, kind='tuple'):
        self.elems = list(elems)
        self.kind = kind

    def __eq__(self, other):
        return isinstance(other, Tup) and self.elems == other.elems

    def __hash__(self):
        return hash(tuple(map(repr, self.elems)))

    def __repr__(self):
        return f'({", ".join(map(repr, self.elems))})'


def pos(node):
    return (getattr(node, 'lineno', 0), getattr(node, 'col_offset', 0))


def block_chain(node, root):
    """Statement lists (as (owner id, field)) that enclose node, outermost first."""
    chain = []
    child = node
    p = getattr(node, '_parent', None)
    while p is not None:
        for field in ('body', 'orelse', 'finalbody'):
            lst = getattr(p, field, None)
            if isinstance(lst, list) and child in lst:
                chain.append((id(p), field))
                break
        else:
            if isinstance(p, ast.ExceptHandler):
                pass
        if p is root:
            break
        child = p
        p = getattr(p, '_parent', None)
    chain.reverse()
    return chain


class Binding:
    """One binding site of a local name."""

    def __init__(self, stmt, kind, value=None, index=None, total=None, target=None):
        self.stmt = stmt
        self.kind = kind  # assign | aug | for | with | comp | unpack | forunpack | def | except | walrus
        self.value = value
        self.index = index
        self.total = total
        self.target = target


def collect_bindings(fnnode):
    out = {}

    def bind(target, mk):
        if isinstance(target, ast.Name):
            out.setdefault(target.id, []).append(mk(None, None))
        elif isinstance(target, (ast.Tuple, ast.List)):
            n = len(target.elts)
            for i, e in enumerate(target.elts):
                if isinstance(e, ast.Starred):
                    e = e.value
                if isinstance(e, ast.Name):
                    out.setdefault(e.id, []).append(mk(i, n))
                elif isinstance(e, (ast.Tuple, ast.List)):
                    # nested unpacking: give up precision
                    for sub in ast.walk(e):
                        if isinstance(sub, ast.Name):
                            out.setdefault(sub.id, []).append(Binding(None, 'opaque'))

    for n in walk_no_nested(fnnode):
        if isinstance(n, ast.Assign):
            for t in n.targets:
                bind(t, lambda i, tot, n=n, t=t: Binding(n, 'assign' if i is None else 'unpack', n.value, i, tot, t))
        elif isinstance(n, ast.AnnAssign) and n.value is not None:
            bind(n.target, lambda i, tot, n=n: Binding(n, 'assign', n.value, i, tot))
        elif isinstance(n, ast.AugAssign):
            if isinstance(n.target, ast.Name):
                out.setdefault(n.target.id, []).append(Binding(n, 'aug', n.value))
        elif isinstance(n, (ast.For, ast.AsyncFor)):
            bind(n.target, lambda i, tot, n=n: Binding(n, 'for' if i is None else 'forunpack', n.iter, i, tot))
        elif isinstance(n, ast.comprehension):
            owner = n._parent
            bind(n.target, lambda i, tot, n=n, owner=owner: Binding(
                owner, 'for' if i is None else 'forunpack', n.iter, i, tot))
        elif isinstance(n, ast.withitem) and n.optional_vars is not None:
            bind(n.optional_vars, lambda i, tot, n=n: Binding(n._parent, 'with', n.context_expr, i, tot))
        elif isinstance(n, (ast.FunctionDef, ast.AsyncFunctionDef)) and n is not fnnode:
            out.setdefault(n.name, []).append(Binding(n, 'def', n))
        elif isinstance(n, ast.ExceptHandler) and n.name:
            out.setdefault(n.name, []).append(Binding(n, 'except', n.type))
        elif isinstance(n, ast.NamedExpr) and isinstance(n.target, ast.Name):
            out.setdefault(n.target.id, []).append(Binding(n, 'walrus', n.value))
    return out


class Frame:
    def __init__(self, fn, params=None, concrete=None, depth=0, selfval=None, path=None):
        self.fn = fn
        self.params = params or {}
        self.concrete = concrete
        self.depth = depth
        self.bindings = collect_bindings(fn.node)
        self.memo = {}
        self.busy = set()
        self.selfval = selfval
        self.path = None
        if path is not None:
            self.set_path(path)

    def set_path(self, path):
        """Restrict reaching definitions to the statements of one acyclic path (idioms.Path)."""
        ids = set()
        for s_ in path.stmts:
            node = getattr(s_, 'node', s_)
            ids.add(id(node))
        if path.end is not None:
            ids.add(id(path.end))
        self.path = ids
        self.memo = {}


class AbsInt:
    MAX_DEPTH = 3

    def __init__(self, ctx):
        self.ctx = ctx
        self.prog = ctx.prog
        self.cg = ctx.cg
        self.trace = []

    # ------------------------------------------------------------ domain hooks
    def join(self, a, b):
        if a is BOT:
            return b
        if b is BOT:
            return a
        if a is TOP or b is TOP:
            return TOP
        if isinstance(a, Tup) and isinstance(b, Tup) and len(a.elems) == len(b.elems):
            return Tup([self.join(x, y) for x, y in zip(a.elems, b.elems)], a.kind)
        return a if a == b else self.join_distinct(a, b)

    def join_distinct(self, a, b):
        return TOP

    def const(self, node, fr):
        return TOP

    def param(self, name, fr):
        return fr.params.get(name, TOP)

    def binop(self, node, left, right, fr):
        return TOP

    def unaryop(self, node, operand, fr):
        return TOP

    def compare(self, node, fr):
        return TOP

    def boolop(self, node, vals, fr):
        out = BOT
        for v in vals:
            out = self.join(out, v)
        return out

    def attribute(self, node, base, fr):
        return TOP

    def self_attr(self, attr, node, fr):
        return TOP

    def subscript(self, node, base, fr):
        return TOP

    def external_call(self, name, node, fr):
        """name: resolved dotted external name or None; returns abstract value."""
        return TOP

    def method_call(self, meth, node, recv, fr):
        """Call of a method on a receiver that is not resolved statically; None = fall through."""
        return None

    def iter_elem(self, val, node, fr):
        return TOP

    def unpack(self, val, index, total, node, fr):
        if isinstance(val, Tup) and len(val.elems) == total:
            return val.elems[index]
        return TOP

    def comprehension(self, node, fr):
        return TOP

    def global_name(self, dotted, node, fr):
        """A name resolved to a module-level object (constant, function, class)."""
        return TOP

    def project_call_override(self, fn, node, fr):
        """Return a value to bypass evaluating a project callee, or None."""
        return None

    # ---------------------------------------------------------------- evaluation
    def ifexp(self, e, fr):
        return self.join(self.value(e.body, fr), self.value(e.orelse, fr))

    def value(self, expr, fr):
        key = id(expr)
        if key in fr.memo:
            return fr.memo[key]
        if key in fr.busy:
            return BOT
        fr.busy.add(key)
        try:
            v = self._value(expr, fr)
        finally:
            fr.busy.discard(key)
        fr.memo[key] = v
        return v

    def _value(self, e, fr):
        if isinstance(e, ast.Constant):
            return self.const(e, fr)
        if isinstance(e, ast.Name):
            return self.name(e, fr)
        if isinstance(e, ast.Attribute):
            sn = self.selfname(fr)
            if sn and is_self_attr(e, sn):
                return self.self_attr(e.attr, e, fr)
            dotted = self.prog.resolve(fr.fn.module, e)
            if dotted is not None:
                return self.global_name(dotted, e, fr)
            return self.attribute(e, self.value(e.value, fr), fr)
        if isinstance(e, ast.BinOp):
            return self.binop(e, self.value(e.left, fr), self.value(e.right, fr), fr)
        if isinstance(e, ast.UnaryOp):
            return self.unaryop(e, self.value(e.operand, fr), fr)
        if isinstance(e, ast.Compare):
            return self.compare(e, fr)
        if isinstance(e, ast.BoolOp):
            return self.boolop(e, [self.value(v, fr) for v in e.values], fr)
        if isinstance(e, ast.IfExp):
            return self.ifexp(e, fr)
        if isinstance(e, (ast.Tuple, ast.List)):
            return self.sequence(e, [self.value(x, fr) for x in e.elts], fr)
        if isinstance(e, ast.Subscript):
            return self.subscript(e, self.value(e.value, fr), fr)
        if isinstance(e, ast.Call):
            return self.call(e, fr)
        if isinstance(e, (ast.ListComp, ast.GeneratorExp, ast.SetComp, ast.DictComp)):
            return self.comprehension(e, fr)
        if isinstance(e, ast.Starred):
            return self.value(e.value, fr)
        if isinstance(e, ast.NamedExpr):
            return self.value(e.value, fr)
        if isinstance(e, ast.Dict):
            return self.dict_literal(e, fr)
        if isinstance(e, ast.JoinedStr):
            return self.const(e, fr)
        if isinstance(e, ast.Lambda):
            return self.lambda_(e, fr)
        return TOP

    def sequence(self, node, vals, fr):
        return Tup(vals, 'list' if isinstance(node, ast.List) else 'tuple')

    def dict_literal(self, node, fr):
        return TOP

    def lambda_(self, node, fr):
        return TOP

    def selfname(self, fr):
        f = fr.fn
        while f is not None:
            if f.self_name and f.kind == 'method':
                return f.self_name
            f = f.outer
        return None

    # ------------------------------------------------------------------- names
    def name(self, node, fr):
        nm = node.id
        fn = fr.fn
        binds = fr.bindings.get(nm)
        is_param = nm in fn.params or nm in fn.kwonly or nm == fn.vararg or nm == fn.kwarg
        if not binds:
            if is_param:
                return self.param_default(self.param(nm, fr), fr)
            # closure variable of the enclosing function
            of = getattr(fr, 'outer_frame', None)
            if fn.outer is not None and of is not None:
                if nm in of.bindings or nm in of.fn.params or nm in of.fn.kwonly:
                    fake = ast.Name(id=nm, ctx=ast.Load())
                    fake.lineno, fake.col_offset = fn.node.end_lineno or fn.node.lineno, 10 ** 6
                    fake._parent = fn.node
                    return self.name(fake, of)
            dotted = self.prog.resolve(fn.module, node)
            if dotted is not None:
                return self.global_name(dotted, node, fr)
            return TOP
        reach, initial = self.reaching(node, binds, fr)
        out = BOT
        if initial and is_param:
            out = self.join(out, self.param_default(self.param(nm, fr), fr))
        if not reach and out is BOT:
            return TOP
        for b in reach:
            out = self.join(out, self.binding_value(nm, b, fr))
            if out is TOP:
                break
        return out

    def _in_common_loop(self, stmt, use, root):
        """stmt lies inside a loop that also contains use (loop-carried definition)."""
        p = getattr(use, '_parent', None)
        while p is not None and p is not root:
            if isinstance(p, (ast.For, ast.While)) and self._contains(p, stmt):
                return True
            p = getattr(p, '_parent', None)
        return False

    def reaching(self, use, binds, fr):
        """(bindings that may reach `use`, does the value at function entry reach it too?)"""
        if any(b.stmt is None for b in binds):
            return list(binds), True
        root = fr.fn.node
        comps = (ast.ListComp, ast.GeneratorExp, ast.SetComp, ast.DictComp)
        use_chain = block_chain(use, root)
        out = []
        # a comprehension variable is visible only inside its comprehension
        for b in binds:
            if isinstance(b.stmt, comps) and self._contains(b.stmt, use):
                return [b], False
        cands = [b for b in binds if not isinstance(b.stmt, comps)]
        if fr.path is not None:
            cands = [b for b in cands if id(b.stmt) in fr.path or isinstance(b.stmt, (ast.FunctionDef, ast.ExceptHandler))]
        before = sorted([b for b in cands if pos(b.stmt) < pos(use)], key=lambda b: pos(b.stmt), reverse=True)
        killed = False
        for b in before:
            inside = self._contains(b.stmt, use)
            if inside:
                if b.kind in ('for', 'forunpack') and self._in_field(b.stmt, use, 'body'):
                    out.append(b)
                    killed = True
                    break
                if b.kind == 'with' and self._in_field(b.stmt, use, 'body'):
                    out.append(b)
                    killed = True
                    break
                if b.kind == 'aug' and b.stmt is getattr(use, '_parent', None):
                    continue  # the synthetic `x` read of `x += y` itself
                if b.kind in ('for', 'forunpack'):
                    out.append(b)  # use in the orelse of the loop
                continue
            out.append(b)
            bchain = block_chain(b.stmt, root)
            if b.kind in ('assign', 'unpack', 'def', 'walrus', 'aug') \
                    and len(bchain) <= len(use_chain) and use_chain[:len(bchain)] == bchain:
                killed = True
                break
            if fr.path is not None and b.kind in ('assign', 'unpack', 'def', 'walrus', 'aug'):
                # along one acyclic path the latest preceding binding is the only one that reaches
                killed = True
                break
        for b in cands:
            if pos(b.stmt) >= pos(use) and not self._contains(b.stmt, use) and b not in out \
                    and self._in_common_loop(b.stmt, use, root):
                out.append(b)
        return out, not killed

    @staticmethod
    def _contains(stmt, node):
        p = node
        while p is not None:
            if p is stmt:
                return True
            p = getattr(p, '_parent', None)
        return False

    @staticmethod
    def _in_field(stmt, node, field):
        child = node
        p = getattr(node, '_parent', None)
        while p is not None:
            if p is stmt:
                lst = getattr(stmt, field, None)
                return isinstance(lst, list) and child in lst
            child = p
            p = getattr(p, '_parent', None)
        return False

    def binding_value(self, nm, b, fr):
        if b.kind == 'opaque':
            return TOP
        if b.kind == 'assign' or b.kind == 'walrus':
            return self.value(b.value, fr)
        if b.kind == 'unpack':
            if isinstance(b.value, (ast.Tuple, ast.List)) and len(b.value.elts) == b.total:
                return self.value(b.value.elts[b.index], fr)
            return self.unpack(self.value(b.value, fr), b.index, b.total, b.stmt, fr)
        if b.kind == 'aug':
            fake = ast.Name(id=nm, ctx=ast.Load())
            fake.lineno, fake.col_offset = b.stmt.lineno, b.stmt.col_offset
            fake._parent = b.stmt
            prev = self.value_fresh(fake, fr)
            node = ast.BinOp(left=fake, op=b.stmt.op, right=b.stmt.value)
            ast.copy_location(node, b.stmt)
            node._parent = b.stmt
            return self.binop(node, prev, self.value(b.stmt.value, fr), fr)
        if b.kind == 'for':
            return self.iter_elem(self.iter_value(b.value, fr), b.stmt, fr)
        if b.kind == 'forunpack':
            el = self.iter_elem(self.iter_value(b.value, fr), b.stmt, fr)
            return self.unpack(el, b.index, b.total, b.stmt, fr)
        if b.kind == 'with':
            return self.with_value(b, fr)
        if b.kind == 'def':
            return self.local_function(b.value, fr)
        return TOP

    def value_fresh(self, node, fr):
        return self._value(node, fr)

    def with_value(self, b, fr):
        return TOP

    def local_function(self, node, fr):
        return TOP

    def iter_value(self, it, fr):
        """Abstract value of the iterable of a for loop (zip / enumerate / items are structural)."""
        if isinstance(it, ast.Call) and isinstance(it.func, ast.Name):
            if it.func.id == 'zip':
                return Tup([self.value(a, fr) for a in it.args], 'zip')
            if it.func.id == 'enumerate' and it.args:
                return Tup([self.value(it.args[0], fr)], 'enumerate')
        if isinstance(it, ast.Call) and isinstance(it.func, ast.Attribute) and it.func.attr == 'items' and not it.args:
            return Tup([self.value(it.func.value, fr)], 'items')
        return self.value(it, fr)

    # ------------------------------------------------------------------- calls
    def call(self, node, fr):
        prog = self.prog
        f = node.func
        nm = prog.resolve(fr.fn.module, f)
        if nm is not None and not nm.startswith('copulas.'):
            return self.external_call(nm, node, fr)
        tgts = [t for t in self.cg.targets(fr.fn, node, fr.concrete) if not t.how.startswith('decorator')]
        proj = [t for t in tgts if t.kind == 'proj' and t.how != 'by method name']
        ctor = [t for t in tgts if t.kind == 'ctor']
        if ctor:
            return self.constructor(ctor[0].ext, node, fr)
        if isinstance(f, ast.Attribute) and not proj:
            recv = self.value(f.value, fr)
            r = self.method_call(f.attr, node, recv, fr)
            if r is not None:
                return r
        if proj:
            out = BOT
            for t in proj:
                out = self.join(out, self.project_call(t.fn, node, fr))
                if out is TOP:
                    break
            return out
        if isinstance(f, ast.Name):
            return self.local_call(f.id, node, fr)
        ext = [t for t in tgts if t.kind == 'ext']
        if ext:
            return self.external_call(ext[0].ext, node, fr)
        return TOP

    def constructor(self, clsname, node, fr):
        return TOP

    def local_call(self, name, node, fr):
        return self.external_call(name, node, fr)

    def project_call(self, g, node, fr):
        ov = self.project_call_override(g, node, fr)
        if ov is not None:
            return ov
        if fr.depth >= self.MAX_DEPTH:
            return TOP
        aa = self.ctx.memo.get('alias')
        params = {}
        binding = self._bind(fr.fn, node, g)
        for p, args in binding.items():
            v = BOT
            for a in args:
                v = self.join(v, self.value(a, fr))
            params[p] = v
        for p, d in g.defaults.items():
            if p not in params:
                params[p] = ('default', d)
        concrete = fr.concrete if (fr.concrete is not None and g.cls is not None and g.cls in fr.concrete.mro()) else None
        sub = Frame(g, params, concrete, fr.depth + 1)
        sub.caller = fr
        return self.returns(sub)

    def returns(self, fr):
        out = BOT
        found = False
        for n in walk_no_nested(fr.fn.node):
            if isinstance(n, ast.Return):
                found = True
                if n.value is None:
                    out = self.join(out, self.const(ast.Constant(value=None), fr))
                else:
                    out = self.join(out, self.value(n.value, fr))
        if not found:
            return self.const(ast.Constant(value=None), fr)
        return out

    def param_default(self, v, fr):
        if isinstance(v, tuple) and len(v) == 2 and v[0] == 'default':
            return self.value(v[1], Frame(fr.fn, {}, fr.concrete, fr.depth))
        return v

    def _bind(self, fn, call, g):
        from .effects import AliasAnalysis
        binder = self.ctx.memo.get('binder')
        if binder is None:
            binder = AliasAnalysis.__new__(AliasAnalysis)
            binder.prog = self.prog
            self.ctx.memo['binder'] = binder
        return binder.bind(fn, call, g)
