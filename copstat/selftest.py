"""Self-validation of the checker (thorough tier, DESIGN 3.9).

* mutants: one broken instance each, applied in memory through the source overlay (never written
  to /repo, never executed; only `compile()`d).  The named rule must report a NEW violation.
* rewrites: behaviour-preserving edits on which the property's check must stay silent
  (no new violation compared with the unmodified tree).

A mutant whose anchor text no longer occurs in the current tree is skipped and counted (the tree
moved on; the corpus is tied to the pinned sources), never failed.  A failure of self-validation is
an ANALYSIS-ERROR (exit 2), not a VIOLATION.
"""

import importlib
import os
from concurrent.futures import ProcessPoolExecutor

from .model import REPO, AnalysisError

CORPUS_MODULES = [f'copstat.corpus.c{i:02d}' for i in range(1, 21)]


def load_corpus(pid):
    try:
        mod = importlib.import_module(f'copstat.corpus.{pid.lower()}')
    except ModuleNotFoundError:
        return [], []
    return getattr(mod, 'MUTANTS', []), getattr(mod, 'REWRITES', [])


def apply_edit(spec):
    """spec: dict(file=, old=, new=, [count=1]) or list of such -> overlay dict, or None if anchor missing."""
    edits = spec['edits'] if 'edits' in spec else [spec]
    overlay = {}
    for e in edits:
        rel = e['file'] if e['file'].startswith('copulas/') else 'copulas/' + e['file']
        src = overlay.get(rel)
        if src is None:
            with open(os.path.join(REPO, rel), encoding='utf-8') as fh:
                src = fh.read()
        if src.count(e['old']) != e.get('count', 1):
            return None
        src = src.replace(e['old'], e['new'])
        try:
            compile(src, rel, 'exec')
        except SyntaxError as exc:
            raise AnalysisError(f'self-test edit {spec.get("name")} does not compile: {exc}')
        overlay[rel] = src
    return overlay


def _violation_keys(rep):
    from .report import VIOLATION
    return {(o.rule, o.func, o.construct) for o in rep.obls if o.status == VIOLATION}


def _run_one(args):
    pid, kind, spec, base_keys = args
    from .engine import run_property
    try:
        overlay = apply_edit(spec)
        if overlay is None:
            return (kind, spec['name'], 'skipped', 'anchor text not present in the current tree')
        code, rep = run_property(pid, 'quick', overlay=overlay, write=False, quiet=True)
        keys = _violation_keys(rep)
        new = keys - set(base_keys)
        if kind == 'mutant':
            want = spec.get('rule')
            hit = [k for k in new if want is None or k[0].startswith(want)]
            if hit:
                return (kind, spec['name'], 'fired', f'{hit[0][0]} {hit[0][1]}: {hit[0][2][:80]}')
            return (kind, spec['name'], 'MISSED', f'expected rule {want}; new violations: {sorted(new)[:3]}')
        else:
            if new:
                return (kind, spec['name'], 'ALARM', f'{sorted(new)[:3]}')
            return (kind, spec['name'], 'silent', '')
    except AnalysisError as exc:
        if kind == 'mutant' and spec.get('expect') == 'analysis-error':
            return (kind, spec['name'], 'fired', f'ANALYSIS-ERROR {exc}')
        return (kind, spec['name'], 'ERROR', f'AnalysisError: {exc}')
    except Exception as exc:  # pragma: no cover
        import traceback
        return (kind, spec['name'], 'ERROR', traceback.format_exc()[-400:])


def run_for(pid, base_rep, jobs=None):
    mutants, rewrites = load_corpus(pid)
    if not mutants and not rewrites:
        print(f'[{pid}] self-validation: no corpus')
        return 0
    base_keys = sorted(_violation_keys(base_rep))
    seed = int(os.environ.get('VERIF_SEED', '0') or 0)
    work = [(pid, 'mutant', m, base_keys) for m in mutants] + [(pid, 'rewrite', r, base_keys) for r in rewrites]
    if seed:
        import random
        random.Random(seed).shuffle(work)
    jobs = jobs or min(16, os.cpu_count() or 4, max(1, len(work)))
    with ProcessPoolExecutor(max_workers=jobs) as ex:
        results = list(ex.map(_run_one, work))
    fired = [r for r in results if r[2] == 'fired']
    silent = [r for r in results if r[2] == 'silent']
    skipped = [r for r in results if r[2] == 'skipped']
    bad = [r for r in results if r[2] in ('MISSED', 'ALARM', 'ERROR')]
    print(f'[{pid}] self-validation: mutants fired {len(fired)}/{len(mutants)}, rewrites silent '
          f'{len(silent)}/{len(rewrites)}, skipped {len(skipped)}')
    for r in bad + skipped:
        print(f'   {r[2]:<8} {r[0]} {r[1]}: {r[3]}')
    # extend the evidence file written by the main run
    import json
    from .report import VERIF
    path = os.path.join(VERIF, 'evidence', f'{pid}.json')
    try:
        with open(path) as fh:
            ev = json.load(fh)
        ev['coverage']['selftest'] = {
            'mutants_total': len(mutants), 'mutants_fired': len(fired),
            'rewrites_total': len(rewrites), 'rewrites_silent': len(silent), 'skipped': len(skipped),
            'failed': [list(r) for r in bad],
            'mutant_samples': [list(r) for r in fired[:8]],
        }
        with open(path, 'w') as fh:
            json.dump(ev, fh, indent=1, default=str)
    except FileNotFoundError:
        pass
    if bad:
        print(f'ANALYSIS-ERROR property={pid} self-validation failed for {len(bad)} corpus entries')
        return 2
    return 0


def main():
    import sys
    from .engine import PROPERTIES, run_property
    pids = [a.upper() for a in sys.argv[1:]] or PROPERTIES
    worst = 0
    for pid in pids:
        code, rep = run_property(pid, 'quick', write=False, quiet=True)
        worst = max(worst, run_for(pid, rep))
    return worst


if __name__ == '__main__':
    raise SystemExit(main())
