"""E2 - resolved call graph (class-hierarchy analysis + the repository's factories)."""

import ast
from collections import namedtuple

from .model import PKG, call_name, is_self_attr, walk_no_nested

Target = namedtuple('Target', 'kind fn ext how')
# kind: 'proj' (fn = FuncInfo), 'ctor' (fn = __init__ FuncInfo or None, ext = class qualname),
#       'ext' (ext = dotted external name), 'unknown' (ext = trailing name)

# Factories of the repository: callee (canonical dotted name) -> root class of what it returns.
FACTORY_RETURNS = {
    'copulas.utils.get_instance': None,  # any class; narrowed by method name
    'copulas.multivariate.tree.get_tree': 'copulas.multivariate.tree.Tree',
    'copulas.bivariate.select_copula': 'copulas.bivariate.base.Bivariate',
    'copulas.bivariate.base.Bivariate.select_copula': 'copulas.bivariate.base.Bivariate',
    'copulas.univariate.selection.select_univariate': 'copulas.univariate.base.Univariate',
}

# Attributes / containers whose element class is fixed by how the repository fills them.
# (attribute name -> root class); confirmed by reading every store into these attributes.
ATTR_TYPES = {
    'univariates': 'copulas.univariate.base.Univariate',
    'unis': 'copulas.univariate.gaussian_kde.GaussianKDE',
    '_instance': 'copulas.univariate.base.Univariate',
    'trees': 'copulas.multivariate.tree.Tree',
    'previous_tree': 'copulas.multivariate.tree.Tree',
    'edges': 'copulas.multivariate.tree.Edge',
    'parents': 'copulas.multivariate.tree.Edge',
}
EXT_ATTR_TYPES = {
    '_model': 'scipy.stats.gaussian_kde()',
    'random_state': 'numpy.random.RandomState()',
}


class CallGraph:
    def __init__(self, prog):
        self.prog = prog
        self._cache = {}
        self.by_method_name = {}
        for fn in prog.functions.values():
            if fn.cls is not None:
                self.by_method_name.setdefault(fn.name, []).append(fn)
        self.resolved = 0
        self.unresolved = 0

    # ------------------------------------------------------------ receiver types
    def _root_subclasses(self, qual):
        c = self.prog.classes.get(qual)
        return set(c.subclasses(strict=False)) if c else set()

    def local_defs(self, fn, name):
        """All value expressions assigned to local `name` in fn (flow-insensitive), with how."""
        out = []
        for n in walk_no_nested(fn.node):
            if isinstance(n, ast.Assign):
                for t in n.targets:
                    out.extend(self._bind(t, n.value, name))
            elif isinstance(n, ast.AnnAssign) and n.value is not None:
                out.extend(self._bind(n.target, n.value, name))
            elif isinstance(n, (ast.For, ast.comprehension)):
                out.extend(self._bind(n.target, ('iter', n.iter), name))
            elif isinstance(n, ast.withitem) and n.optional_vars is not None:
                out.extend(self._bind(n.optional_vars, ('with', n.context_expr), name))
        return out

    def _bind(self, target, value, name):
        if isinstance(target, ast.Name):
            return [value] if target.id == name else []
        if isinstance(target, (ast.Tuple, ast.List)):
            out = []
            for i, el in enumerate(target.elts):
                if isinstance(value, (ast.Tuple, ast.List)) and len(value.elts) == len(target.elts):
                    out.extend(self._bind(el, value.elts[i], name))
                elif isinstance(value, tuple) and value[0] == 'iter':
                    out.extend(self._bind(el, ('iter-elt', value[1], i), name))
                else:
                    out.extend(self._bind(el, ('unpack', value, i), name))
            return out
        return []

    def expr_classes(self, fn, expr, _depth=0):
        """Set of ClassInfo the value of expr may be an instance of; None = unknown.
        A str element 'ext:<dotted>' marks an external object."""
        prog = self.prog
        if _depth > 6:
            return None
        if isinstance(expr, tuple):
            tag = expr[0]
            if tag == 'iter':
                return self.elem_classes(fn, expr[1], _depth + 1)
            if tag == 'iter-elt':
                it = expr[1]
                # for a, b in zip(x, y)  /  for i, x in enumerate(y)
                if isinstance(it, ast.Call) and isinstance(it.func, ast.Name):
                    if it.func.id == 'zip' and expr[2] < len(it.args):
                        return self.elem_classes(fn, it.args[expr[2]], _depth + 1)
                    if it.func.id == 'enumerate' and expr[2] == 1 and it.args:
                        return self.elem_classes(fn, it.args[0], _depth + 1)
                return None
            if tag == 'unpack':
                inner = expr[1]
                if isinstance(inner, ast.Call):
                    nm = prog.resolve(fn.module, inner.func)
                    if nm and nm.endswith('Edge.sort_edge'):
                        return self._root_subclasses('copulas.multivariate.tree.Edge')
                if isinstance(inner, ast.Attribute) and inner.attr in ATTR_TYPES:
                    return self._root_subclasses(ATTR_TYPES[inner.attr])
                return None
            return None
        if isinstance(expr, ast.Name):
            if fn.self_name and expr.id == fn.self_name:
                if fn.kind == 'classmethod':
                    return None
                return set(fn.cls.subclasses(strict=False))
            defs = self.local_defs(fn, expr.id)
            if not defs:
                return None
            res = set()
            for d in defs:
                r = self.expr_classes(fn, d, _depth + 1)
                if r is None:
                    return None
                res |= r
            return res
        if isinstance(expr, ast.Attribute):
            if expr.attr in ATTR_TYPES and not isinstance(expr.ctx, ast.Store):
                # self.previous_tree is a Tree above level 1; a u-matrix at level 1
                return self._root_subclasses(ATTR_TYPES[expr.attr]) if expr.attr not in (
                    'univariates', 'unis', 'trees', 'edges', 'parents') else None
            if expr.attr in EXT_ATTR_TYPES:
                return {'ext:' + EXT_ATTR_TYPES[expr.attr]}
            if expr.attr == 'MODEL_CLASS':
                return {'ext:scipy.stats.<dist>'}
            return None
        if isinstance(expr, ast.Subscript):
            return self.elem_classes(fn, expr.value, _depth + 1)
        if isinstance(expr, ast.Call):
            f = expr.func
            nm = prog.resolve(fn.module, f)
            if nm in prog.classes:
                c = prog.classes[nm]
                if c.qualname == 'copulas.bivariate.base.Bivariate':
                    return set(c.subclasses(strict=False))  # __new__ factory
                return {c}
            if nm in FACTORY_RETURNS:
                root = FACTORY_RETURNS[nm]
                if root is None:
                    return None
                subs = self._root_subclasses(root)
                if root.endswith('Bivariate'):
                    subs = {c for c in subs if c.name in ('Frank', 'Clayton', 'Gumbel')}
                return subs
            if isinstance(f, ast.Name) and fn.kind == 'classmethod' and f.id == fn.self_name:
                return set(fn.cls.subclasses(strict=False))
            if isinstance(f, ast.Attribute) and f.attr == 'from_dict':
                base = prog.resolve(fn.module, f.value)
                if base in prog.classes:
                    return set(prog.classes[base].subclasses(strict=False))
            if isinstance(f, ast.Attribute) and f.attr in ('get_child_edge',):
                return self._root_subclasses('copulas.multivariate.tree.Edge')
            if isinstance(f, ast.Attribute) and f.attr == 'model' and is_self_attr(f):
                return self._root_subclasses('copulas.univariate.gaussian_kde.GaussianKDE')
            if isinstance(f, ast.Name):
                # a loop variable holding a class: `for copula_class in [Clayton, Gumbel]: copula_class()`
                defs = self.local_defs(fn, f.id)
                res = set()
                for d in defs:
                    if isinstance(d, tuple) and d[0] == 'iter' and isinstance(d[1], (ast.List, ast.Tuple)):
                        for el in d[1].elts:
                            q = prog.resolve(fn.module, el)
                            if q in prog.classes:
                                res.add(prog.classes[q])
                            else:
                                return None
                    else:
                        return None
                return res or None
            return None
        return None

    def elem_classes(self, fn, expr, _depth=0):
        if isinstance(expr, ast.Attribute) and expr.attr in ATTR_TYPES:
            return self._root_subclasses(ATTR_TYPES[expr.attr])
        if isinstance(expr, ast.Name):
            defs = self.local_defs(fn, expr.id)
            res = set()
            for d in defs:
                if isinstance(d, ast.Attribute) and d.attr in ATTR_TYPES:
                    res |= self._root_subclasses(ATTR_TYPES[d.attr])
                elif isinstance(d, (ast.List, ast.Tuple)):
                    for el in d.elts:
                        r = self.expr_classes(fn, el, _depth + 1)
                        if r is None:
                            return None
                        res |= r
                else:
                    return None
            # list filled by appends
            for n in walk_no_nested(fn.node):
                if isinstance(n, ast.Call) and isinstance(n.func, ast.Attribute) and n.func.attr == 'append' \
                        and isinstance(n.func.value, ast.Name) and n.func.value.id == expr.id and n.args:
                    r = self.expr_classes(fn, n.args[0], _depth + 1)
                    if r is None:
                        return None
                    res |= r
            return res or None
        if isinstance(expr, ast.Subscript):
            return self.elem_classes(fn, expr.value, _depth + 1)
        return None

    # ------------------------------------------------------------------ targets
    def targets(self, fn, call, concrete=None):
        """Resolve one call site.  `concrete` (ClassInfo) narrows `self` dispatch to one class."""
        key = (id(call), concrete.qualname if concrete else None)
        if key in self._cache:
            return self._cache[key]
        res = self._targets(fn, call, concrete)
        self._cache[key] = res
        return res

    def _wrap(self, f, how):
        out = [Target('proj', f, None, how)]
        for d in f.decorators:
            w = self.prog.functions.get(d)
            if w is not None:
                for inner in self.prog.functions.values():
                    if inner.outer is w:
                        out.append(Target('proj', inner, None, f'decorator {d}'))
        return out

    @staticmethod
    def _owner(fn):
        """The enclosing method whose `self` a nested function closes over."""
        o = fn
        while o.outer is not None and not (o.self_name and o.cls is not None):
            o = o.outer
        return o

    def _targets(self, fn, call, concrete):
        prog = self.prog
        f = call.func
        if fn.outer is not None and not fn.self_name:
            owner = self._owner(fn)
            if owner is not fn and owner.self_name and isinstance(f, ast.Attribute) and isinstance(f.value, ast.Name) \
                    and f.value.id == owner.self_name and f.value.id not in fn.params:
                return self._self_dispatch(owner, f, concrete)
        # decorated/closure parameter calls: function(self, ...) inside a decorator wrapper
        nm = prog.resolve(fn.module, f)
        if isinstance(f, ast.Name):
            # nested function defined in this function (or the enclosing one)
            scope = fn
            while scope is not None:
                q = f'{scope.qualname}.<locals>.{f.id}'
                if q in prog.functions:
                    return self._wrap(prog.functions[q], 'local def')
                scope = scope.outer
        if nm is not None:
            if nm in prog.functions:
                return self._wrap(prog.functions[nm], 'name')
            if nm in prog.classes:
                c = prog.classes[nm]
                out = []
                classes = [c]
                if c.qualname == 'copulas.bivariate.base.Bivariate':
                    classes = c.subclasses(strict=False)
                for k in classes:
                    for m in ('__new__', '__init__'):
                        init = k.lookup(m)
                        if init is not None:
                            out.extend(t._replace(kind='proj') for t in self._wrap(init, 'constructor'))
                out.append(Target('ctor', None, c.qualname, 'constructor'))
                return out
            if not nm.startswith(PKG + '.'):
                return [Target('ext', None, nm, 'name')]
        if isinstance(f, ast.Attribute):
            recv = f.value
            # super().m(...)
            if isinstance(recv, ast.Call) and isinstance(recv.func, ast.Name) and recv.func.id == 'super' and fn.cls:
                owner = fn.cls
                classes = [concrete] if concrete is not None else [owner]
                out = []
                for k in classes:
                    mro = k.mro()
                    if owner in mro:
                        for c in mro[mro.index(owner) + 1:]:
                            if f.attr in c.methods:
                                out.extend(self._wrap(c.methods[f.attr], 'super'))
                                break
                if out:
                    return out
                return [Target('ext', None, f'object.{f.attr}', 'super')]
            # self.m(...) / cls.m(...)
            if isinstance(recv, ast.Name) and fn.self_name and recv.id == fn.self_name and fn.cls:
                r = self._self_dispatch(fn, f, concrete)
                if r is not None:
                    return r
            if False:
                classes = [concrete] if concrete is not None else fn.cls.subclasses(strict=False)
                out, seen = [], set()
                for k in classes:
                    m = k.lookup(f.attr)
                    if m is not None and m.qualname not in seen:
                        seen.add(m.qualname)
                        out.extend(self._wrap(m, 'self (CHA)'))
                # instance-level method replacement (self.sample = self._constant_sample)
                for k in classes:
                    for alt in self.instance_overrides(k).get(f.attr, ()):
                        if alt.qualname not in seen:
                            seen.add(alt.qualname)
                            out.extend(self._wrap(alt, 'instance-level override'))
                if out:
                    return out
                # attribute holding a callable / class (self.model(), self.MODEL_CLASS.pdf)
                if f.attr == 'model':
                    return self._ctor_targets('copulas.univariate.gaussian_kde.GaussianKDE')
                return [Target('unknown', None, f.attr, 'self attribute')]
            # Class.m(...)
            base = prog.resolve(fn.module, recv)
            if base in prog.classes:
                m = prog.classes[base].lookup(f.attr)
                if m is not None:
                    return self._wrap(m, 'class attribute')
            if base is not None and not base.startswith(PKG + '.'):
                return [Target('ext', None, f'{base}.{f.attr}', 'name')]
            # typed receivers
            types = self.expr_classes(fn, recv)
            if types:
                out, seen, ext = [], set(), []
                for t in types:
                    if isinstance(t, str):
                        ext.append(Target('ext', None, f'{t[4:]}.{f.attr}', 'typed receiver'))
                        continue
                    m = t.lookup(f.attr)
                    if m is not None and m.qualname not in seen:
                        seen.add(m.qualname)
                        out.extend(self._wrap(m, 'typed receiver'))
                    for alt in self.instance_overrides(t).get(f.attr, ()):
                        if alt.qualname not in seen:
                            seen.add(alt.qualname)
                            out.extend(self._wrap(alt, 'instance-level override'))
                if out or ext:
                    return out + ext
            # by method name (may-analysis only)
            cands = self.by_method_name.get(f.attr, [])
            if cands and f.attr not in COMMON_EXTERNAL_METHODS:
                out = []
                for m in cands:
                    out.extend(t._replace(how='by method name') for t in self._wrap(m, ''))
                return out
            return [Target('unknown', None, f.attr, 'attribute')]
        if isinstance(f, ast.Name):
            # calling a parameter (decorator wrappers, f in root finders)
            return [Target('unknown', None, f.id, 'local callable')]
        return [Target('unknown', None, call_name(call) or '?', 'expr')]

    def _self_dispatch(self, fn, f, concrete):
        classes = [concrete] if concrete is not None else fn.cls.subclasses(strict=False)
        out, seen = [], set()
        for k in classes:
            m = k.lookup(f.attr)
            if m is not None and m.qualname not in seen:
                seen.add(m.qualname)
                out.extend(self._wrap(m, 'self (CHA)'))
        for k in classes:
            for alt in self.instance_overrides(k).get(f.attr, ()):
                if alt.qualname not in seen:
                    seen.add(alt.qualname)
                    out.extend(self._wrap(alt, 'instance-level override'))
        if out:
            return out
        if f.attr == 'model':
            return self._ctor_targets('copulas.univariate.gaussian_kde.GaussianKDE')
        return [Target('unknown', None, f.attr, 'self attribute')]

    def _ctor_targets(self, qual):
        c = self.prog.classes.get(qual)
        out = []
        if c is not None:
            init = c.lookup('__init__')
            if init is not None:
                out.extend(self._wrap(init, 'constructor'))
            out.append(Target('ctor', None, c.qualname, 'constructor'))
        return out

    def instance_overrides(self, cls):
        """{method name: [FuncInfo]} for `self.m = self.other` assignments in cls's MRO."""
        key = ('ovr', cls.qualname)
        if key in self._cache:
            return self._cache[key]
        out = {}
        for c in cls.mro():
            for m in c.methods.values():
                if not m.self_name:
                    continue
                for n in walk_no_nested(m.node):
                    if isinstance(n, ast.Assign) and len(n.targets) == 1 and is_self_attr(n.targets[0], m.self_name) \
                            and is_self_attr(n.value, m.self_name):
                        tgt = cls.lookup(n.value.attr)
                        if tgt is not None and cls.lookup(n.targets[0].attr) is not None:
                            out.setdefault(n.targets[0].attr, []).append(tgt)
        self._cache[key] = out
        return out

    # ---------------------------------------------------------------- closures
    def callees(self, fn, concrete=None, nested=True):
        """(call node, [Target]) for every call in fn."""
        it = ast.walk(fn.node) if nested else walk_no_nested(fn.node)
        out = []
        for n in it:
            if isinstance(n, ast.Call):
                out.append((n, self.targets(fn, n, concrete)))
        return out

    def closure(self, roots, concrete=None, follow_unknown_by_name=True):
        """Project functions reachable from roots (may-analysis)."""
        seen = {}
        todo = list(roots)
        while todo:
            fn = todo.pop()
            if fn.qualname in seen:
                continue
            seen[fn.qualname] = fn
            # nested defs are part of their parent
            for inner in self.prog.functions.values():
                if inner.outer is fn:
                    todo.append(inner)
            conc = concrete if (concrete is not None and fn.cls is not None and fn.cls in concrete.mro()) else None
            for call, tgts in self.callees(fn, conc, nested=False):
                for t in tgts:
                    if t.kind == 'proj':
                        todo.append(t.fn)
        return seen

    def resolution_rate(self):
        tot = res = 0
        for fn in self.prog.functions.values():
            for call, tgts in self.callees(fn, nested=False):
                tot += 1
                if all(t.kind != 'unknown' for t in tgts):
                    res += 1
        return res, tot


# method names that are overwhelmingly numpy/pandas/stdlib when the receiver type is unknown
COMMON_EXTERNAL_METHODS = {
    'append', 'extend', 'copy', 'update', 'get', 'pop', 'items', 'keys', 'values', 'format', 'join',
    'add', 'remove', 'insert', 'tolist', 'to_numpy', 'all', 'any', 'max', 'min', 'sum', 'mean', 'std',
    'reshape', 'astype', 'dot', 'clip', 'argsort', 'rank', 'corr', 'difference', 'upper', 'rsplit',
    'partition', 'split', 'info', 'debug', 'warn', 'issubset', 'to_frame', 'load', 'dump', 'rvs',
    'ppf', 'nnlf', 'evaluate', 'resample', 'get_state', 'set_state', 'simplefilter', 'catch_warnings',
    'update_traces', 'update_layout', 'startswith', 'endswith', 'isin', 'sort', 'fill', 'ravel',
}
