"""E3.7 - the frozen external-API contract table (the trusted base).

Everything the analysis knows about NumPy / SciPy / pandas / the standard library and does not
derive from /repo lives here, one fact per line with where the fact comes from.
"""

# --- aliasing ---------------------------------------------------------------------------------
# methods whose result shares memory with (or is) the receiver           [NumPy/pandas reference]
ALIAS_METHODS = {
    'reshape', 'ravel', 'view', 'squeeze', 'transpose', 'swapaxes', 'to_numpy', 'to_frame',
    'to_records', '__array__', 'get', 'setdefault', 'astype_view', 'diagonal', 'flatten_view',
    'items', 'values', 'keys',
}
# attributes that are views of the object
ALIAS_ATTRS = {'T', 'values', 'index', 'columns', 'real', 'imag', 'flat', 'loc', 'iloc', 'at', 'iat', 'array'}
# functions whose result may share memory with their first argument
ALIAS_FUNCS = {
    'numpy.asarray', 'numpy.asanyarray', 'numpy.atleast_1d', 'numpy.atleast_2d', 'numpy.squeeze',
    'numpy.ravel', 'numpy.reshape', 'numpy.transpose', 'numpy.ascontiguousarray', 'numpy.broadcast_to',
    'pandas.Series', 'pandas.DataFrame', 'numpy.diagonal', 'numpy.expand_dims', 'numpy.swapaxes',
}
# methods that always give a new object
COPY_METHODS = {'copy', 'tolist', 'astype', 'flatten', 'to_dict', 'to_list', 'clip', 'round', 'cumsum', 'dot',
                'sort_values', 'rank', 'corr', 'difference', 'argsort', 'nonzero', 'sum', 'mean', 'std', 'min',
                'max', 'any', 'all', 'upper', 'lower', 'format', 'rsplit', 'split', 'join', 'resample',
                'evaluate', 'rvs', 'pdf', 'cdf', 'ppf', 'logpdf', 'fit', 'get_state', 'unique'}

# --- in-place mutators -------------------------------------------------------------------------
# list / dict / set / ndarray / DataFrame methods that modify the receiver [Python & NumPy reference]
MUTATOR_METHODS = {
    'append', 'extend', 'insert', 'pop', 'remove', 'clear', 'update', 'sort', 'reverse', 'add', 'discard',
    'fill', 'resize', 'put', 'setdefault', 'popitem', 'itemset', 'setflags', 'byteswap_inplace',
    'intersection_update', 'difference_update', 'symmetric_difference_update', 'set_state', 'shuffle',
}
# functions that modify their first argument
MUTATOR_FUNCS = {'numpy.random.shuffle', 'numpy.put', 'numpy.place', 'numpy.putmask', 'numpy.copyto',
                 'numpy.fill_diagonal', 'random.shuffle', 'setattr', 'delattr', 'numpy.put_along_axis'}

# --- global RNG --------------------------------------------------------------------------------
# numpy.random module-level functions that do NOT draw from the global legacy generator
RNG_NON_CONSUMING = {'get_state', 'set_state', 'RandomState', 'Generator', 'default_rng', 'seed', 'SeedSequence',
                     'PCG64', 'MT19937', 'BitGenerator'}
RNG_STATE_WRITERS = {'numpy.random.seed', 'numpy.random.set_state'}
# scipy: <dist>.rvs(..., random_state=None) and gaussian_kde.resample(size, seed=None) draw from
# numpy's global RandomState when the keyword is absent/None              [SciPy reference]
RNG_METHODS = {'rvs': 'random_state', 'resample': 'seed'}
OTHER_ENTROPY = {'time.time', 'time.time_ns', 'os.urandom', 'random.random', 'random.randint', 'random.seed',
                 'random.choice', 'random.shuffle', 'random.uniform', 'secrets.token_bytes', 'uuid.uuid4',
                 'numpy.random.default_rng', 'datetime.datetime.now'}

# --- scipy distributions used by the repository: parameter names in SciPy's order (shapes, loc, scale)
SCIPY_DIST_PARAMS = {
    'scipy.stats.norm': ['loc', 'scale'],
    'scipy.stats.uniform': ['loc', 'scale'],
    'scipy.stats.beta': ['a', 'b', 'loc', 'scale'],
    'scipy.stats.gamma': ['a', 'loc', 'scale'],
    'scipy.stats.t': ['df', 'loc', 'scale'],
    'scipy.stats.loglaplace': ['c', 'loc', 'scale'],
    'scipy.stats.truncnorm': ['a', 'b', 'loc', 'scale'],
}
# methods every rv_continuous object accepts as (x, *shapes, loc=, scale=)
RV_CONTINUOUS_METHODS = {'pdf', 'logpdf', 'cdf', 'logcdf', 'ppf', 'sf', 'isf', 'rvs', 'fit', 'nnlf', 'stats',
                         'mean', 'std', 'var', 'median', 'interval', 'entropy', 'moment', 'expect', 'logsf'}
# scipy.stats.gaussian_kde is a class: instances have these methods, the class itself has no
# distribution-style (x, **params) entry points
GAUSSIAN_KDE_INSTANCE_METHODS = {'evaluate', 'resample', 'pdf', 'logpdf', 'integrate_box_1d', 'integrate_box',
                                 'integrate_gaussian', 'integrate_kde', 'set_bandwidth', 'covariance_factor',
                                 '__call__', 'marginal'}

# --- return-tuple layouts ---------------------------------------------------------------------
TUPLE_LAYOUT = {
    'scipy.stats.kendalltau': ('TAU', 'PVAL'),
    'scipy.stats.kstest': ('KS', 'PVAL'),
}

# --- scalar types (immutable: `x -= 1` on such a parameter is a rebinding, not a mutation)
SCALAR_DOC_TYPES = ('int', 'str', 'float', 'bool', 'string', 'callable', 'function')

TRUSTED_BASE_COMMON = [
    'CPython ast module (parsing of /repo/copulas)',
    'copstat/contracts.py: aliasing/copying, in-place mutators, RNG consumers, SciPy parameter names, tuple layouts',
]
