"""Interval / special-value abstract interpretation of closed-form numeric code (C06, C07, C08).

Abstract values are closed intervals over the extended reals with a NaN flag:
    IV(lo, hi, nan)   nan = 0 never NaN, 1 may be NaN, 2 NaN for every concretisation
An interval with lo == hi is *exact*; NaN produced from exact operands (0/0, inf - inf, 0 * inf, log of a negative
exact value) is definite (nan = 2) because the corresponding concrete input exists.  Arithmetic follows IEEE semantics
for the special values (x/0 = inf for x > 0, 0**negative = inf, exp(-inf) = 0, log(0) = -inf) and treats results above
the largest double as possibly infinite.  A batch of rows is modelled by one abstract row (all rows of the same case).
"""

import ast
import math

from .absint import BOT, TOP, AbsInt, Frame, Tup
from .idioms import enum_paths
from .model import call_name, const_value, is_self_attr, kwarg, walk_no_nested

INF = float('inf')
MAXF = 1.7976931348623157e308
TINY = 5e-324


class IV:
    __slots__ = ('lo', 'hi', 'nan', 'tight')

    def __init__(self, lo, hi=None, nan=0, tight=False):
        if hi is None:
            hi = lo
        self.lo, self.hi, self.nan = float(lo), float(hi), nan
        self.tight = tight  # an input box: every value of the interval is a legitimate input of its own

    def as_input(self):
        return IV(self.lo, self.hi, self.nan, True)

    @property
    def exact(self):
        return self.lo == self.hi and self.nan == 0

    def contains(self, x):
        return self.lo <= x <= self.hi

    def __eq__(self, other):
        return isinstance(other, IV) and (self.lo, self.hi, self.nan) == (other.lo, other.hi, other.nan)

    def __hash__(self):
        return hash((self.lo, self.hi, self.nan))

    def __repr__(self):
        n = {0: '', 1: ' NaN?', 2: ' NaN!'}[self.nan]
        if self.nan == 2:
            return 'NaN!'
        return f'[{self.lo:g}, {self.hi:g}]{n}'


NAN = IV(0, 0, 2)


def hull(vals, nan=0):
    vals = [v for v in vals if v == v]
    if not vals:
        return IV(0, 0, 2)
    lo, hi = min(vals), max(vals)
    if hi > MAXF:
        hi = INF
    if lo < -MAXF:
        lo = -INF
    return IV(lo, hi, nan)


def join_iv(a, b):
    if a.nan == 2 and b.nan == 2:
        return NAN
    if a.nan == 2:
        return IV(b.lo, b.hi, 1)
    if b.nan == 2:
        return IV(a.lo, a.hi, 1)
    return IV(min(a.lo, b.lo), max(a.hi, b.hi), max(a.nan, b.nan))


def _nanflag(a, b, may, definite):
    if a.nan == 2 or b.nan == 2 or definite:
        return 2
    return 1 if (a.nan or b.nan or may) else 0


def add(a, b):
    may = (a.hi == INF and b.lo == -INF) or (a.lo == -INF and b.hi == INF)
    definite = a.exact and b.exact and math.isinf(a.lo) and math.isinf(b.lo) and a.lo != b.lo
    n = _nanflag(a, b, may, definite)
    if n == 2:
        return NAN

    def s(x, y):
        if math.isinf(x) and math.isinf(y) and x != y:
            return float('nan')
        return x + y
    return hull([s(a.lo, b.lo), s(a.hi, b.hi)], n)


def neg(a):
    return NAN if a.nan == 2 else IV(-a.hi, -a.lo, a.nan)


def sub(a, b):
    return add(a, neg(b))


def mul(a, b):
    zero_inf = (a.contains(0) and (math.isinf(b.lo) or math.isinf(b.hi))) or (b.contains(0) and (math.isinf(a.lo) or math.isinf(a.hi)))
    definite = a.exact and b.exact and ((a.lo == 0 and math.isinf(b.lo)) or (b.lo == 0 and math.isinf(a.lo)))
    n = _nanflag(a, b, zero_inf, definite)
    if n == 2:
        return NAN

    def m(x, y):
        if (x == 0 and math.isinf(y)) or (y == 0 and math.isinf(x)):
            return 0.0  # the limit value; the NaN possibility is carried by the flag
        return x * y
    return hull([m(a.lo, b.lo), m(a.lo, b.hi), m(a.hi, b.lo), m(a.hi, b.hi)], n)


def recip(b):
    """1 / b with x/0 = +-inf."""
    if b.nan == 2:
        return NAN
    if b.lo > 0 or b.hi < 0:
        def r(x):
            return 0.0 if math.isinf(x) else 1.0 / x
        return hull([r(b.lo), r(b.hi)], b.nan)
    if b.lo == 0 and b.hi == 0:
        return IV(INF, INF, b.nan)  # non-negative quantities: +0
    if b.lo == 0:
        return IV(0.0 if math.isinf(b.hi) else 1.0 / b.hi, INF, b.nan)
    if b.hi == 0:
        return IV(-INF, 0.0 if math.isinf(b.lo) else 1.0 / b.lo, b.nan)
    return IV(-INF, INF, b.nan)


def div(a, b):
    zz = a.contains(0) and b.contains(0)
    ii = (math.isinf(a.lo) or math.isinf(a.hi)) and (math.isinf(b.lo) or math.isinf(b.hi))
    definite = a.exact and b.exact and ((a.lo == 0 and b.lo == 0) or (math.isinf(a.lo) and math.isinf(b.lo)))
    if definite or a.nan == 2 or b.nan == 2:
        return NAN
    n = 1 if (a.nan or b.nan or zz or ii) else 0
    if b.lo < 0 < b.hi:
        return IV(-INF, INF, n)

    def q(x, y, ysign):
        if y == 0:
            if x == 0:
                return 0.0  # limit value; the NaN possibility is carried by the flag
            return INF if (x > 0) == (ysign > 0) else -INF
        if math.isinf(x) and math.isinf(y):
            return 1.0 if (x > 0) == (y > 0) else -1.0  # any finite limit is possible: widened below
        if math.isinf(y):
            return 0.0
        try:
            return x / y
        except OverflowError:
            return INF if (x > 0) == (y > 0) else -INF
    if b.lo == b.hi:
        signs = [math.copysign(1.0, b.lo)]  # an exact zero keeps the sign the float operations gave it
    else:
        signs = [1, -1] if (b.lo == 0 or b.hi == 0) else [1]  # a zero endpoint of a range may be +0 or -0
    vals = [q(x, y, sg) for sg in signs for x in (a.lo, a.hi) for y in (b.lo, b.hi)]
    if ii:
        vals += [0.0, INF if (a.hi > 0) == (b.hi > 0) else -INF]
    return hull(vals, n)


def _pow1(x, y):
    try:
        if x == 0:
            if y > 0:
                return 0.0
            if y < 0:
                return INF
            return 1.0
        if math.isinf(x):
            if y > 0:
                return INF
            if y < 0:
                return 0.0
            return 1.0
        if math.isinf(y):
            if x == 1:
                return 1.0
            if x > 1:
                return INF if y > 0 else 0.0
            return 0.0 if y > 0 else INF
        return math.pow(x, y)
    except OverflowError:
        return INF
    except ValueError:
        return float('nan')


def power(a, b):
    if a.nan == 2 or b.nan == 2:
        return NAN
    n = 1 if (a.nan or b.nan) else 0
    if b.exact and abs(b.lo) < 64 and b.lo == int(b.lo):
        k = int(b.lo)
        if k == 0:
            return IV(1, 1, n)
        if k > 0:
            vals = [_pow_int(a.lo, k), _pow_int(a.hi, k)]
            if k % 2 == 0 and a.lo < 0 < a.hi:
                vals.append(0.0)
            return hull(vals, n)
        if n:
            return IV(-INF, INF, 1)
        p = power(a, IV(-k, -k, 0))
        if k % 2 == 0 and p.nan == 0 and p.lo >= 0:
            # an even power is +0.0 or positive whatever the sign of a zero base: the reciprocal is positive (1 / +0.0 = +inf)
            return hull([INF if p.hi == 0 else 1.0 / p.hi, INF if p.lo == 0 else 1.0 / p.lo])
        return div(IV(1, 1, 0), p)
    special = math.isinf(a.lo) or math.isinf(b.lo) or math.isinf(b.hi)
    if a.hi < 0 and not special:
        if a.exact and b.exact and b.lo != math.floor(b.lo):
            return NAN  # finite negative base, finite non-integral exponent
    lo = max(a.lo, 0.0)
    if a.hi >= 0:
        pos = hull([_pow1(lo, b.lo), _pow1(lo, b.hi), _pow1(a.hi, b.lo), _pow1(a.hi, b.hi)]
                   + ([1.0] if (lo <= 1 <= a.hi or b.contains(0)) else []), n)
    else:
        pos = None
    if a.lo < 0:
        # a negative base is NaN for a fractional exponent and +-|x|**k for an integral one (every double >= 2**53 is
        # integral); pow(-inf, y) and pow(x, +-inf) are 0, 1 or inf
        top = -a.lo
        m = power(IV(0.0, top), IV(b.lo, b.hi))
        vals = [-m.hi, m.hi] + ([pos.lo, pos.hi] if pos is not None else [])
        if special:
            vals += [0.0, 1.0, INF]
        lo_, hi_ = min(vals), max(vals)
        return IV(lo_, hi_, 1)
    return pos


def _pow_int(x, k):
    try:
        if math.isinf(x):
            return INF if (x > 0 or k % 2 == 0) else -INF
        return float(x) ** k
    except OverflowError:
        return INF if (x > 0 or k % 2 == 0) else -INF


def exp(a):
    if a.nan == 2:
        return NAN

    def e(x):
        if x == -INF:
            return 0.0
        try:
            return math.exp(x)
        except OverflowError:
            return INF
    return hull([e(a.lo), e(a.hi)], a.nan)


def log(a):
    if a.nan == 2:
        return NAN
    if a.hi < 0:
        return NAN if not a.nan else IV(-INF, INF, 1)  # every point of the operand is negative: NaN for every point
    n = 1 if (a.nan or a.lo < 0) else 0

    def l(x):
        if x <= 0:
            return -INF
        if math.isinf(x):
            return INF
        return math.log(x)
    return hull([l(max(a.lo, 0.0)), l(a.hi)], n)


def log1p(a):
    if a.nan == 2:
        return NAN
    if a.hi < -1:
        return NAN if not a.nan else IV(-INF, INF, 1)
    n = 1 if (a.nan or a.lo < -1) else 0

    def l(x):
        if x <= -1:
            return -INF
        if math.isinf(x):
            return INF
        return math.log1p(x)
    return hull([l(max(a.lo, -1.0)), l(a.hi)], n)


def expm1(a):
    if a.nan == 2:
        return NAN

    def e(x):
        if x == -INF:
            return -1.0
        try:
            return math.expm1(x)
        except OverflowError:
            return INF
    return hull([e(a.lo), e(a.hi)], a.nan)


def absv(a):
    if a.nan == 2:
        return NAN
    if a.lo >= 0:
        return a
    if a.hi <= 0:
        return neg(a)
    return IV(0, max(-a.lo, a.hi), a.nan)


def sqrt(a):
    return power(a, IV(0.5))


def minimum(a, b):
    if a.nan == 2 or b.nan == 2:
        return NAN
    return IV(min(a.lo, b.lo), min(a.hi, b.hi), max(a.nan, b.nan))


def maximum(a, b):
    if a.nan == 2 or b.nan == 2:
        return NAN
    return IV(max(a.lo, b.lo), max(a.hi, b.hi), max(a.nan, b.nan))


def compare(op, a, b):
    """True / False / None (unknown)."""
    if a.nan or b.nan:
        return None
    if op in ('Lt', 'LtE', 'Gt', 'GtE'):
        if op in ('Gt', 'GtE'):
            a, b, op = b, a, {'Gt': 'Lt', 'GtE': 'LtE'}[op]
        if op == 'Lt':
            if a.hi < b.lo:
                return True
            if a.lo >= b.hi:
                return False
        else:
            if a.hi <= b.lo:
                return True
            if a.lo > b.hi:
                return False
        return None
    if op in ('Eq', 'NotEq'):
        r = None
        if a.exact and b.exact and a.lo == b.lo:
            r = True
        elif a.hi < b.lo or b.hi < a.lo:
            r = False
        if r is None:
            return None
        return r if op == 'Eq' else not r
    return None


UNARY = {'numpy.exp': exp, 'numpy.log': log, 'numpy.log1p': log1p, 'numpy.expm1': expm1, 'math.log1p': log1p, 'math.expm1': expm1, 'numpy.abs': absv, 'numpy.absolute': absv, 'abs': absv, 'numpy.sqrt': sqrt,
         'numpy.negative': neg, 'math.exp': exp, 'math.log': log}


class IntervalKind(AbsInt):
    """Evaluates a family's closed form for one abstract input case."""
    MAX_DEPTH = 4

    def __init__(self, ctx, theta, cols, domrec=None, recording=False):
        super().__init__(ctx)
        self.theta = theta
        self.cols = cols  # (IV of the first column, IV of the second column)
        self.domrec = {} if recording else domrec
        self.recording = recording
        self.attrs = {}

    # ---------------------------------------------------------------- domain
    def const(self, node, fr):
        v = getattr(node, 'value', None)
        if isinstance(v, bool):
            return ('bool', v)
        if isinstance(v, (int, float)):
            return IV(v)
        return TOP

    def join(self, a, b):
        if isinstance(a, IV) and isinstance(b, IV):
            return join_iv(a, b)
        return super().join(a, b)

    def join_distinct(self, a, b):
        return TOP

    def param(self, name, fr):
        v = fr.params.get(name, TOP)
        return v

    def self_attr(self, attr, node, fr):
        if attr == 'theta':
            return self.theta
        if attr in self.attrs:
            return self.attrs[attr]
        # a class-level numeric constant of the concrete family (`independence_theta = 1`)
        cls = fr.concrete if getattr(fr, 'concrete', None) is not None else None
        if cls is not None and hasattr(cls, 'lookup_attr'):
            hit = cls.lookup_attr(attr)
            if hit is not None and isinstance(hit[1], ast.Constant) and isinstance(hit[1].value, (int, float)) and not isinstance(hit[1].value, bool):
                return IV(float(hit[1].value))
        return TOP

    def global_name(self, dotted, node, fr):
        if dotted == 'copulas.utils.EPSILON':
            return IV(1.1920929e-07)
        if dotted in ('numpy.inf', 'numpy.Inf', 'math.inf'):
            return IV(INF)
        c = self.prog.constant(dotted)
        if isinstance(c, ast.Constant) and isinstance(c.value, (int, float)):
            return IV(c.value)
        return TOP

    def binop(self, node, l, r, fr):
        if not (isinstance(l, IV) and isinstance(r, IV)):
            return TOP
        op = node.op
        if isinstance(op, ast.Add):
            return add(l, r)
        if isinstance(op, ast.Sub):
            return sub(l, r)
        if isinstance(op, ast.Mult):
            return mul(l, r)
        if isinstance(op, ast.Div):
            return div(l, r)
        if isinstance(op, ast.Pow):
            return power(l, r)
        return TOP

    def unaryop(self, node, v, fr):
        if isinstance(node.op, ast.USub) and isinstance(v, IV):
            return neg(v)
        if isinstance(node.op, ast.UAdd):
            return v
        if isinstance(node.op, ast.Not) and isinstance(v, tuple) and v and v[0] == 'bool':
            return ('bool', {True: False, False: True, 'sureTrue': 'sureFalse', 'sureFalse': 'sureTrue'}.get(v[1], v[1]))
        return TOP

    def compare(self, node, fr):
        if len(node.ops) != 1:
            # a < x < b  ==  (a < x) and (x < b)
            parts, left = [], node.left
            for op, right in zip(node.ops, node.comparators):
                parts.append(self.compare(ast.copy_location(ast.Compare(left=left, ops=[op], comparators=[right]), node), fr))
                left = right
            return self.boolop(ast.BoolOp(op=ast.And(), values=[]), parts, fr)
        a, b = self.value(node.left, fr), self.value(node.comparators[0], fr)
        if isinstance(a, IV) and isinstance(b, IV):
            r = compare(type(node.ops[0]).__name__, a, b)
            if r is None and not (a.nan or b.nan) and ((a.tight and b.exact) or (b.tight and a.exact)):
                r = 'both'  # an input box straddling a constant: rows of either kind exist
            return ('bool', r)
        return ('bool', None)

    def ifexp(self, e, fr):
        c = self.value(e.test, fr)
        if isinstance(c, tuple) and c and c[0] == 'bool' and c[1] in (True, False):
            return self.value(e.body if c[1] else e.orelse, fr)
        return self.join(self.value(e.body, fr), self.value(e.orelse, fr))

    def boolop(self, node, vals, fr):
        bs = [v[1] if isinstance(v, tuple) and v and v[0] == 'bool' else None for v in vals]
        dom, unit = (True, False) if isinstance(node.op, ast.Or) else (False, True)
        if any(b is dom for b in bs):
            return ('bool', dom)
        if all(b is unit for b in bs):
            return ('bool', unit)
        rest = [b for b in bs if b is not unit]
        if len(rest) == 1:
            return ('bool', rest[0])
        return ('bool', None)

    def subscript(self, node, base, fr):
        if isinstance(base, Tup):
            i = const_value(node.slice)
            if isinstance(i, int) and -len(base.elems) <= i < len(base.elems):
                return base.elems[i]
            if isinstance(node.slice, ast.Tuple) and len(node.slice.elts) == 2:
                j = const_value(node.slice.elts[1])
                if isinstance(j, int) and base.kind == 'mat':
                    return base.elems[j]
            return TOP
        if isinstance(base, IV):
            return base  # one row of a homogeneous batch
        return TOP

    def attribute(self, node, base, fr):
        if node.attr in ('shape', 'size'):
            return 'N'
        if node.attr == 'T':
            return base
        return TOP

    def sequence(self, node, vals, fr):
        return Tup(vals)

    def comprehension(self, node, fr):
        if isinstance(node, (ast.ListComp, ast.GeneratorExp)):
            return self.value(node.elt, fr)
        return TOP

    def iter_elem(self, val, node, fr):
        if isinstance(val, Tup) and val.kind == 'zip':
            return Tup([self.iter_elem(e, node, fr) for e in val.elems])      # one row of each zipped column
        return 'N' if val == 'N' else (val if isinstance(val, IV) else TOP)

    def external_call(self, name, node, fr):
        a = node.args
        if name in UNARY and a:
            v = self.value(a[0], fr)
            return UNARY[name](v) if isinstance(v, IV) else TOP
        if name == 'numpy.power' and len(a) == 2:
            x, y = self.value(a[0], fr), self.value(a[1], fr)
            return power(x, y) if isinstance(x, IV) and isinstance(y, IV) else TOP
        if name in ('numpy.minimum', 'numpy.maximum', 'min', 'max') and len(a) == 2:
            x, y = self.value(a[0], fr), self.value(a[1], fr)
            if isinstance(x, IV) and isinstance(y, IV):
                return minimum(x, y) if name.endswith(('minimum', 'min')) else maximum(x, y)
            return TOP
        if name in ('numpy.zeros', 'numpy.zeros_like'):
            return IV(0)
        if name in ('numpy.ones', 'numpy.ones_like'):
            return IV(1)
        if name == 'numpy.full' and len(a) >= 2:
            return self.value(a[1], fr)
        if name in ('numpy.array', 'numpy.asarray', 'numpy.ravel', 'numpy.squeeze', 'float', 'numpy.atleast_1d') and a:
            v = self.value(a[0], fr)
            return v.elems[0] if isinstance(v, Tup) and len(v.elems) == 1 and v.kind != 'mat' else v
        if name in ('len', 'range'):
            return 'N'
        if name == 'numpy.column_stack' and a:
            v = self.value(a[0], fr)
            if isinstance(v, Tup) and len(v.elems) == 2:
                return Tup(v.elems, 'mat')
            return TOP
        if name == 'numpy.where' and len(a) == 3:
            c = self.value(a[0], fr)
            x, y = self.value(a[1], fr), self.value(a[2], fr)
            if isinstance(c, tuple) and c and c[0] == 'bool' and c[1] in (True, False):
                return x if c[1] else y
            return self.join(x, y)
        if name in ('numpy.isnan',):
            return ('bool', None)
        if name in ('numpy.isclose', 'math.isclose') and len(a) >= 2:
            # numpy: |x - y| <= atol + rtol * |y| (1e-8, 1e-5); math: |x - y| <= max(rel_tol * max(|x|, |y|), abs_tol) (1e-9, 0)
            x, y = self.value(a[0], fr), self.value(a[1], fr)
            kw = {k.arg: self.value(k.value, fr) for k in node.keywords}
            pos = [self.value(z, fr) for z in a[2:]]
            if not (isinstance(x, IV) and isinstance(y, IV)) or x.nan or y.nan or any(not isinstance(v_, IV) for v_ in list(kw.values()) + pos):
                return ('bool', None)
            if name == 'numpy.isclose':
                rtol = pos[0] if pos else kw.get('rtol', IV(1e-5))
                atol = pos[1] if len(pos) > 1 else kw.get('atol', IV(1e-8))
                tol = add(atol, mul(rtol, absv(y)))
            else:
                rtol, atol = kw.get('rel_tol', IV(1e-9)), kw.get('abs_tol', IV(0.0))
                tol = maximum(mul(rtol, maximum(absv(x), absv(y))), atol)
            d = absv(sub(x, y))
            if d.nan or tol.nan:
                return ('bool', None)
            if d.hi <= tol.lo:
                return ('bool', True)
            if d.lo > tol.hi:
                return ('bool', False)
            return ('bool', 'both' if (x.tight and y.exact) or (y.tight and x.exact) else None)
        if name in ('numpy.errstate', 'warnings.catch_warnings'):
            return TOP
        if name in ('numpy.clip',) and len(a) == 3:
            x, lo, hi = (self.value(z, fr) for z in a)
            if all(isinstance(z, IV) for z in (x, lo, hi)):
                return minimum(maximum(x, lo), hi)
            if isinstance(x, Tup) and all(isinstance(e, IV) for e in x.elems) and isinstance(lo, IV) and isinstance(hi, IV):
                return Tup([minimum(maximum(e, lo), hi) for e in x.elems], x.kind)      # a two-column batch clipped element-wise
        if name in ('numpy.logical_and', 'numpy.logical_or') and len(a) == 2:
            fake = ast.BoolOp(op=ast.And() if name.endswith('and') else ast.Or(), values=list(a))
            return self.boolop(fake, [self.value(z, fr) for z in a], fr)
        return TOP

    def method_call(self, meth, node, recv, fr):
        if meth in ('all', 'any') and isinstance(recv, tuple) and recv and recv[0] == 'bool':
            return ('bool', self.reduce_rows(meth, node, recv[1]))
        if meth in ('copy', 'astype', 'ravel', 'flatten', 'item', 'squeeze') and isinstance(recv, IV):
            return recv
        return None

    def reduce_rows(self, meth, node, r):
        """Truth value of a reduction over the batch, for a batch that contains the abstract row.

        The other rows of the batch are arbitrary rows of the clause's domain: `self.domrec` holds, per reduction call,
        the truth value of the reduced test for the whole domain (first pass).  Values: True / False (for every such
        batch), 'both' (batches of either kind certainly exist), 'sureTrue' / 'sureFalse' (that outcome certainly
        exists - the batch of this single row - the other may or may not), None (unknown)."""
        if self.recording:
            old = self.domrec.get(id(node), 'unset')
            self.domrec[id(node)] = r if old in ('unset', r) else None
            return None
        d = self.domrec.get(id(node)) if self.domrec is not None else None
        if r == 'both':
            return 'both'
        if r not in (True, False):
            return None
        if meth == 'all':
            if r is False:
                return False
            return True if d is True else ('both' if d in (False, 'both') else 'sureTrue')
        if r is True:
            return True
        return False if d is False else ('both' if d in (True, 'both') else 'sureFalse')

    def project_call_override(self, g, node, fr):
        if g.qualname == 'copulas.bivariate.utils.split_matrix':
            v = self.value(node.args[0], fr) if node.args else TOP
            if isinstance(v, Tup) and v.kind == 'mat':
                return Tup(list(v.elems))
            return TOP
        if g.name in ('check_fit', 'check_theta'):
            return ('bool', None)
        return None

    # ----------------------------------------------------- path-pruned returns
    def returns(self, fr):
        out = BOT
        for val, _ in self.return_alts(fr):
            out = self.join(out, val)
        return out

    def return_alts(self, fr):
        """[(value, definite)] per return path that is not excluded; definite: the path is taken by some concrete batch."""
        return self.path_alts(fr, ast.Return)

    def raise_alts(self, fr):
        """[(raise statement, definite)] per path ending in a raise that the abstract inputs do not exclude."""
        return self.path_alts(fr, ast.Raise)

    def path_alts(self, fr, end_type):
        fn = fr.fn
        alts = []
        for path in enum_paths(fn.body()):
            if not isinstance(path.end, end_type):
                continue
            sub = Frame(fn, dict(fr.params), fr.concrete, fr.depth, path=path)
            feasible, definite, n_both = True, True, 0
            for test, pol in path.conds:
                if not isinstance(test, ast.expr):
                    definite = False
                    continue
                v = self.value(test, sub)
                b = v[1] if isinstance(v, tuple) and v and v[0] == 'bool' else None
                if b in (True, False):
                    if b != pol:
                        feasible = False
                        break
                elif b == 'both' or (b == 'sureTrue' and pol) or (b == 'sureFalse' and not pol):
                    n_both += 1
                else:
                    definite = False
            if not feasible:
                continue
            if end_type is ast.Raise:
                alts.append((path.end, definite and n_both == 0))
                continue
            val = self.value(path.end.value, sub) if path.end.value is not None else TOP
            alts.append((val, definite and n_both <= 1))
        return alts


def evaluate(ctx, cls, method, theta, u, v, extra=None, alts=False, domain=None, domcache=None):
    """Abstract result of cls.method for one row box (u, v); the other rows of the batch range over `domain`."""
    fn = cls.lookup(method)

    def frame(a, b):
        params = {}
        ps = fn.params[1:]
        a, b = a.as_input(), b.as_input()
        if method == 'percent_point':
            params[ps[0]], params[ps[1]] = a, b
        elif len(ps) == 1 and method == 'generator':
            params[ps[0]] = a   # a function of one probability; the second coordinate of the box is unused
        else:
            params[ps[0]] = Tup([a, b], 'mat')
        return Frame(fn, params, cls)

    domrec = None
    if domain is not None:
        key = (cls.qualname, method, theta, domain)
        if domcache is not None and key in domcache:
            domrec = domcache[key]
        else:
            rec = IntervalKind(ctx, theta, domain, recording=True)
            rec.return_alts(frame(*domain))
            domrec = rec.domrec
            if domcache is not None:
                domcache[key] = domrec
    ik = IntervalKind(ctx, theta, (u, v), domrec=domrec)
    fr = frame(u, v)
    if not alts:
        return ik.returns(fr)
    ins = [x for p in fr.params.values() for x in (p.elems if isinstance(p, Tup) else [p])]
    # third component: the result *is* the first / second input (returned unchanged)
    return [(val, definite, next((n for n, x in zip('uv', ins) if x is val), None)) for val, definite in ik.return_alts(fr)]


def evaluate_attrs(ctx, cls, method, attrs):
    """Return alternatives [(value, definite)] of a parameterless method for abstract values of self attributes."""
    fn = cls.lookup(method)
    ik = IntervalKind(ctx, attrs.get('theta', TOP), (TOP, TOP))
    ik.attrs = {k: v.as_input() for k, v in attrs.items()}
    return ik.return_alts(Frame(fn, {}, cls)), ik


def _within(r, c):
    if c == INF:
        return r.hi == INF
    if c == -INF:
        return r.lo == -INF
    lo = r.lo if r.lo == -INF else r.lo - 1e-9 * abs(r.lo)
    hi = r.hi if r.hi == INF else r.hi + 1e-9 * abs(r.hi)
    return lo <= c <= hi


def soundness_selftest(n=4000, seed=0):
    """Random concrete checks that the abstract operations contain the concrete results (pure python)."""
    import random
    rnd = random.Random(seed)
    specials = [0.0, 1.0, INF, -INF, TINY, 1 - 1.1e-16, 2.0, -1.0, 0.5, 1e-300, 1e300, -3.5]

    def pick():
        a, b = rnd.choice(specials + [rnd.uniform(-5, 5), rnd.lognormvariate(0, 3)]), rnd.choice(specials + [rnd.uniform(-5, 5), rnd.lognormvariate(0, 3)])
        lo, hi = min(a, b), max(a, b)
        return IV(lo, hi)

    def sample(iv):
        if iv.lo == iv.hi or rnd.random() < 0.4:
            return rnd.choice([iv.lo, iv.hi])
        lo = max(iv.lo, -1e300)
        hi = min(iv.hi, 1e300)
        return rnd.uniform(lo, hi)

    import numpy as np
    bad = []
    ops = {'add': (add, lambda x, y: x + y), 'sub': (sub, lambda x, y: x - y), 'mul': (mul, lambda x, y: x * y),
           'div': (div, lambda x, y: np.float64(x) / np.float64(y)), 'pow': (power, lambda x, y: np.power(np.float64(x), np.float64(y)))}
    un = {'exp': (exp, np.exp), 'log': (log, np.log), 'abs': (absv, np.abs), 'log1p': (log1p, np.log1p), 'expm1': (expm1, np.expm1)}
    with np.errstate(all='ignore'):
        for _ in range(n):
            a, b = pick(), pick()
            x, y = sample(a), sample(b)
            for nm, (f, g) in ops.items():
                r = f(a, b)
                c = float(g(x, y))
                if nm == 'div' and y == 0 and x != 0:
                    continue  # signed zeros: +-inf, the sign convention is for non-negative quantities
                if c != c:
                    if r.nan == 0:
                        bad.append((nm, a, b, x, y, c, r))
                elif r.nan == 2 or not _within(r, c):
                    bad.append((nm, a, b, x, y, c, r))
            for nm, (f, g) in un.items():
                r = f(a)
                c = float(g(np.float64(x)))
                if c != c:
                    if r.nan == 0:
                        bad.append((nm, a, None, x, None, c, r))
                elif r.nan == 2 or not _within(r, c):
                    bad.append((nm, a, None, x, None, c, r))
    return bad
