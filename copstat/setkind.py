"""Abstract evaluation of set-valued expressions built from attributes of a few objects (vine variable sets, C16).

A value is a frozenset of atoms:  ('elem', <object>, 'L')  - the single value <object>.L
                                  ('all', <object>, 'D')   - every element of the set <object>.D
or an operator node ('op', '&' | '^' | '-', A, B) over two such values, or None when not derivable.
<object> is the name of a parameter of the function the evaluation started in; calls of project functions (static or
class methods, module-level helpers) are followed with their parameters - including *varargs - bound to those objects,
`for x in <tuple of objects>` loops are unrolled over the bound objects, and a local set is the union of its literal
and of every later `.update(...)`, `.add(...)`, `|=` applied to it.
"""

import ast

from .idioms import single_def
from .model import walk_no_nested

MAX_DEPTH = 4


class Env:
    def __init__(self, fn, objs=None, tuples=None):
        self.fn = fn
        self.objs = objs or {}      # local name -> object symbol
        self.tuples = tuples or {}  # local name -> tuple of object symbols (a *varargs parameter, a literal tuple of objects)


def _obj(env, e):
    return env.objs.get(e.id) if isinstance(e, ast.Name) else None


def _iter_objs(env, e):
    """Tuple of object symbols denoted by an iterable expression, or None."""
    if isinstance(e, ast.Name) and e.id in env.tuples:
        return env.tuples[e.id]
    if isinstance(e, (ast.Tuple, ast.List)) and e.elts and all(_obj(env, x) is not None for x in e.elts):
        return tuple(_obj(env, x) for x in e.elts)
    return None


def _elems(ctx, env, e, depth):
    """Atoms contributed by an *iterable of elements* expression (argument of set(), update(), a starred item)."""
    if isinstance(e, (ast.Tuple, ast.List, ast.Set)):
        out = frozenset()
        for x in e.elts:
            v = _elem(ctx, env, x, depth)
            if v is None:
                return None
            out |= v
        return out
    return evaluate(ctx, env, e, depth)


def _elem(ctx, env, x, depth):
    if isinstance(x, ast.Starred):
        return _elems(ctx, env, x.value, depth)
    if isinstance(x, ast.Attribute) and _obj(env, x.value) is not None:
        return frozenset({('elem', _obj(env, x.value), x.attr)})
    return None


def evaluate(ctx, env, e, depth=0):
    if depth > MAX_DEPTH or e is None:
        return None
    prog = ctx.prog
    fn = env.fn
    if isinstance(e, ast.Set):
        return _elems(ctx, env, e, depth)
    if isinstance(e, ast.Attribute) and _obj(env, e.value) is not None:
        return frozenset({('all', _obj(env, e.value), e.attr)})
    if isinstance(e, ast.BinOp) and isinstance(e.op, (ast.BitOr, ast.BitAnd, ast.BitXor, ast.Sub)):
        a, b = evaluate(ctx, env, e.left, depth + 1), evaluate(ctx, env, e.right, depth + 1)
        if a is None or b is None:
            return None
        if isinstance(e.op, ast.BitOr):
            return a | b if isinstance(a, frozenset) and isinstance(b, frozenset) else None
        return ('op', {ast.BitAnd: '&', ast.BitXor: '^', ast.Sub: '-'}[type(e.op)], a, b)
    if isinstance(e, ast.Name):
        d = single_def(fn.node, e.id)
        if not isinstance(d, ast.AST):
            return None
        cur = evaluate(ctx, env, d, depth + 1)
        if not isinstance(cur, frozenset):
            return cur
        return _with_updates(ctx, env, e.id, cur, fn.node.body, depth)
    if isinstance(e, ast.Call):
        f = e.func
        if isinstance(f, ast.Name) and f.id in ('set', 'frozenset'):
            if not e.args:
                return frozenset()
            return _elems(ctx, env, e.args[0], depth + 1)
        if isinstance(f, ast.Attribute) and f.attr in ('union',) and e.args:
            a = evaluate(ctx, env, f.value, depth + 1)
            bs = [_elems(ctx, env, x, depth + 1) for x in e.args]
            if isinstance(a, frozenset) and all(isinstance(b, frozenset) for b in bs):
                for b in bs:
                    a = a | b
                return a
            return None
        if isinstance(f, ast.Attribute) and f.attr in ('intersection', 'symmetric_difference', 'difference') and len(e.args) == 1:
            a, b = evaluate(ctx, env, f.value, depth + 1), evaluate(ctx, env, e.args[0], depth + 1)
            if a is None or b is None:
                return None
            return ('op', {'intersection': '&', 'symmetric_difference': '^', 'difference': '-'}[f.attr], a, b)
        if isinstance(f, ast.Attribute) and f.attr == 'copy' and not e.args:
            return evaluate(ctx, env, f.value, depth + 1)
        g = _callee(prog, fn, f)
        if g is None:
            return None
        params = list(g.params)
        if g.cls is not None and g.kind in ('method', 'classmethod'):
            params = params[1:]
        objs, tuples = {}, {}
        pos = list(e.args)
        for i, p_ in enumerate(params):
            if i < len(pos):
                o = _obj(env, pos[i])
                if o is None:
                    return None
                objs[p_] = o
        rest = pos[len(params):]
        if rest or g.vararg:
            if not g.vararg:
                return None
            syms = []
            for a in rest:
                if isinstance(a, ast.Starred):
                    t = _iter_objs(env, a.value)
                    if t is None:
                        return None
                    syms += list(t)
                else:
                    o = _obj(env, a)
                    if o is None:
                        return None
                    syms.append(o)
            tuples[g.vararg] = tuple(syms)
        if e.keywords:
            return None
        sub = Env(g, objs, tuples)
        rets = [r for r in walk_no_nested(g.node) if isinstance(r, ast.Return) and r.value is not None]
        if len(rets) != 1:
            return None
        return evaluate(ctx, sub, rets[0].value, depth + 1)
    return None


def _callee(prog, fn, f):
    nm = prog.resolve(fn.module, f)
    g = prog.functions.get(nm or '')
    if g is not None:
        return g
    if isinstance(f, ast.Attribute) and isinstance(f.value, ast.Name) and fn.cls is not None and f.value.id in ('cls', fn.self_name or '', fn.cls.name):
        return fn.cls.lookup(f.attr)
    return None


def _with_updates(ctx, env, name, cur, stmts, depth):
    """Union of `cur` with everything later statements add to the set `name` (loops over object tuples unrolled)."""
    for s in stmts:
        if cur is None:
            return None
        if isinstance(s, ast.For) and isinstance(s.target, ast.Name):
            objs = _iter_objs(env, s.iter)
            touches = any(isinstance(x, ast.Name) and x.id == name for x in ast.walk(s))
            if not touches:
                continue
            if objs is None or s.orelse:
                return None
            for o in objs:
                sub = Env(env.fn, dict(env.objs, **{s.target.id: o}), env.tuples)
                cur = _with_updates(ctx, sub, name, cur, s.body, depth)
                if cur is None:
                    return None
            continue
        if isinstance(s, (ast.If, ast.While, ast.Try, ast.With)):
            if any(isinstance(x, ast.Name) and x.id == name and isinstance(getattr(x, '_parent', None), (ast.Attribute, ast.AugAssign)) for x in ast.walk(s)):
                return None  # conditional growth: not modelled
            continue
        if isinstance(s, ast.Expr) and isinstance(s.value, ast.Call) and isinstance(s.value.func, ast.Attribute) \
                and isinstance(s.value.func.value, ast.Name) and s.value.func.value.id == name:
            m = s.value.func.attr
            if m == 'update' and s.value.args:
                for a in s.value.args:
                    v = _elems(ctx, env, a, depth + 1)
                    if not isinstance(v, frozenset):
                        return None
                    cur = cur | v
            elif m == 'add' and len(s.value.args) == 1:
                v = _elem(ctx, env, s.value.args[0], depth + 1)
                if v is None:
                    return None
                cur = cur | v
            elif m in ('discard', 'remove', 'clear', 'pop', 'difference_update', 'intersection_update', 'symmetric_difference_update'):
                return None
        if isinstance(s, ast.AugAssign) and isinstance(s.target, ast.Name) and s.target.id == name:
            if not isinstance(s.op, ast.BitOr):
                return None
            v = evaluate(ctx, env, s.value, depth + 1)
            if not isinstance(v, frozenset):
                return None
            cur = cur | v
    return cur


def nodes_of(obj):
    """The variable set of an edge object: {L, R} | D."""
    return frozenset({('elem', obj, 'L'), ('elem', obj, 'R'), ('all', obj, 'D')})


def fmt(v):
    if v is None:
        return 'not derivable'
    if isinstance(v, tuple) and v and v[0] == 'op':
        return f'({fmt(v[2])}) {v[1]} ({fmt(v[3])})'
    return '{' + ', '.join(sorted((f'{o}.{a}' if k == 'elem' else f'*{o}.{a}') for k, o, a in v)) + '}'
