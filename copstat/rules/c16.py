"""C16 - a fitted vine is a regular vine of the requested type and depth (PARTIAL)."""

import ast

from .. import contracts as K
from ..exprnf import NF
from ..idioms import single_def, stmt_of
from ..model import AnalysisError, PrivateAnchorMissing, call_name, const_value, is_self_attr, kwarg, short, walk_no_nested

VINE = 'copulas.multivariate.vine.VineCopula'
TREE = 'copulas.multivariate.tree.'
BUILDERS = [('CenterTree', '_build_first_tree'), ('CenterTree', '_build_kth_tree'), ('DirectTree', '_build_first_tree'),
            ('DirectTree', '_build_kth_tree'), ('RegularTree', '_build_first_tree'), ('RegularTree', '_build_kth_tree')]
# Branches of the edge-building loops read by hand (rule D2)
D2_TRIAGE_REASON = ('taken only when no admissible pair exists; the line graph of a tree is connected, so with proximity satisfied by '
                    'adjacent edges the candidate set is never empty before all nodes are visited (dead branch)')


def _empty_candidates_branch(lp, add_call):
    """The extra `S.add(...)` sits in `if <candidate set is empty>: ...; continue` directly in the loop body, and that
    candidate set is what the rest of the iteration picks the new edge from."""
    st = add_call
    while st is not None and not isinstance(st, ast.stmt):
        st = getattr(st, '_parent', None)
    branch = getattr(st, '_parent', None)
    if not (isinstance(branch, ast.If) and branch in lp.body and st in branch.body and not branch.orelse
            and branch.body and isinstance(branch.body[-1], ast.Continue)):
        return False
    t = branch.test
    name = None
    if isinstance(t, ast.UnaryOp) and isinstance(t.op, ast.Not):
        x = t.operand
        if isinstance(x, ast.Call) and call_name(x) == 'len' and x.args:
            x = x.args[0]
        name = x.id if isinstance(x, ast.Name) else None
    elif isinstance(t, ast.Compare) and len(t.ops) == 1 and isinstance(t.ops[0], ast.Eq) and isinstance(t.left, ast.Call) and call_name(t.left) == 'len' \
            and t.left.args and isinstance(t.left.args[0], ast.Name) and isinstance(t.comparators[0], ast.Constant) and t.comparators[0].value == 0:
        name = t.left.args[0].id
    if name is None:
        return False
    later = lp.body[lp.body.index(branch) + 1:]
    if not any(isinstance(x, ast.Name) and x.id == name and isinstance(x.ctx, ast.Load) for s_ in later for x in ast.walk(s_)):
        return False
    return name


def _candidates_complete(fn, lp, cand):
    """Is the candidate set `cand` filled from an enumeration of *all* nodes (one side over range(self.n_nodes) / range(len(<edges>)) / a set built as
    set(range(self.n_nodes)))?  True / None (domain not recognised)."""
    def all_nodes(it, depth=0):
        if isinstance(it, ast.Call) and call_name(it) == 'range' and len(it.args) == 1:
            a = it.args[0]
            if is_self_attr(a, fn.self_name, 'n_nodes'):
                return True
            if isinstance(a, ast.Call) and call_name(a) == 'len' and a.args:
                e = a.args[0]
                e = single_def(fn.node, e.id) if isinstance(e, ast.Name) else e
                return isinstance(e, ast.Attribute) and e.attr == 'edges'
        if isinstance(it, ast.Call) and call_name(it) in ('set', 'list', 'tuple', 'sorted') and it.args and depth < 2:
            return all_nodes(it.args[0], depth + 1)
        if isinstance(it, ast.Name) and depth < 2:
            d = single_def(fn.node, it.id)
            return isinstance(d, ast.AST) and all_nodes(d, depth + 1)
        return False
    doms = []
    for x in ast.walk(lp):
        if isinstance(x, ast.Call) and call_name(x) == 'add' and isinstance(x.func.value, ast.Name) and x.func.value.id == cand:
            p_ = getattr(x, '_parent', None)
            while p_ is not None and p_ is not lp:
                if isinstance(p_, ast.For):
                    doms.append(p_.iter)
                p_ = getattr(p_, '_parent', None)
        if isinstance(x, ast.Assign) and any(isinstance(t, ast.Name) and t.id == cand for t in x.targets) and isinstance(x.value, (ast.SetComp, ast.ListComp)):
            doms += [g.iter for g in x.value.generators]
    return True if any(all_nodes(d) for d in doms) else None


def edge_appends(fn):
    """Calls that append one edge to self.edges: `self.edges.append(e)` itself, or a call of a private helper of the class
    that appends its first parameter exactly once and unconditionally (then call.args[0] is the edge as well)."""
    out = [c for c in walk_no_nested(fn.node) if isinstance(c, ast.Call) and call_name(c) == 'append'
           and is_self_attr(c.func.value, fn.self_name, 'edges')]
    if fn.cls is not None:
        for c in walk_no_nested(fn.node):
            if isinstance(c, ast.Call) and is_self_attr(c.func, fn.self_name) and c.args:
                h = fn.cls.lookup(c.func.attr)
                if h is None or h is fn or h.kind != 'method' or len(h.params) < 2:
                    continue
                happ = [x for x in ast.walk(h.node) if isinstance(x, ast.Call) and call_name(x) == 'append' and is_self_attr(x.func.value, h.self_name, 'edges')]
                if len(happ) == 1 and happ[0]._parent in h.body() and happ[0].args and isinstance(happ[0].args[0], ast.Name) \
                        and happ[0].args[0].id == h.params[1]:
                    out.append(c)
    return out


def loop_of(node, fn):
    p = node._parent
    while p is not None and p is not fn.node:
        if isinstance(p, (ast.For, ast.While)):
            return p
        p = p._parent
    return None


def is_nodes_minus_one(prog, fn, e):
    nf = NF(prog, fn)
    a = nf.nf(e)
    b = nf.nf(ast.parse(f'{fn.self_name}.n_nodes - 1', mode='eval').body)
    return a == b


def run(ctx, rep):
    prog = ctx.prog
    rep.trust(*K.TRUSTED_BASE_COMMON, 'sorted(..., key=k)[0] is an element with minimal key; argsort()[::-1] orders descending',
              'set operators: A & B intersection, A ^ B symmetric difference')
    rep.notes.append('C16 PARTIAL: decides the number of trees and edges by loop cardinality, edge indices, the child-edge set algebra, '
                     'the proximity condition, star/path shape by construction, the polarity of the greedy choices, that the first '
                     'tree is built on Kendall tau of the training table and that every edge carries one select_copula result. '
                     'Acyclicity/connectedness for every ordering of tau values and "no pair conditioned twice" depend on runtime '
                     'values and are not decided.')
    for rid, text in (('D1.trees', 'train_vine fits one first tree and then exactly one tree per k in range(1, min(n_var - 1, truncated)), each on n_var - k nodes from tree k-1'),
                      ('D2.edges', 'every tree builder appends exactly n_nodes - 1 edges (loop cardinality)'),
                      ('D3.index', 'the index of an edge is its position in the edge list'),
                      ('D4.child', 'child edge: A = {L,R} | D, conditioning set A & B, conditioned pair sorted(A ^ B), both parents recorded'),
                      ('D5.proximity', 'regular: |A | B| = level + 1; direct: consecutive edges; center: the anchor with every other edge'),
                      ('D6.shape', 'center trees are stars and direct trees are paths by construction; the greedy path keeps no stale candidate between iterations'),
                      ('D7.polarity', "greedy choices maximise |tau|; the first tree is built on Kendall's tau of the training table"),
                      ('D8.copula', 'every edge carries the family and theta of one select_copula result for its two inputs')):
        rep.rule(rid, text)
    rep.guarded('D1.d1', d1, ctx, rep)
    rep.guarded('D2.d2_d3', d2_d3, ctx, rep)
    rep.guarded('D4.d4', d4, ctx, rep)
    rep.guarded('D5.d5_d6', d5_d6, ctx, rep)
    rep.guarded('D7.d7', d7, ctx, rep)
    rep.guarded('D8.d8', d8, ctx, rep)


def d1(ctx, rep):
    prog = ctx.prog
    tv = prog.method(VINE, 'train_vine')
    loops = [n for n in tv.body() if isinstance(n, ast.For)]
    apps = [c for c in walk_no_nested(tv.node) if isinstance(c, ast.Call) and call_name(c) == 'append' and is_self_attr(c.func.value, tv.self_name, 'trees')]
    # a private helper that appends exactly one tree, unconditionally, counts as an append at its call site
    vine = prog.cls(VINE)
    opaque = False
    for c in walk_no_nested(tv.node):
        if isinstance(c, ast.Call) and is_self_attr(c.func, tv.self_name):
            h = vine.lookup(c.func.attr)
            if h is None or h is tv or h.kind != 'method':
                continue
            happ = [x for x in ast.walk(h.node) if isinstance(x, ast.Call) and call_name(x) == 'append' and is_self_attr(x.func.value, h.self_name, 'trees')]
            if not happ:
                continue
            if len(happ) == 1 and stmt_of(happ[0]) in h.body():
                apps.append(c)
            else:
                opaque = True
    if opaque:
        rep.undecided('D1.trees', tv, tv.node.name, 'trees are appended by a helper under conditions or in a loop: the count is not derived', construct='one tree per iteration')
        return
    if len(loops) != 1:
        rep.undecided('D1.trees', tv, tv.node.name, 'tree loop not recognised', construct='tree loop')
        return
    lp = loops[0]
    it = lp.iter
    nf = NF(prog, tv)
    want = nf.nf(ast.parse(f'min({tv.self_name}.n_var - 1, {tv.self_name}.truncated)', mode='eval').body)
    good = isinstance(it, ast.Call) and call_name(it) == 'range' and len(it.args) == 2 and const_value(it.args[0]) == 1
    bound_ok = good and _min_nf(nf, it.args[1]) == _min_nf(nf, ast.parse(f'min({tv.self_name}.n_var - 1, {tv.self_name}.truncated)', mode='eval').body)
    rep.check('D1.trees', tv, it, bool(bound_ok), 'k in range(1, min(n_var - 1, truncated))',
              f'the tree loop runs over {short(it)}: the vine does not hold min(d-1, t) trees', construct='tree loop bound')
    before = [a for a in apps if loop_of(a, tv) is None and a.lineno < lp.lineno]
    inside = [a for a in apps if loop_of(a, tv) is lp and stmt_of(a) in lp.body]
    rep.check('D1.trees', tv, apps[0] if apps else tv.node.name, len(before) == 1 and len(inside) == 1 and len(apps) == 2
              and not any(isinstance(x, (ast.Continue, ast.Break)) for x in ast.walk(lp)),
              'one tree appended before the loop and exactly one per iteration', 'the number of appended trees does not follow the loop',
              construct='one tree per iteration')
    kv = lp.target.id if isinstance(lp.target, ast.Name) else None
    fits = [c for c in ast.walk(lp) if isinstance(c, ast.Call) and call_name(c) == 'fit']
    if fits and kv:
        a = fits[0].args
        ok_idx = len(a) >= 4 and isinstance(a[0], ast.Name) and a[0].id == kv
        ok_nodes = len(a) >= 4 and nf.nf(a[1]) == nf.nf(ast.parse(f'{tv.self_name}.n_var - {kv}', mode='eval').body)
        def tree_index(e):
            """NF of i when e denotes self.trees[i] (directly or through a single-definition local); 'other' for another recognised
            expression; None when not derivable."""
            e = single_def(tv.node, e.id) if isinstance(e, ast.Name) and isinstance(single_def(tv.node, e.id), ast.AST) else e
            if isinstance(e, ast.Subscript) and is_self_attr(e.value, tv.self_name, 'trees'):
                return nf.nf(e.slice)
            if isinstance(e, ast.Subscript) and isinstance(e.value, ast.Name):
                d_ = single_def(tv.node, e.value.id)
                if is_self_attr(d_, tv.self_name, 'trees'):
                    return nf.nf(e.slice)
            return 'other' if isinstance(e, (ast.Attribute, ast.Constant, ast.Call)) else None
        want_prev = nf.nf(ast.parse(f'{kv} - 1', mode='eval').body)
        last_nf = nf.nf(ast.parse('-1', mode='eval').body)
        prev = a[3] if len(a) >= 4 else None
        pi = tree_index(prev) if prev is not None else None
        if pi is None:
            rep.undecided('D1.trees', tv, fits[0], 'which tree is handed to tree k as its previous tree is not derived', construct='tree k arguments')
        else:
            ok_prev = pi in (want_prev, last_nf)
            rep.check('D1.trees', tv, fits[0], ok_idx and ok_nodes and ok_prev, 'tree k is fitted with index k on n_var - k nodes from trees[k - 1]',
                      'tree k is not fitted with (k, n_var - k, tau of tree k-1, trees[k-1])', construct='tree k arguments')
        tau = a[2] if len(a) >= 3 else None
        tdef = single_def(tv.node, tau.id) if isinstance(tau, ast.Name) else tau
        if isinstance(tdef, ast.Call) and call_name(tdef) == 'get_tau_matrix' and isinstance(tdef.func, ast.Attribute) and tree_index(tdef.func.value) is not None:
            ti = tree_index(tdef.func.value)
            rep.check('D1.trees', tv, fits[0], ti in (want_prev, last_nf), 'the tau matrix of tree k comes from tree k - 1', 'tree k does not receive the tau matrix of tree k-1',
                      construct='tree k tau')
        else:
            rep.undecided('D1.trees', tv, fits[0], 'where the tau matrix handed to tree k comes from is not derived', construct='tree k tau')
    first = [c for c in walk_no_nested(tv.node) if isinstance(c, ast.Call) and call_name(c) == 'fit' and loop_of(c, tv) is None]
    if first:
        a = first[0].args
        good = len(a) >= 4 and const_value(a[0]) == 0 and is_self_attr(a[1], tv.self_name, 'n_var') and is_self_attr(a[2], tv.self_name, 'tau_mat') \
            and is_self_attr(a[3], tv.self_name, 'u_matrix')
        rep.check('D1.trees', tv, first[0], good, 'first tree: fit(0, n_var, tau_mat, u_matrix)', 'the first tree is not fitted on (0, n_var, tau_mat, u_matrix)',
                  construct='first tree arguments')


def _min_nf(nf, e):
    v = nf.nf(e)
    if isinstance(v, tuple) and v and v[0] == 'call' and v[1] == 'min':
        return ('min',) + tuple(sorted(v[2:], key=repr))
    return v


def d2_d3(ctx, rep):
    prog = ctx.prog
    for clsn, meth in BUILDERS:
        cls = prog.cls(TREE + clsn)
        fn = cls.methods.get(meth)
        if fn is None:
            raise PrivateAnchorMissing(f'{clsn}.{meth}')
        apps = edge_appends(fn)
        if len(apps) == 0:
            rep.undecided('D2.edges', fn, fn.node.name, f'no append to self.edges found in {clsn}.{meth} or in a one-append helper it calls', construct=f'{clsn}.{meth} appends')
            continue
        if len(apps) != 1:
            rep.bad('D2.edges', fn, fn.node.name, f'{len(apps)} edge appends in {clsn}.{meth}', construct=f'{clsn}.{meth} appends')
            continue
        ap = apps[0]
        lp = loop_of(ap, fn)
        st = stmt_of(ap)
        # extra statements in the loop that change the counting set without appending
        if isinstance(lp, ast.For):
            it = lp.iter
            uncond = st in lp.body and not any(isinstance(x, (ast.Continue, ast.Break, ast.Return)) for x in ast.walk(lp))
            is_range = isinstance(it, ast.Call) and call_name(it) == 'range' and len(it.args) == 1
            # the position counter: the loop variable of range(...), the first element of enumerate(...), the element zipped from a range(...)
            kv = lp.target.id if isinstance(lp.target, ast.Name) and is_range else None
            counted = None          # the expression that bounds the number of iterations, when one is visible
            if is_range:
                counted = it.args[0]
            elif isinstance(it, ast.Call) and call_name(it) == 'enumerate' and it.args and isinstance(lp.target, ast.Tuple) and lp.target.elts and isinstance(lp.target.elts[0], ast.Name) \
                    and len(it.args) == 1 and not it.keywords:
                kv = lp.target.elts[0].id
            elif isinstance(it, ast.Call) and call_name(it) == 'zip' and isinstance(lp.target, ast.Tuple) and len(lp.target.elts) == len(it.args):
                for te, ae in zip(lp.target.elts, it.args):
                    if isinstance(ae, ast.Call) and call_name(ae) == 'range' and len(ae.args) == 1 and isinstance(te, ast.Name):
                        kv, counted = te.id, ae.args[0]
            if not uncond and not (is_range or counted is not None):
                rep.undecided('D2.edges', fn, it, f'{clsn}.{meth}: the edge loop runs over `{short(it, 40)}` and is left by a test inside it: the number of edges is not derived',
                              construct=f'{clsn}.{meth} edge count')
            elif not uncond:
                rep.bad('D2.edges', fn, it, f'{clsn}.{meth}: the append is conditional / the loop can be left early: the tree does not get n_nodes - 1 edges', construct=f'{clsn}.{meth} edge count')
            elif is_range:
                rep.check('D2.edges', fn, it, is_nodes_minus_one(prog, fn, counted), f'{clsn}.{meth}: one unconditional append per iteration of range(n_nodes - 1)',
                          f'{clsn}.{meth}: the edge loop is {short(it)}: the tree does not get n_nodes - 1 edges', construct=f'{clsn}.{meth} edge count')
            else:
                rep.undecided('D2.edges', fn, it, f'{clsn}.{meth}: one append per element of `{short(it, 50)}`; that this sequence has n_nodes - 1 elements is not derived',
                              construct=f'{clsn}.{meth} edge count')
            idx = _edge_index_arg(prog, fn, ap)
            if idx is None or kv is None:
                rep.undecided('D3.index', fn, ap, f'{clsn}.{meth}: the index given to the new edge / the position counter of the loop is not derived', construct=f'{clsn}.{meth} edge index')
            else:
                rep.check('D3.index', fn, ap, isinstance(idx, ast.Name) and idx.id == kv, f'{clsn}.{meth}: edge index = loop counter',
                          f'{clsn}.{meth}: the edge index is {short(idx)}, not its position', construct=f'{clsn}.{meth} edge index')
        elif isinstance(lp, ast.While):
            # while len(S) != self.n_nodes with |S| = 1 initially; each iteration that appends also grows S by one
            t = lp.test
            sname = None
            if isinstance(t, ast.Compare) and len(t.ops) == 1 and isinstance(t.ops[0], (ast.NotEq, ast.Lt, ast.Gt)):
                for a_, b_ in ((t.left, t.comparators[0]), (t.comparators[0], t.left)):
                    if isinstance(a_, ast.Call) and call_name(a_) == 'len' and a_.args and isinstance(a_.args[0], ast.Name) and is_self_attr(b_, fn.self_name, 'n_nodes'):
                        sname = a_.args[0].id
            init = single_def(fn.node, sname) if sname else None
            init_ok = isinstance(init, ast.Set) and len(init.elts) == 1
            adds = [c for c in ast.walk(lp) if isinstance(c, ast.Call) and call_name(c) == 'add' and isinstance(c.func.value, ast.Name) and c.func.value.id == sname]
            main_adds = [c for c in adds if stmt_of(c) in lp.body]
            other_adds = [c for c in adds if c not in main_adds]
            paired = st in lp.body and len(main_adds) == 1 and init_ok
            rep.check('D2.edges', fn, lp.test, paired, f'{clsn}.{meth}: while |S| != n_nodes, |S| = 1 initially, one edge and one new node per iteration',
                      f'{clsn}.{meth}: the node set and the edge list do not grow together from a single start node', construct=f'{clsn}.{meth} edge count')
            for c in other_adds:
                cand = _empty_candidates_branch(lp, c) if clsn == 'RegularTree' and meth == '_build_kth_tree' else False
                if cand and _candidates_complete(fn, lp, cand):
                    rep.triaged('D2.edges', fn, c, f'grows the node set without an edge - triaged: {D2_TRIAGE_REASON}', construct=f'{clsn}.{meth}: empty-candidates branch')
                elif cand:
                    rep.undecided('D2.edges', fn, c, f'`{short(c, 40)}` grows the node set without an edge when no candidate pair is found, and the candidates are not enumerated over '
                                  'all nodes of the tree: the argument that this branch is dead (connected line graph, every admissible pair is a candidate) does not apply',
                                  construct=f'{clsn}.{meth}: empty-candidates branch')
                else:
                    rep.bad('D2.edges', fn, c, f'{clsn}.{meth}: the node set grows without an edge being added: the tree ends with fewer than n_nodes - 1 edges',
                            construct=f'{clsn}.{meth}: {short(c, 80)}')
            idx = _edge_index_arg(prog, fn, ap)
            nf = NF(prog, fn)
            want = nf.nf(ast.parse(f'len({sname}) - 1', mode='eval').body) if sname else None
            if idx is None or want is None:
                rep.undecided('D3.index', fn, ap, f'{clsn}.{meth}: the index given to the new edge is not derived', construct=f'{clsn}.{meth} edge index')
            else:
                got = nf.nf(idx)
                from ..exprnf import nf_names
                # recognised and different: an expression in len(S) and numbers only; or len(self.edges) which is the position as well
                alt = nf.nf(ast.parse(f'len({fn.self_name}.edges)', mode='eval').body)
                simple = not nf_names(got) - {sname} and 'len' in repr(got)
                if got == want or got == alt:
                    rep.ok('D3.index', fn, ap, f'{clsn}.{meth}: edge index = {short(idx)} (its position)', construct=f'{clsn}.{meth} edge index')
                elif simple or isinstance(idx, ast.Constant):
                    rep.bad('D3.index', fn, ap, f'{clsn}.{meth}: the edge index is {short(idx)}, not its position', construct=f'{clsn}.{meth} edge index')
                else:
                    rep.undecided('D3.index', fn, ap, f'{clsn}.{meth}: the edge index `{short(idx)}` is not an expression in the size of the visited set: whether it is the position is not derived',
                                  construct=f'{clsn}.{meth} edge index')
            # the new node is added after the edge is indexed
            if main_adds:
                rep.check('D3.index', fn, main_adds[0], stmt_of(main_adds[0]).lineno > st.lineno, 'the node set grows after the edge was indexed',
                          'the node set grows before the edge index is computed (index off by one)', construct=f'{clsn}.{meth} index timing')
        else:
            rep.bad('D2.edges', fn, ap, f'{clsn}.{meth}: the edge append is not inside a loop', construct=f'{clsn}.{meth} edge count')


def _edge_index_arg(prog, fn, ap):
    """First argument of the Edge(...) / Edge.get_child_edge(...) call that creates the appended edge."""
    e = ap.args[0] if ap.args else None

    def index_of(call, owner, depth=0):
        nm = prog.resolve(owner.module, call.func) or ''
        if nm.endswith('tree.Edge') or nm.endswith('Edge.get_child_edge'):
            return call.args[0] if call.args else None
        # a private helper whose returned edge is created with its own first parameter as index
        if depth < 2 and isinstance(call.func, ast.Attribute) and owner.cls is not None and isinstance(call.func.value, ast.Name) \
                and call.func.value.id in (owner.self_name, 'cls', owner.cls.name):
            h = owner.cls.lookup(call.func.attr)
            if h is not None and h.name.startswith('_'):
                ps = h.params[1:] if h.kind in ('method', 'classmethod') else h.params
                for r in walk_no_nested(h.node):
                    if isinstance(r, ast.Return) and isinstance(r.value, ast.Call):
                        inner = index_of(r.value, h, depth + 1)
                        if isinstance(inner, ast.Name) and ps and inner.id == ps[0] and call.args:
                            return call.args[0]
        return None
    if isinstance(e, ast.Call):
        return index_of(e, fn)
    if isinstance(e, ast.Name):
        for s in walk_no_nested(fn.node):
            if isinstance(s, ast.Assign) and isinstance(s.targets[0], ast.Name) and s.targets[0].id == e.id and isinstance(s.value, ast.Call):
                r = index_of(s.value, fn)
                if r is not None:
                    return r
        for s in walk_no_nested(fn.node):
            if isinstance(s, ast.Assign) and isinstance(s.targets[0], ast.Name) and s.targets[0].id == e.id and isinstance(s.value, ast.Call):
                nm = prog.resolve(fn.module, s.value.func) or ''
                if nm.endswith('tree.Edge') or nm.endswith('Edge.get_child_edge'):
                    return s.value.args[0] if s.value.args else None
    return None


def d4(ctx, rep):
    prog = ctx.prog
    edge = prog.cls(TREE + 'Edge')
    ie = edge.methods['_identify_eds_ing']
    p1, p2 = ie.params[0], ie.params[1]
    from .. import setkind as SK
    env = SK.Env(ie, {p1: p1, p2: p2})
    A1, A2 = SK.nodes_of(p1), SK.nodes_of(p2)
    rets = [n for n in walk_no_nested(ie.node) if isinstance(n, ast.Return) and isinstance(n.value, ast.Tuple)]
    if not rets or len(rets[0].value.elts) != 3:
        rep.undecided('D4.child', ie, ie.node.name, 'return (left, right, conditioning set) not recognised', construct='variable sets')
    else:
        l, r, dep = rets[0].value.elts
        depv = SK.evaluate(ctx, env, dep)
        pair = None
        for s in walk_no_nested(ie.node):
            if isinstance(s, ast.Assign) and isinstance(s.targets[0], ast.Tuple) and [getattr(e, 'id', None) for e in s.targets[0].elts] == [getattr(l, 'id', 0), getattr(r, 'id', 1)]:
                pair = s.value
        pairv = None
        inner = pair
        while isinstance(inner, ast.Subscript):
            inner = inner.value
        if isinstance(inner, ast.Call) and call_name(inner) in ('sorted', 'list', 'tuple') and inner.args:
            pairv = SK.evaluate(ctx, env, inner.args[0])

        def operands(v, op):
            return {v[2], v[3]} if isinstance(v, tuple) and v and v[0] == 'op' and v[1] == op and isinstance(v[2], frozenset) and isinstance(v[3], frozenset) else None
        # the sets that enter A & B and A ^ B are the variable sets {L, R} | D of the two parents
        seen_sets = (operands(depv, '&') or set()) | (operands(pairv, '^') or set())
        if not seen_sets:
            rep.undecided('D4.child', ie, ie.node.name, f'the variable sets of the two parent edges are not derived (conditioning set: {SK.fmt(depv)})', construct='variable sets')
        else:
            rep.check('D4.child', ie, ie.node.name, seen_sets == {A1, A2}, 'A = {first.L, first.R} | first.D and B likewise',
                      'the variable sets of the two parent edges are not {L, R} | D of each parent: ' + ' / '.join(sorted(SK.fmt(x) for x in seen_sets)),
                      construct='variable sets')
        if depv is None:
            rep.undecided('D4.child', ie, rets[0], 'the conditioning set is not derived', construct='conditioning set')
        else:
            rep.check('D4.child', ie, rets[0], operands(depv, '&') is not None, 'conditioning set = A & B',
                      f'the conditioning set is {SK.fmt(depv)}, not the intersection of the parents\' variable sets', construct='conditioning set')
        if pair is None or pairv is None:
            rep.undecided('D4.child', ie, rets[0], 'how the conditioned pair is computed is not derived', construct='conditioned pair')
        else:
            rep.check('D4.child', ie, pair, operands(pairv, '^') is not None, 'conditioned pair = sorted(A ^ B)',
                      f'the conditioned pair is sorted({SK.fmt(pairv)}), not the sorted symmetric difference', construct='conditioned pair')
    gc = edge.methods['get_child_edge']
    call = [c for c in walk_no_nested(gc.node) if isinstance(c, ast.Call) and call_name(c) == '_identify_eds_ing']
    mk = [s for s in walk_no_nested(gc.node) if isinstance(s, ast.Assign) and isinstance(s.value, ast.Call) and (prog.resolve(gc.module, s.value.func) or '').endswith('tree.Edge')]
    if call and mk:
        st = stmt_of(call[0])
        tg = st.targets[0].elts if isinstance(st, ast.Assign) and isinstance(st.targets[0], (ast.Tuple, ast.List)) else []
        names3 = [getattr(e, 'id', None) for e in tg]
        a = mk[0].value.args
        ok = len(names3) == 3 and len(a) >= 3 and [getattr(x, 'id', None) for x in a[1:3]] == names3[:2] and isinstance(a[0], ast.Name) and a[0].id == gc.params[1]
        rep.check('D4.child', gc, mk[0], ok, 'Edge(index, left, right, ...) from the identified pair', 'the child edge is not created from the identified conditioned pair',
                  construct='child edge nodes')
        ev = mk[0].targets[0].id
        dst = [s for s in walk_no_nested(gc.node) if isinstance(s, ast.Assign) and isinstance(s.targets[0], ast.Attribute) and s.targets[0].attr == 'D'
               and isinstance(s.targets[0].value, ast.Name) and s.targets[0].value.id == ev]
        rep.check('D4.child', gc, dst[0] if dst else gc.node.name, bool(dst) and isinstance(dst[0].value, ast.Name) and len(names3) == 3 and dst[0].value.id == names3[2],
                  'D = the identified conditioning set', 'the conditioning set of the child edge is not the identified one', construct='child edge D')
        pst = [s for s in walk_no_nested(gc.node) if isinstance(s, ast.Assign) and isinstance(s.targets[0], ast.Attribute) and s.targets[0].attr == 'parents']
        pv = pst[0].value if pst else None
        if isinstance(pv, ast.Name):
            d_ = single_def(gc.node, pv.id)       # parents = [left_parent, right_parent] (possibly re-ordered in place afterwards)
            pv = d_ if isinstance(d_, ast.AST) else pv
        okp = bool(pst) and isinstance(pv, (ast.List, ast.Tuple)) and [getattr(e, 'id', None) for e in pv.elts] == gc.params[2:4]
        rep.check('D4.child', gc, pst[0] if pst else gc.node.name, okp, 'parents = [left_parent, right_parent]', 'both parents are not recorded in order', construct='child edge parents')


def d5_d6(ctx, rep):
    prog = ctx.prog
    tree = prog.cls(TREE + 'Tree')
    cc = tree.methods['_check_constraint']
    from ..idioms import resolve
    rets = [n for n in walk_no_nested(cc.node) if isinstance(n, ast.Return)]
    nf = NF(prog, cc)
    e1, e2 = cc.params[1], cc.params[2]
    verdict = None
    rv = resolve(cc.node, rets[0].value) if rets else None
    if isinstance(rv, ast.Compare) and len(rv.ops) == 1 and isinstance(rv.ops[0], ast.Eq):
        l, r = rv.left, rv.comparators[0]
        want = nf.nf(ast.parse(f'{cc.self_name}.level + 1', mode='eval').body)
        size, other = (l, r) if (isinstance(l, ast.Call) and call_name(l) == 'len') else ((r, l) if (isinstance(r, ast.Call) and call_name(r) == 'len') else (None, None))
        if size is not None and size.args:
            if nf.nf(other) != want:
                if any(is_self_attr(x, cc.self_name, 'level') for x in ast.walk(other)):
                    verdict = (False, f'the span of the two parent edges is compared with `{short(other)}` instead of level + 1')
            else:
                from .. import setkind as SK
                measured = SK.evaluate(ctx, SK.Env(cc, {e1: e1, e2: e2}), size.args[0])
                full = SK.nodes_of(e1) | SK.nodes_of(e2)
                if isinstance(measured, frozenset):
                    if measured == full:
                        verdict = (True, '|{L,R} | D of both edges| == level + 1')
                    elif measured < full:
                        verdict = (False, f'the measured set leaves out {SK.fmt(full - measured)}')
                    else:
                        verdict = (False, f'the measured set is {SK.fmt(measured)}')
                elif measured is not None:
                    verdict = (False, f'the measured set is {SK.fmt(measured)}, not the union of the variable sets')
    if verdict is None:
        rep.undecided('D5.proximity', cc, rets[0] if rets else cc.node.name, 'form of the proximity test not recognised', construct='regular proximity')
    else:
        rep.check('D5.proximity', cc, rets[0], verdict[0], verdict[1], 'the proximity test is not "the two parent edges span exactly level + 1 variables": ' + verdict[1],
                  construct='regular proximity')
    rk = prog.cls(TREE + 'RegularTree').methods['_build_kth_tree']
    from ..idioms import private_closure
    rclo = private_closure(ctx, rk, prog.cls(TREE + 'RegularTree'))
    uses = [c for g in rclo for c in ast.walk(g.node) if isinstance(c, ast.Call) and call_name(c) == '_check_constraint']

    def filters(c):
        for p_ in _ancestors(c, rk.node):
            if isinstance(p_, ast.If) or (isinstance(p_, ast.comprehension)):
                return True
            if isinstance(p_, (ast.SetComp, ast.ListComp, ast.GeneratorExp)) and any(any(y is c for y in ast.walk(i)) for g in p_.generators for i in g.ifs):
                return True
        return False
    if not uses:
        rep.bad('D5.proximity', rk, rk.node.name, 'candidate pairs of the regular vine are not filtered by the proximity test', construct='regular proximity use')
    elif any(filters(c) for c in uses) or any(isinstance(p_, (ast.Lambda, ast.FunctionDef)) and p_ is not rk.node for c in uses for p_ in _ancestors(c, None)
                                              if not any(p_ is g.node for g in rclo)):
        rep.ok('D5.proximity', rk, uses[0], 'candidate pairs are filtered by the proximity test', construct='regular proximity use')
    else:
        rep.undecided('D5.proximity', rk, uses[0], 'how the proximity test filters the candidates was not recognised', construct='regular proximity use')
    # direct kth: edges[k], edges[k + 1]; center kth: edges[anchor], edges[right]
    def parent_pair(fn):
        """(call, a, b, loop): the two parent edges handed to sort_edge([...]) / a helper(k, edges[i], edges[j]) inside a loop."""
        for c in walk_no_nested(fn.node):
            if not isinstance(c, ast.Call):
                continue
            cand = None
            if call_name(c) == 'sort_edge' and c.args and isinstance(c.args[0], (ast.List, ast.Tuple)) and len(c.args[0].elts) == 2:
                cand = c.args[0].elts
            else:
                subs = [a for a in c.args if isinstance(a, ast.Subscript)]
                if len(subs) == 2 and ast.dump(subs[0].value) == ast.dump(subs[1].value) and call_name(c) not in ('append',):
                    cand = subs
            if cand and all(isinstance(x, ast.Subscript) for x in cand) and loop_of(c, fn) is not None:
                return c, cand[0], cand[1], loop_of(c, fn)
        return None

    dk = prog.cls(TREE + 'DirectTree').methods['_build_kth_tree']
    pp = parent_pair(dk)
    if pp is None:
        rep.undecided('D5.proximity', dk, dk.node.name, 'which two edges of the previous tree a child joins was not recognised', construct='direct proximity')
    else:
        c0, a, b, lp = pp
        kv = lp.target.id if isinstance(lp, ast.For) and isinstance(lp.target, ast.Name) else None
        nf2 = NF(prog, dk)
        simple = lambda e: all(isinstance(x, (ast.Constant, ast.BinOp, ast.Add, ast.Sub, ast.operator, ast.Load)) or (isinstance(x, ast.Name) and x.id == kv)
                               for x in ast.walk(e))
        if kv is None or not (simple(a.slice) and simple(b.slice)):
            rep.undecided('D5.proximity', dk, c0, 'index expressions of the two parent edges not recognised', construct='direct proximity')
        else:
            ok = ast.dump(a.value) == ast.dump(b.value) and isinstance(a.slice, ast.Name) and a.slice.id == kv \
                and nf2.nf(b.slice) == nf2.nf(ast.parse(f'{kv} + 1', mode='eval').body)
            rep.check('D5.proximity', dk, c0, ok, 'direct: child k joins edges k and k + 1 of the previous path',
                      'the direct vine does not join consecutive edges of the previous path', construct='direct proximity')
    ck = prog.cls(TREE + 'CenterTree').methods['_build_kth_tree']
    pp = parent_pair(ck)
    if pp is None:
        rep.undecided('D6.shape', ck, ck.node.name, 'which two edges of the previous tree a child joins was not recognised', construct='center k-th star')
    else:
        c0, a, b, lp = pp
        if not (isinstance(a.slice, ast.Name) and isinstance(b.slice, ast.Name)):
            rep.undecided('D6.shape', ck, c0, 'index expressions of the two parent edges not recognised', construct='center k-th star')
        else:
            inv = not _assigned_in_loop(lp, a.slice.id)
            var = _assigned_in_loop(lp, b.slice.id)
            ok = inv and var and ast.dump(a.value) == ast.dump(b.value)
            rep.check('D6.shape', ck, c0, ok, 'center k-th tree: every child joins the loop-invariant anchor edge with another edge (star)',
                      'the k-th center tree does not join one fixed anchor edge with every other edge', construct='center k-th star')
    cf = prog.cls(TREE + 'CenterTree').methods['_build_first_tree']
    mk = [c for c in walk_no_nested(cf.node) if isinstance(c, ast.Call) and (prog.resolve(cf.module, c.func) or '').endswith('tree.Edge') and len(c.args) >= 3]
    if not mk:
        # a helper(index, first, second) that creates the edge of two variables
        mk = [c for c in walk_no_nested(cf.node) if isinstance(c, ast.Call) and is_self_attr(c.func, cf.self_name) and len(c.args) == 3
              and loop_of(c, cf) is not None]
    if not mk:
        rep.undecided('D6.shape', cf, cf.node.name, 'construction of the edges of the first center tree not recognised', construct='center first star')
    else:
        n1, n2 = mk[0].args[1], mk[0].args[2]
        lp1 = loop_of(mk[0], cf)
        fixed = lambda e: isinstance(const_value(e), int) or (isinstance(e, ast.Name) and lp1 is not None and not _assigned_in_loop(lp1, e.id))
        if fixed(n1) != fixed(n2):
            rep.ok('D6.shape', cf, mk[0], 'center first tree: every edge contains the same fixed node (star)', construct='center first star')
        elif not fixed(n1) and not fixed(n2) and all(isinstance(e, (ast.Name, ast.Constant)) for e in (n1, n2)):
            rep.bad('D6.shape', cf, mk[0], 'the first center tree is not a star around one fixed node', construct='center first star')
        else:
            rep.undecided('D6.shape', cf, mk[0], 'the two nodes of an edge of the first center tree are not recognised', construct='center first star')
    df = prog.cls(TREE + 'DirectTree').methods['_build_first_tree']
    mk = [s for s in walk_no_nested(df.node) if isinstance(s, ast.Assign) and isinstance(s.value, ast.Call) and (prog.resolve(df.module, s.value.func) or '').endswith('tree.Edge')]
    ok = False
    srt = []
    a = b = None
    if mk:
        lp = loop_of(mk[0], df)
        kv = lp.target.id if isinstance(lp, ast.For) and isinstance(lp.target, ast.Name) else None
        srt = [s for s in lp.body if isinstance(s, ast.Assign) and isinstance(s.value, ast.Call) and call_name(s.value) == 'sorted'] if lp else []
        a = b = None
        if srt and isinstance(srt[0].value.args[0], (ast.List, ast.Tuple)) and len(srt[0].value.args[0].elts) == 2:
            a, b = srt[0].value.args[0].elts
            # first, second = T1[k], T1[k + 1]
            def loc(e):
                if isinstance(e, ast.Name):
                    for s_ in lp.body:
                        if isinstance(s_, ast.Assign) and isinstance(s_.targets[0], ast.Tuple) and isinstance(s_.value, ast.Tuple):
                            for te, ve in zip(s_.targets[0].elts, s_.value.elts):
                                if isinstance(te, ast.Name) and te.id == e.id:
                                    return ve
                        if isinstance(s_, ast.Assign) and isinstance(s_.targets[0], ast.Name) and s_.targets[0].id == e.id:
                            return s_.value
                return e
            a, b = loc(a), loc(b)
            nf3 = NF(prog, df)
            ok = isinstance(a, ast.Subscript) and isinstance(b, ast.Subscript) and ast.dump(a.value) == ast.dump(b.value) \
                and isinstance(a.slice, ast.Name) and a.slice.id == kv and nf3.nf(b.slice) == nf3.nf(ast.parse(f'{kv} + 1', mode='eval').body)
    if ok:
        rep.ok('D6.shape', df, mk[0], 'direct first tree: edge k joins elements k and k + 1 of one sequence (path)', construct='direct first path')
    elif mk and srt and isinstance(a, ast.Subscript) and isinstance(b, ast.Subscript):
        rep.bad('D6.shape', df, mk[0], f'the first direct tree joins {short(a)} and {short(b)}, not consecutive elements of the path sequence',
                construct='direct first path')
    else:
        rep.undecided('D6.shape', df, mk[0] if mk else df.node.name, 'construction of the first direct tree not recognised', construct='direct first path')
    # the greedy search picks a *column* of the masked tau matrix (argmax over M[end, :]); a variable that has joined the path
    # is taken out of the search by masking the same axis (M[:, v] = negative): masking the other axis leaves it selectable
    from ..idioms import private_closure as _pc2
    for g in _pc2(ctx, df, prog.cls(TREE + 'DirectTree')):
        def axis_of(sub):
            """'col' for M[x, :] (ranges over columns), 'row' for M[:, x]; (axis, matrix name) or None"""
            if isinstance(sub, ast.Subscript) and isinstance(sub.slice, ast.Tuple) and len(sub.slice.elts) == 2 and isinstance(sub.value, ast.Name):
                a0, a1 = sub.slice.elts
                full0 = isinstance(a0, ast.Slice) and a0.lower is None and a0.upper is None
                full1 = isinstance(a1, ast.Slice) and a1.lower is None and a1.upper is None
                if full1 and not full0:
                    return 'col', sub.value.id
                if full0 and not full1:
                    return 'row', sub.value.id
            return None
        searches = [axis_of(c.args[0]) for c in walk_no_nested(g.node) if isinstance(c, ast.Call) and call_name(c) in ('argmax', 'nanargmax') and c.args]
        searches = [x for x in searches if x]
        masks = []
        for s_ in walk_no_nested(g.node):
            if isinstance(s_, ast.Assign) and isinstance(s_.targets[0], ast.Subscript) and isinstance(const_value(s_.value), (int, float)) \
                    and not isinstance(const_value(s_.value), bool) and const_value(s_.value) < 0:
                ax = axis_of(s_.targets[0])
                if ax:
                    # M[:, v] removes column v from a search over columns: the store's full slice is on the *other* axis
                    masks.append(('col' if ax[0] == 'row' else 'row', ax[1], s_))
        if searches and masks:
            for m_axis, m_name, s_ in masks:
                rel = [a for a, nm_ in searches if nm_ == m_name]
                if not rel:
                    continue
                if all(a == m_axis for a in rel):
                    rep.ok('D6.shape', g, s_, f'a variable that joined the path is masked on the axis the greedy search ranges over ({m_axis}s of `{m_name}`)',
                           construct=f'greedy mask {short(s_.targets[0], 40)}')
                elif all(a != m_axis for a in rel):
                    rep.bad('D6.shape', g, s_, f'`{short(s_, 50)}` masks a {m_axis} of `{m_name}`, but the greedy search takes the arg-max over {rel[0]}s: the variable stays '
                            'selectable and can be attached twice (cycle, a column left out)', construct=f'greedy mask {short(s_.targets[0], 40)}')
    # the greedy path construction keeps no candidate between iterations
    greedy = [n for n in df.body() if isinstance(n, ast.For) and not any(isinstance(x, ast.Call) and call_name(x) == 'append' and is_self_attr(x.func.value, df.self_name, 'edges') for x in ast.walk(n))]
    for lp in greedy:
        carried = _carried(lp)
        bad = []
        for name, first_read in carried.items():
            assigns = [s for s in ast.walk(lp) if isinstance(s, ast.Assign) and any(isinstance(t, ast.Name) and t.id == name for t in s.targets)]
            acc = all(isinstance(s.value, ast.Call) and call_name(s.value) in ('append', 'concatenate', 'insert', 'hstack') and any(
                isinstance(x, ast.Name) and x.id == name for x in ast.walk(s.value)) for s in assigns)
            if not acc:
                bad.append((name, first_read))
        rep.check('D6.shape', df, bad[0][1] if bad else lp, not bad, 'only the growing path and its taus are carried between iterations of the greedy loop',
                  f'`{bad[0][0] if bad else ""}` is carried from one iteration of the greedy path construction to the next: a candidate chosen '
                  'before the matrix was masked can be attached again (cycle / missing variable)', construct='greedy loop state')


def _ancestors(node, stop):
    p = getattr(node, '_parent', None)
    while p is not None and p is not stop:
        yield p
        p = getattr(p, '_parent', None)


def _assigned_in_loop(lp, name):
    if lp is None:
        return False
    return any(isinstance(x, ast.Name) and isinstance(x.ctx, ast.Store) and x.id == name for x in ast.walk(lp))


def _carried(lp):
    """{name: first read node} for names assigned in the loop body and read in an iteration before being assigned in it."""
    assigned_any = {x.id for x in ast.walk(lp) if isinstance(x, ast.Name) and isinstance(x.ctx, ast.Store)}
    for t in ast.walk(lp.target):
        if isinstance(t, ast.Name):
            assigned_any.discard(t.id)
    out = {}
    done = set()

    def visit(stmts, done):
        for s in stmts:
            if isinstance(s, ast.If):
                for x in ast.walk(s.test):
                    if isinstance(x, ast.Name) and isinstance(x.ctx, ast.Load) and x.id in assigned_any and x.id not in done:
                        out.setdefault(x.id, x)
                d1, d2 = set(done), set(done)
                visit(s.body, d1)
                visit(s.orelse, d2)
                done |= (d1 & d2)
                continue
            reads = [x for x in ast.walk(s) if isinstance(x, ast.Name) and isinstance(x.ctx, ast.Load)]
            for x in reads:
                if x.id in assigned_any and x.id not in done:
                    out.setdefault(x.id, x)
            for x in ast.walk(s):
                if isinstance(x, ast.Name) and isinstance(x.ctx, ast.Store):
                    done.add(x.id)
    visit(lp.body, done)
    return out


def d7(ctx, rep):
    prog = ctx.prog
    for meth in ('_build_first_tree', '_build_kth_tree'):
        fn = prog.cls(TREE + 'RegularTree').methods[meth]
        neg = [s for s in walk_no_nested(fn.node) if isinstance(s, ast.Assign) and isinstance(s.targets[0], ast.Name) and any(
            is_self_attr(x, fn.self_name, 'tau_matrix') for x in ast.walk(s.value))]
        nf = NF(prog, fn)
        ok_neg = False
        nname = None
        for s in neg:
            v = nf.nf(s.value)
            want = nf.nf(ast.parse(f'-1.0 * abs({fn.self_name}.tau_matrix)', mode='eval').body)
            if v == want:
                ok_neg, nname = True, s.targets[0].id
        picks = [c for c in walk_no_nested(fn.node) if isinstance(c, ast.Call) and call_name(c) == 'sorted' and kwarg(c, 'key') is not None]
        ok_pick = False
        for c in picks:
            key = kwarg(c, 'key')
            par = c._parent
            first = isinstance(par, ast.Subscript) and const_value(par.slice) == 0
            uses_neg = isinstance(key, ast.Lambda) and any(isinstance(x, ast.Name) and x.id == nname for x in ast.walk(key.body))
            rev = kwarg(c, 'reverse')
            ok_pick = first and uses_neg and (rev is None or const_value(rev) is False)
        recognised = bool(picks) and bool(neg) and nname is not None and any(
            isinstance(kwarg(c, 'key'), ast.Lambda) and isinstance(c._parent, ast.Subscript) for c in picks)
        if not recognised and not (picks and neg and not ok_neg):
            rep.undecided('D7.polarity', fn, picks[0] if picks else fn.node.name, f'RegularTree.{meth}: how the next pair is chosen was not recognised',
                          construct=f'RegularTree.{meth} choice')
        else:
            rep.check('D7.polarity', fn, picks[0] if picks else fn.node.name, ok_neg and ok_pick, f'RegularTree.{meth}: picks the pair with maximal |tau| (minimal -|tau|)',
                      f'RegularTree.{meth}: the greedy choice does not maximise |tau|', construct=f'RegularTree.{meth} choice')
    st = prog.cls(TREE + 'Tree').methods['_sort_tau_by_y']
    absol = any(isinstance(s, ast.Assign) and isinstance(s.value, ast.Call) and call_name(s.value) in ('abs', 'absolute') for s in walk_no_nested(st.node))
    desc = any(isinstance(x, ast.Subscript) and isinstance(x.slice, ast.Slice) and x.slice.step is not None and const_value(x.slice.step) == -1
               and isinstance(x.value, ast.Call) and call_name(x.value) == 'argsort' for x in walk_no_nested(st.node))
    diag = any(isinstance(s, ast.Assign) and isinstance(s.targets[0], ast.Subscript) and isinstance(s.value, ast.Attribute) and s.value.attr == 'nan'
               for s in walk_no_nested(st.node))
    rep.check('D7.polarity', st, st.node.name, absol and desc and diag, 'sorts by |tau| descending with the variable itself pushed last',
              'the tau ordering used for center / direct trees is not |tau| descending with the diagonal last', construct='_sort_tau_by_y order')
    dfn = prog.cls(TREE + 'DirectTree').methods['_build_first_tree']
    from ..idioms import private_closure as _pc
    amax = [c for g in _pc(ctx, dfn, prog.cls(TREE + 'DirectTree')) for c in walk_no_nested(g.node) if isinstance(c, ast.Call) and call_name(c) in ('argmax', 'argmin')]
    if not amax:
        rep.undecided('D7.polarity', dfn, dfn.node.name, 'how the path is extended was not recognised (no argmax / argmin)', construct='direct greedy choice')
    else:
        rep.check('D7.polarity', dfn, amax[0], all(call_name(c) == 'argmax' for c in amax),
                  'the path is extended by the variable of maximal tau', 'the path is extended by argmin', construct='direct greedy choice')
    fit = prog.method(VINE, 'fit')
    xp = fit.params[1]
    tm = [s for s in walk_no_nested(fit.node) if isinstance(s, ast.Assign) and any(is_self_attr(t, fit.self_name, 'tau_mat') for t in s.targets)]
    ok = False
    if tm:
        v = tm[0].value
        corr = [c for c in ast.walk(v) if isinstance(c, ast.Call) and call_name(c) == 'corr']
        ok = bool(corr) and isinstance(corr[0].func.value, ast.Name) and corr[0].func.value.id == xp and const_value(kwarg(corr[0], 'method', 0)) == 'kendall'
    rep.check('D7.polarity', fit, tm[0] if tm else fit.node.name, ok, "tau_mat = X.corr(method='kendall') of the training table",
              "the matrix that drives the first tree is not Kendall's tau of the training table", construct='tau_mat source')


def d8(ctx, rep):
    """Every Edge(...) built with a copula carries (copula_type, theta) of the copula select_copula returned in that function."""
    prog = ctx.prog
    n = 0
    mod = prog.cls(TREE + 'Edge').module
    for fn in [f for f in prog.functions.values() if f.module is mod]:
        mk = [c for c in walk_no_nested(fn.node) if isinstance(c, ast.Call) and (prog.resolve(fn.module, c.func) or '').endswith('tree.Edge')
              and len(c.args) >= 5]
        if not mk:
            continue
        sel = [s for s in walk_no_nested(fn.node) if isinstance(s, ast.Assign) and isinstance(s.value, ast.Call)
               and (prog.resolve(fn.module, s.value.func) or '').endswith('select_copula') and isinstance(s.targets[0], ast.Name)]
        who = f'{fn.cls.name}.{fn.name}' if fn.cls is not None else fn.name
        for call in mk:
            n += 1
            srcs = []
            for x in call.args[3:5]:
                d = x
                if isinstance(x, ast.Name):
                    for s in walk_no_nested(fn.node):
                        if isinstance(s, ast.Assign) and isinstance(s.targets[0], ast.Tuple) and isinstance(s.value, ast.Tuple):
                            for te, ve in zip(s.targets[0].elts, s.value.elts):
                                if isinstance(te, ast.Name) and te.id == x.id:
                                    d = ve
                        elif isinstance(s, ast.Assign) and isinstance(s.targets[0], ast.Name) and s.targets[0].id == x.id:
                            d = s.value
                srcs.append(d)
            attrs = [s_.attr if isinstance(s_, ast.Attribute) else None for s_ in srcs]
            bases = {s_.value.id for s_ in srcs if isinstance(s_, ast.Attribute) and isinstance(s_.value, ast.Name)}
            if not sel:
                if any(isinstance(s_, ast.Name) and s_.id in fn.params for s_ in srcs) or fn.name == 'from_dict':
                    continue  # a constructor-like helper / deserialiser: the values come from its caller
                rep.undecided('D8.copula', fn, call, f'{who}: where the copula of the new edge comes from is not derived', construct=f'{who} copula')
                continue
            cv = {s.targets[0].id for s in sel}
            if attrs == ['copula_type', 'theta'] and len(bases) == 1 and bases <= cv:
                rep.ok('D8.copula', fn, call, f'{who}: Edge(..., copula.copula_type, copula.theta) of the selected copula', construct=f'{who} copula')
            elif all(a is not None for a in attrs) and len(bases) >= 1:
                rep.bad('D8.copula', fn, call, f'{who}: the edge does not carry (copula_type, theta) of the copula selected for it', construct=f'{who} copula')
            else:
                rep.undecided('D8.copula', fn, call, f'{who}: the copula arguments of the new edge are not recognised', construct=f'{who} copula')
    rep.floor('D8.copula', 'edge construction sites', n, 1)
