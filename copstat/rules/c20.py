"""C20 - library calls never modify caller-owned inputs; plots show exactly the data."""

import ast

from .. import contracts as K
from ..absint import BOT, TOP, AbsInt, Frame, Tup
from ..effects import AliasAnalysis
from ..model import call_name, const_value, kwarg, short, walk_no_nested

# Parameter mutations read by hand and found benign (rule M1); keyed by (function, parameter).
M1_TRIAGE = {
    ('multivariate.tree.Tree.fit', 'edges'):
        '`self.edges = edges or []`: the building code that appends runs only when `edges` is empty/None, '
        'i.e. exactly when self.edges is the fresh list',
}


def get_alias(ctx):
    if 'alias' not in ctx.memo:
        ctx.memo['alias'] = AliasAnalysis(ctx)
    return ctx.memo['alias']


def run(ctx, rep):
    rep.trust(*K.TRUSTED_BASE_COMMON)
    rep.notes.append('C20: decides parameter immutability by a may-alias / in-place-write analysis over every public '
                     'callable (parameter object and its direct views; nested containers are out of reach) and the '
                     'labelling structure of the plot helpers; that plotly draws every row is not decided.')
    m1(ctx, rep)
    m2(ctx, rep)
    m3(ctx, rep)


def m3(ctx, rep):
    """State held by an object that was passed in (prototype.__kwargs__, a dict inside a model, ...) is not edited in place.

    M1 tracks a parameter and its direct views; this rule adds one level: a container reached as `<param>.<attr>` or
    `getattr(<param>, '<attr>'[, default])`, bound to a local or used directly, must not receive an in-place mutator
    (update / append / pop / item store ...) unless a copy was taken.  `self` / `cls` are not parameters in this sense."""
    prog = ctx.prog
    rep.rule('M3.state', 'no public callable edits in place a container reached through an attribute of one of its parameters')
    muts = set(K.MUTATOR_METHODS) | {'update', 'setdefault', 'pop', 'popitem', 'clear', 'append', 'extend', 'insert', 'remove', 'sort', 'reverse', 'add', 'discard'}
    n = 0
    for fn in prog.public_callables():
        params = set(fn.data_params) | ({fn.vararg} if fn.vararg else set())
        params.discard(fn.self_name)
        params -= {'self', 'cls'}
        if not params:
            continue

        def reaches(e):
            """name of the parameter when e is <param>.<attr> / getattr(<param>, ...), else None"""
            if isinstance(e, ast.Attribute) and isinstance(e.value, ast.Name) and e.value.id in params and prog.resolve(fn.module, e) is None:
                return e.value.id, e.attr
            if isinstance(e, ast.Call) and isinstance(e.func, ast.Name) and e.func.id == 'getattr' and len(e.args) >= 2 and isinstance(e.args[0], ast.Name) \
                    and e.args[0].id in params:
                return e.args[0].id, const_value(e.args[1]) or '?'
            return None
        held = {}  # local name -> (param, attr)
        for s_ in walk_no_nested(fn.node):
            if isinstance(s_, ast.Assign) and len(s_.targets) == 1 and isinstance(s_.targets[0], ast.Name):
                r = reaches(s_.value)
                others = [a for a in walk_no_nested(fn.node) if isinstance(a, ast.Assign) and a is not s_
                          and any(isinstance(t, ast.Name) and t.id == s_.targets[0].id for t in a.targets)]
                if r is not None and not others:
                    held[s_.targets[0].id] = r
        n += 1
        found = False
        for x in walk_no_nested(fn.node):
            tgt = None
            if isinstance(x, ast.Call) and isinstance(x.func, ast.Attribute) and x.func.attr in muts:
                recv = x.func.value
                tgt = held.get(recv.id) if isinstance(recv, ast.Name) else reaches(recv)
            elif isinstance(x, ast.Subscript) and isinstance(x.ctx, (ast.Store, ast.Del)):
                recv = x.value
                tgt = held.get(recv.id) if isinstance(recv, ast.Name) else reaches(recv)
            elif isinstance(x, ast.AugAssign) and isinstance(x.target, ast.Name) and x.target.id in held:
                tgt = held[x.target.id]
            if tgt is not None:
                found = True
                rep.bad('M3.state', fn, x, f'`{short(x, 50)}` edits `{tgt[0]}.{tgt[1]}` in place: the object the caller passed as `{tgt[0]}` is changed '
                        '(a later use of it sees the edit)', construct=f'{tgt[0]}.{tgt[1]}')
        if not found and held:
            rep.ok('M3.state', fn, fn.node.name, f'containers reached through {sorted({p for p, _a in held.values()})} are only read', construct='state of passed-in objects')
    if n == 0:
        rep.ok('M3.state', 'package', None, 'no public callable takes object parameters', construct='state of passed-in objects')


def m1(ctx, rep):
    prog = ctx.prog
    aa = get_alias(ctx)
    rep.rule('M1.param', 'no public callable writes in place into an object aliased to one of its parameters')
    pubs = prog.public_callables()
    rep.floor('M1.param', 'public callables analysed', len(pubs), 100)
    n_params = 0
    for fn in pubs:
        sm = aa.summaries[fn.qualname]
        for p in fn.data_params + ([fn.vararg] if fn.vararg else []) + ([fn.kwarg] if fn.kwarg else []):
            n_params += 1
            muts = sm.mut_params.get(p, [])
            if not muts:
                rep.ok('M1.param', fn, fn.node.name, f'parameter `{p}` is never written in place',
                       construct=f'{p}')
                continue
            tri = M1_TRIAGE.get((fn.short, p))
            for m in muts:
                if tri:
                    rep.triaged('M1.param', fn, fn.node.name, f'triaged: {tri}', construct=f'{p}: {m.terminal}')
                else:
                    rep.bad('M1.param', fn, fn.node.name,
                            f"the caller's `{p}` is modified in place", construct=f'{p}: {m.terminal}',
                            path=' -> '.join(m.path))
    rep.extra['parameters_analysed'] = n_params
    if True:
        # cross-call escapes: a parameter stored in self by one public method and written in place by another
        rep.rule('M1.escape', 'no public method writes in place into an attribute in which another public '
                 'method stored a caller-owned argument')
        for cls in prog.classes.values():
            stored = {}
            for m in cls.methods.values():
                if m.name.startswith('_') and m.name != '__init__':
                    continue
                for attr, origins in aa.summaries[m.qualname].stores.items():
                    ps = [o[1] for o in origins if o[0] == 'P' and o[1] != m.self_name]
                    if ps:
                        stored.setdefault(attr, []).append((m, ps))
            for attr, srcs in sorted(stored.items()):
                writers = []
                for k in cls.subclasses(strict=False):
                    for m2_ in k.methods.values():
                        if m2_.name.startswith('_'):
                            continue
                        for mut in aa.summaries[m2_.qualname].mut_self.get(attr, []):
                            writers.append((m2_, mut))
                src, ps = srcs[0]
                if not writers:
                    rep.ok('M1.escape', src, src.node.name, f'self.{attr} holds caller-owned `{ps[0]}`, no public method writes into it in place',
                           construct=f'self.{attr} <- {ps[0]}')
                for wm, mut in writers:
                    if wm is src or (src.short, ps[0]) in M1_TRIAGE:
                        continue
                    same_entry = any(mm.terminal == mut.terminal for mm in aa.summaries[src.qualname].mut_params.get(ps[0], []))
                    if same_entry:
                        continue  # already reported by M1.param for the storing method itself
                    rep.bad('M1.escape', wm, wm.node.name,
                            f'{src.short} stores the caller\'s `{ps[0]}` in self.{attr}; {wm.short} later writes into it in place',
                            construct=f'self.{attr} <- {ps[0]}: {mut.terminal}', path=' -> '.join(mut.path))


# ------------------------------------------------------------------------------ M2 plots
class Prov(AbsInt):
    """Provenance of a frame: ('p', param) possibly through .copy(); concat of several; labels added."""

    def param(self, name, fr):
        return ('p', name)

    def const(self, node, fr):
        return ('c', getattr(node, 'value', None))

    def method_call(self, meth, node, recv, fr):
        if meth in ('copy', 'reset_index', 'dropna'):
            return recv
        return None

    def external_call(self, name, node, fr):
        if name in ('pandas.DataFrame', 'copy.deepcopy', 'copy.copy') and node.args:
            return self.value(node.args[0], fr)
        if name == 'pandas.concat' and node.args:
            v = self.value(node.args[0], fr)
            if isinstance(v, Tup):
                return ('concat', tuple(v.elems))
        return TOP

    def join_distinct(self, a, b):
        return TOP


class FrameInterp:
    """Straight-line interpreter of the plot helpers: which parameter each block of rows comes from and which
    label it carries.  A frame value is a tuple of (source parameter, label or None, index kind)."""

    def __init__(self, ctx, rep, label_col='Data'):
        self.ctx = ctx
        self.prog = ctx.prog
        self.rep = rep
        self.label_col = None
        self.events = []  # (kind, fn, node, msg)
        self.n_label_stores = 0

    def eval(self, fn, e, env, depth=0):
        prog = self.prog
        if isinstance(e, ast.Constant) and isinstance(e.value, str):
            return ('str', e.value)
        if isinstance(e, ast.Name):
            if e.id in env:
                return env.get(e.id)
            c = prog.constant(prog.resolve(fn.module, e))
            return ('str', c.value) if isinstance(c, ast.Constant) and isinstance(c.value, str) else None
        if isinstance(e, (ast.List, ast.Tuple)):
            vals = [self.eval(fn, x, env, depth) for x in e.elts]
            return ('seq', vals) if all(v is not None for v in vals) else None
        if isinstance(e, ast.Call):
            nm = prog.resolve(fn.module, e.func)
            if isinstance(e.func, ast.Attribute) and e.func.attr in ('copy', 'reset_index', 'dropna') :
                return self.eval(fn, e.func.value, env, depth)
            if nm in ('pandas.DataFrame', 'copy.deepcopy', 'copy.copy') and e.args:
                return self.eval(fn, e.args[0], env, depth)
            if nm == 'pandas.concat' and e.args:
                seq = self.eval(fn, e.args[0], env, depth)
                if not (isinstance(seq, tuple) and seq and seq[0] == 'seq'):
                    return None
                parts = []
                for v in seq[1]:
                    if v is None or (v and v[0] in ('str', 'seq')):
                        return None
                    parts.extend(v)
                ign = kwarg(e, 'ignore_index')
                reset = ign is not None and const_value(ign) is True
                return tuple((src, lab, 'range' if reset else idx) for src, lab, idx in parts)
            if nm in prog.functions and depth < 2:
                g = prog.functions[nm]
                binding = get_alias(self.ctx).bind(fn, e, g)
                env2 = {}
                for pn, args in binding.items():
                    if args:
                        env2[pn] = self.eval(fn, args[0], env, depth)
                return self.run(g, env2, depth + 1)
        return None

    def run(self, fn, env, depth=0):
        """Interpret the top-level statements of fn; returns the value of its (single) return."""
        ret = None
        for st in fn.body():
            if isinstance(st, ast.Assign) and len(st.targets) == 1:
                t = st.targets[0]
                if isinstance(t, ast.Name):
                    env[t.id] = self.eval(fn, st.value, env, depth)
                elif isinstance(t, ast.Tuple) and isinstance(st.value, ast.Tuple) and len(t.elts) == len(st.value.elts):
                    vals = [self.eval(fn, v, env, depth) for v in st.value.elts]
                    for te, v in zip(t.elts, vals):
                        if isinstance(te, ast.Name):
                            env[te.id] = v
                elif isinstance(t, ast.Subscript):
                    lab = self.eval(fn, st.value, env, depth)
                    if isinstance(lab, tuple) and lab and lab[0] == 'str':
                        self.label_store(fn, st, t, lab[1], env)
                    elif isinstance(st.value, ast.Call) and self.prog.resolve(fn.module, st.value.func) == 'pandas.Series' and kwarg(st.value, 'index', 1) is None \
                            and isinstance(t.value, ast.Name) and isinstance(const_value(t.slice), str):
                        # frame[col] = pd.Series(values): assignment of a Series aligns on the index; a new Series has the labels 0..n-1
                        self.events.append(('bad', fn, st, f"`{short(st, 70)}`: a Series without `index=` is aligned on the labels 0..n-1 when it is assigned as a column, so the rows of "
                                            f"`{t.value.id}` whose index labels are different get NaN in '{const_value(t.slice)}' and are not drawn under their label"))
            elif isinstance(st, ast.Return) and st.value is not None:
                ret = self.eval(fn, st.value, env, depth) if not isinstance(st.value, ast.Call) or \
                    not (self.prog.resolve(fn.module, st.value.func) or '').startswith('copulas.visualization._generate_scatter') \
                    else ('sink', st.value)
                if isinstance(ret, tuple) and ret and ret[0] == 'sink':
                    self.sink = (fn, st.value, dict(env))
                    ret = None
        return ret

    def label_store(self, fn, st, target, label, env):
        base = target.value
        col = self.eval(fn, target.slice, env) if isinstance(target.slice, (ast.Name, ast.Constant)) else None
        col = col[1] if isinstance(col, tuple) and col and col[0] == 'str' else None
        if isinstance(base, ast.Name) and col is not None:
            v = env.get(base.id)
            if isinstance(v, tuple) and v and v[0] in ('str', 'seq'):
                v = None
            self.n_label_stores += 1
            self.label_col = col
            if v is None:
                self.events.append(('undecided', fn, st, f'provenance of the labelled frame `{base.id}` not derivable'))
                return
            env[base.id] = tuple((src, label, idx) for src, _l, idx in v)
            self.events.append(('label', fn, st, (tuple(src for src, _l, _i in v), label)))
            return
        # F.loc[selector, 'Data'] = label  /  F.iloc[...]
        if isinstance(base, ast.Attribute) and base.attr in ('loc', 'iloc') and isinstance(base.value, ast.Name) \
                and isinstance(target.slice, ast.Tuple) and len(target.slice.elts) == 2:
            v = env.get(base.value.id)
            sel = target.slice.elts[0]
            self.n_label_stores += 1
            if v is None:
                self.events.append(('undecided', fn, st, 'provenance of the partially relabelled frame not derivable'))
                return
            if base.attr == 'loc' and isinstance(sel, ast.Attribute) and sel.attr == 'index' and isinstance(sel.value, ast.Name):
                src = env.get(sel.value.id)
                self.events.append(('bad', fn, st, f"rows are re-labelled '{label}' by looking up the index labels of `{sel.value.id}` in "
                                    'a concatenated table whose index was reset / contains both tables: for a non-default index the '
                                    'wrong rows (or rows of both tables) receive the label'))
                return
            self.events.append(('undecided', fn, st, 'partial relabelling by a selector that is not understood'))


def m2(ctx, rep):
    prog = ctx.prog
    rep.rule('M2.label', "rows from `real`/`data` are labelled 'Real', rows from `synth` 'Synthetic', each frame once")
    rep.rule('M2.axes', 'x/y/z are the first two/three requested (or default) columns, colour and symbol follow the label column')
    viz = 'copulas.visualization.'
    expected = {'real': 'Real', 'data': 'Real', 'synth': 'Synthetic'}
    n = 0
    for name, dim in (('scatter_2d', 2), ('compare_2d', 2), ('scatter_3d', 3), ('compare_3d', 3)):
        fn = prog.func(viz + name)
        fi = FrameInterp(ctx, rep)
        fi.sink = None
        env = {p: ((p, None, 'own'),) for p in fn.params if p in expected}
        fi.run(fn, env)
        n += fi.n_label_stores
        labels = {}
        label_col = fi.label_col
        for kind, f, node, msg in fi.events:
            if kind == 'bad':
                rep.bad('M2.label', f, node, msg)
            elif kind == 'undecided':
                rep.undecided('M2.label', f, node, msg)
        frames = [p for p in fn.params if p in expected]
        if fi.sink is None:
            rep.undecided('M2.label', fn, fn.node.name, 'plot builder call not found', construct='builder call')
            continue
        _f, hc, senv = fi.sink
        helper = prog.functions[prog.resolve(fn.module, hc.func)]
        binding = get_alias(ctx).bind(fn, hc, helper)
        dv = fi.eval(fn, binding['data'][0], senv) if binding.get('data') else None
        if dv is None:
            if not any(k == 'bad' for k, *_ in fi.events):
                rep.undecided('M2.label', fn, hc, 'plotted frame not derivable', construct='plotted frame')
        else:
            got = [src for src, _l, _i in dv]
            rep.check('M2.label', fn, hc, sorted(got) == sorted(frames),
                      f'the plotted frame consists of {got}, each exactly once',
                      f'the plotted frame consists of {got}; expected each of {frames} exactly once',
                      construct='plotted frame')
            for src, lab, _i in dv:
                labels[src] = lab
                if src in expected and lab is None:
                    rep.undecided('M2.label', fn, hc, f'which label the rows of `{src}` carry was not derived (the label column is not written by a plain store on that frame)',
                                  construct=f'label of {src}')
                elif src in expected:
                    rep.check('M2.label', fn, hc, lab == expected[src], f"rows of `{src}` carry the label '{lab}'",
                              f"rows of `{src}` carry the label {lab!r} instead of '{expected[src]}'", construct=f'label of {src}')
        cv = binding.get('columns')
        rep.check('M2.axes', fn, hc, bool(cv) and isinstance(cv[0], ast.Name) and cv[0].id == 'columns',
                  'requested columns forwarded to the builder', 'the requested columns are not forwarded',
                  construct='columns forwarded')
        cdm = binding.get('color_discrete_map')
        keys = {const_value(k) for k in cdm[0].keys if k is not None} if cdm and isinstance(cdm[0], ast.Dict) else None
        if keys is not None:
            rep.check('M2.label', fn, hc, {l_ for l_ in labels.values() if l_ is not None} <= keys,
                      'every label has a colour', f'labels {sorted(map(str, labels.values()))} vs colour keys {sorted(map(str, keys))}',
                      construct='colour map keys')
        # builder: px.scatter(data, x=columns[0], y=columns[1][, z=columns[2]], color=<label col>)
        hfr = Frame(helper)
        pcs = [c for c in walk_no_nested(helper.node) if isinstance(c, ast.Call)
               and (prog.resolve(helper.module, c.func) or '').startswith('plotly.express.scatter')]
        if len(pcs) != 1:
            rep.undecided('M2.axes', helper, helper.node.name, 'px.scatter call not found', construct='px.scatter')
            continue
        pc = pcs[0]
        d0 = kwarg(pc, 'data_frame', 0)
        rep.check('M2.axes', helper, pc, isinstance(d0, ast.Name) and d0.id == 'data',
                  'plots the frame it was given', 'plots something other than the given frame', construct='px data')
        from ..idioms import row_subsets_reaching
        for f_, names_, upto in ((helper, {d0.id} if isinstance(d0, ast.Name) else set(), pc), (fn, set(frames), hc)):
            for st, tn, bn, how in row_subsets_reaching(f_.node, names_, before=upto):
                rep.bad('M2.label', f_, st, f'`{tn}` becomes {how} of `{bn}` before the figure is built: not every given row is plotted', construct=f'{f_.node.name}: every row plotted')
        from ..kinds import DepKind
        from ..absint import Frame as _F
        dk = DepKind(ctx)
        bases = set()
        for axis, idx in (('x', 0), ('y', 1), ('z', 2))[:dim]:
            a = kwarg(pc, axis)
            if not (isinstance(a, ast.Subscript) and isinstance(const_value(a.slice), int)):
                rep.undecided('M2.axes', helper, pc, f'{axis} axis is {short(a)}: not an indexed column list', construct=f'{axis} axis')
                continue
            bases.add(ast.dump(a.value))
            deps = dk.value(a.value, _F(helper, {}))
            from_cols = isinstance(deps, frozenset) and 'param:columns' in deps
            rep.check('M2.axes', helper, pc, const_value(a.slice) == idx and from_cols, f'{axis} = element {idx} of the requested (or default) columns',
                      f'{axis} axis is {short(a)}: not element {idx} of the requested columns', construct=f'{axis} axis')
        if len(bases) > 1:
            rep.bad('M2.axes', helper, pc, 'the axes are taken from different column lists', construct='axes share one column list')
        col = kwarg(pc, 'color')
        if label_col is None and const_value(col) is not None:
            rep.undecided('M2.axes', helper, pc, f"colour follows the '{const_value(col)}' column; which column holds the labels was not derived", construct='color')
            continue
        rep.check('M2.axes', helper, pc, const_value(col) == label_col and label_col is not None,
                  f"colour follows the '{label_col}' column", f'colour is {short(col)}, label column is {label_col!r}',
                  construct='color')
    if n == 0:
        rep.undecided('M2.label', prog.func(viz + 'compare_2d'), 'compare_2d', 'no store of a label column recognised in the four scatter/compare helpers', construct='label stores')
