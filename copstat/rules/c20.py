"""C20 - library calls never modify caller-owned inputs; plots show exactly the data."""

import ast

from .. import contracts as K
from ..absint import BOT, TOP, AbsInt, Frame, Tup
from ..effects import AliasAnalysis
from ..model import call_name, const_value, kwarg, short, walk_no_nested

# Parameter mutations read by hand and found benign (rule M1); keyed by (function, parameter).
M1_TRIAGE = {
    ('multivariate.tree.Tree.fit', 'edges'):
        '`self.edges = edges or []`: the building code that appends runs only when `edges` is empty/None, '
        'i.e. exactly when self.edges is the fresh list',
}


def get_alias(ctx):
    if 'alias' not in ctx.memo:
        ctx.memo['alias'] = AliasAnalysis(ctx)
    return ctx.memo['alias']


def run(ctx, rep):
    rep.trust(*K.TRUSTED_BASE_COMMON)
    rep.notes.append('C20: decides parameter immutability by a may-alias / in-place-write analysis over every public '
                     'callable (parameter object and its direct views; nested containers are out of reach) and the '
                     'labelling structure of the plot helpers; that plotly draws every row is not decided.')
    m1(ctx, rep)
    m2(ctx, rep)


def m1(ctx, rep):
    prog = ctx.prog
    aa = get_alias(ctx)
    rep.rule('M1.param', 'no public callable writes in place into an object aliased to one of its parameters')
    pubs = prog.public_callables()
    rep.floor('M1.param', 'public callables analysed', len(pubs), 130)
    n_params = 0
    for fn in pubs:
        sm = aa.summaries[fn.qualname]
        for p in fn.data_params + ([fn.vararg] if fn.vararg else []) + ([fn.kwarg] if fn.kwarg else []):
            n_params += 1
            muts = sm.mut_params.get(p, [])
            if not muts:
                rep.ok('M1.param', fn, fn.node.name, f'parameter `{p}` is never written in place',
                       construct=f'{p}')
                continue
            tri = M1_TRIAGE.get((fn.short, p))
            for m in muts:
                if tri:
                    rep.triaged('M1.param', fn, fn.node.name, f'triaged: {tri}', construct=f'{p}: {m.terminal}')
                else:
                    rep.bad('M1.param', fn, fn.node.name,
                            f"the caller's `{p}` is modified in place", construct=f'{p}: {m.terminal}',
                            path=' -> '.join(m.path))
    rep.extra['parameters_analysed'] = n_params
    if ctx.thorough:
        # cross-call escapes: a parameter stored in self by one public method and written in place by another
        rep.rule('M1.escape', '(thorough) no public method writes in place into an attribute in which another public '
                 'method stored a caller-owned argument')
        for cls in prog.classes.values():
            stored = {}
            for m in cls.methods.values():
                if m.name.startswith('_') and m.name != '__init__':
                    continue
                for attr, origins in aa.summaries[m.qualname].stores.items():
                    ps = [o[1] for o in origins if o[0] == 'P' and o[1] != m.self_name]
                    if ps:
                        stored.setdefault(attr, []).append((m, ps))
            for attr, srcs in sorted(stored.items()):
                writers = []
                for k in cls.subclasses(strict=False):
                    for m2_ in k.methods.values():
                        if m2_.name.startswith('_'):
                            continue
                        for mut in aa.summaries[m2_.qualname].mut_self.get(attr, []):
                            writers.append((m2_, mut))
                src, ps = srcs[0]
                if not writers:
                    rep.ok('M1.escape', src, src.node.name, f'self.{attr} holds caller-owned `{ps[0]}`, no public method writes into it in place',
                           construct=f'self.{attr} <- {ps[0]}')
                for wm, mut in writers:
                    if wm is src or (src.short, ps[0]) in M1_TRIAGE:
                        continue
                    same_entry = any(mm.terminal == mut.terminal for mm in aa.summaries[src.qualname].mut_params.get(ps[0], []))
                    if same_entry:
                        continue  # already reported by M1.param for the storing method itself
                    rep.bad('M1.escape', wm, wm.node.name,
                            f'{src.short} stores the caller\'s `{ps[0]}` in self.{attr}; {wm.short} later writes into it in place',
                            construct=f'self.{attr} <- {ps[0]}: {mut.terminal}', path=' -> '.join(mut.path))


# ------------------------------------------------------------------------------ M2 plots
class Prov(AbsInt):
    """Provenance of a frame: ('p', param) possibly through .copy(); concat of several; labels added."""

    def param(self, name, fr):
        return ('p', name)

    def const(self, node, fr):
        return ('c', getattr(node, 'value', None))

    def method_call(self, meth, node, recv, fr):
        if meth in ('copy', 'reset_index', 'dropna'):
            return recv
        return None

    def external_call(self, name, node, fr):
        if name in ('pandas.DataFrame', 'copy.deepcopy', 'copy.copy') and node.args:
            return self.value(node.args[0], fr)
        if name == 'pandas.concat' and node.args:
            v = self.value(node.args[0], fr)
            if isinstance(v, Tup):
                return ('concat', tuple(v.elems))
        return TOP

    def join_distinct(self, a, b):
        return TOP


def m2(ctx, rep):
    prog = ctx.prog
    rep.rule('M2.label', "rows from `real`/`data` are labelled 'Real', rows from `synth` 'Synthetic', each frame once")
    rep.rule('M2.axes', 'x/y/z are the first two/three requested (or default) columns, colour and symbol follow the label column')
    viz = 'copulas.visualization.'
    pv = Prov(ctx)
    expected = {'real': 'Real', 'data': 'Real', 'synth': 'Synthetic'}
    n = 0
    for name, dim in (('scatter_2d', 2), ('compare_2d', 2), ('scatter_3d', 3), ('compare_3d', 3)):
        fn = prog.func(viz + name)
        fr = Frame(fn)
        labels = {}
        label_col = None
        for st in walk_no_nested(fn.node):
            if isinstance(st, ast.Assign) and len(st.targets) == 1 and isinstance(st.targets[0], ast.Subscript) \
                    and isinstance(st.targets[0].value, ast.Name) and isinstance(st.value, ast.Constant) \
                    and isinstance(st.value.value, str):
                src = pv.value(st.targets[0].value, fr)
                col = const_value(st.targets[0].slice)
                lab = st.value.value
                n += 1
                if isinstance(src, tuple) and src[0] == 'p' and src[1] in expected:
                    label_col = col
                    labels[src[1]] = lab
                    rep.check('M2.label', fn, st, lab == expected[src[1]],
                              f"frame derived from `{src[1]}` labelled '{lab}'",
                              f"rows of `{src[1]}` are labelled '{lab}' instead of '{expected[src[1]]}'")
                else:
                    rep.undecided('M2.label', fn, st, f'provenance of the labelled frame not derivable ({src})')
        frames = [p for p in fn.params if p in expected]
        for p in frames:
            if p not in labels:
                rep.bad('M2.label', fn, fn.node.name, f'rows of `{p}` never receive a label', construct=f'label of {p}')
        # the helper call: data argument contains every frame exactly once
        helper_calls = [c for c in walk_no_nested(fn.node) if isinstance(c, ast.Call)
                        and (prog.resolve(fn.module, c.func) or '').startswith(viz + '_generate_scatter')]
        if not helper_calls:
            rep.undecided('M2.label', fn, fn.node.name, 'plot builder call not found', construct='builder call')
            continue
        hc = helper_calls[0]
        helper = prog.functions[prog.resolve(fn.module, hc.func)]
        binding = get_alias(ctx).bind(fn, hc, helper)
        dv = pv.value(binding['data'][0], fr) if binding.get('data') else TOP
        parts = list(dv[1]) if isinstance(dv, tuple) and dv[0] == 'concat' else [dv]
        got = [x[1] for x in parts if isinstance(x, tuple) and x[0] == 'p']
        if any(not (isinstance(x, tuple) and x[0] == 'p') for x in parts):
            rep.undecided('M2.label', fn, hc, f'plotted frame not derivable ({dv})', construct='plotted frame')
        else:
            rep.check('M2.label', fn, hc, sorted(got) == sorted(frames),
                      f'the plotted frame consists of {got}, each exactly once',
                      f'the plotted frame consists of {got}; expected each of {frames} exactly once',
                      construct='plotted frame')
        cv = binding.get('columns')
        rep.check('M2.axes', fn, hc, bool(cv) and isinstance(cv[0], ast.Name) and cv[0].id == 'columns',
                  'requested columns forwarded to the builder', 'the requested columns are not forwarded',
                  construct='columns forwarded')
        cdm = binding.get('color_discrete_map')
        keys = {const_value(k) for k in cdm[0].keys if k is not None} if cdm and isinstance(cdm[0], ast.Dict) else None
        if keys is not None:
            rep.check('M2.label', fn, hc, set(labels.values()) <= keys,
                      'every label has a colour', f'labels {sorted(labels.values())} vs colour keys {sorted(keys)}',
                      construct='colour map keys')
        # builder: px.scatter(data, x=columns[0], y=columns[1][, z=columns[2]], color=<label col>)
        hfr = Frame(helper)
        pcs = [c for c in walk_no_nested(helper.node) if isinstance(c, ast.Call)
               and (prog.resolve(helper.module, c.func) or '').startswith('plotly.express.scatter')]
        if len(pcs) != 1:
            rep.undecided('M2.axes', helper, helper.node.name, 'px.scatter call not found', construct='px.scatter')
            continue
        pc = pcs[0]
        d0 = kwarg(pc, 'data_frame', 0)
        rep.check('M2.axes', helper, pc, isinstance(d0, ast.Name) and d0.id == 'data',
                  'plots the frame it was given', 'plots something other than the given frame', construct='px data')
        for axis, idx in (('x', 0), ('y', 1), ('z', 2))[:dim]:
            a = kwarg(pc, axis)
            good = (isinstance(a, ast.Subscript) and isinstance(a.value, ast.Name) and a.value.id == 'columns'
                    and const_value(a.slice) == idx)
            rep.check('M2.axes', helper, pc, good, f'{axis} = columns[{idx}]',
                      f'{axis} axis is {short(a)} instead of columns[{idx}]', construct=f'{axis} axis')
        col = kwarg(pc, 'color')
        rep.check('M2.axes', helper, pc, const_value(col) == label_col and label_col is not None,
                  f"colour follows the '{label_col}' column", f'colour is {short(col)}, label column is {label_col!r}',
                  construct='color')
    rep.floor('M2.label', 'label stores in the four scatter/compare helpers', n, 6)
