"""C19 - model lifecycle: fit is a pure function of its inputs; misuse fails loudly."""

import ast

from .. import contracts as K
from ..idioms import enum_paths, is_none_test, only_raises, raises, stmt_of
from ..lifecycle import (QUERY_METHODS, GuardAnalysis, MustWrite, config_attrs, coverage, empty_buffers,
                         fitted_state, get_attr_effects, model_classes)
from ..model import AnalysisError, call_name, is_self_attr, short, walk_no_nested
from ..cfg import CFG, header_exprs
from .c15 import get_rng

# Conditionally written attributes that were read by hand and are benign (rule L3a); one reason each.
L3A_TRIAGE = {
    ('copulas.univariate.gaussian_kde.GaussianKDE', '_model'):
        'only written on the non-constant branch; while the constant overrides are installed no method reads it',
    ('copulas.multivariate.tree.Tree', 'u_matrix'):
        'written and read under the same `level == 1` guard',
    ('copulas.multivariate.tree.CenterTree', 'u_matrix'): 'as Tree.u_matrix',
    ('copulas.multivariate.tree.DirectTree', 'u_matrix'): 'as Tree.u_matrix',
    ('copulas.multivariate.tree.RegularTree', 'u_matrix'): 'as Tree.u_matrix',
}
# np.empty buffers that are deliberately not filled completely (rule L4).
# keyed by (function, ordinal of the np.empty allocation in the function): local names are not part of a key
L4_TRIAGE = {
    ('multivariate.tree.Tree.get_likelihood', 1):
        'sparse by design: the next level reads only the cells [L,R] / [R,L] of parent edges, which are the cells written',
}
L4_ENUMERATE_TRIAGE = {
    ('multivariate.vine.VineCopula.fit', 1):
        'enumerate(X) iterates the columns of the DataFrame whose shape[1] sized the second axis',
}


def run(ctx, rep):
    rep.trust(*K.TRUSTED_BASE_COMMON, 'numpy.empty returns uninitialised memory')
    rep.notes.append('C19: decides the structural part of the lifecycle (check_fit dominance, input validation, '
                     'state carried across fits, uninitialised buffers, RNG use in fit, cloning); equality of '
                     'fitted numbers is not computed.')
    rep.guarded('L1.l1', l1, ctx, rep)
    rep.guarded('L1.l1c', l1_check, ctx, rep)
    rep.guarded('L2.l2', l2, ctx, rep)
    rep.guarded('L3.l3', l3, ctx, rep)
    rep.guarded('L4.l4', l4, ctx, rep)
    rep.guarded('L5.l5', l5, ctx, rep)
    rep.guarded('L6.l6', l6, ctx, rep)
    rep.guarded('L7.l7', l7, ctx, rep)
    rep.guarded('L8.l8', l8, ctx, rep)
    rep.guarded('L9.l9', l9, ctx, rep)
    rep.guarded('L10.l10', l10, ctx, rep)
    rep.guarded('L11.l11', l11, ctx, rep)
    rep.guarded('L12.l12', l12, ctx, rep)


# --------------------------------------------------------------------- L1 check_fit dominance
def l1(ctx, rep, rule='L1.guard', names=QUERY_METHODS, only_classes=None):
    prog = ctx.prog
    rep.rule(rule, 'every query method passes check_fit() before the first read of fitted state (all paths)')
    ga = ctx.memo.setdefault('guard', GuardAnalysis(ctx))
    n_defs = 0
    classes = model_classes(prog)
    results = {}  # method qualname -> [(cls, safe, witness, F)]
    for cls in classes:
        if only_classes is not None and cls.qualname not in only_classes:
            continue
        key = ('guard-solved', cls.qualname)
        if key not in ctx.memo:
            ctx.memo[key] = ga.solve(cls)
        F = ctx.memo[key]
        for name in names:
            m = cls.lookup(name)
            if m is None or m.kind != 'method':
                continue
            results.setdefault(m.qualname, []).append(
                (cls, m, name, ga.safe.get((cls.qualname, name), True), ga.witness.get((cls.qualname, name)), F))
    for q in sorted(results):
        entries = results[q]
        m, name = entries[0][1], entries[0][2]
        n_defs += 1
        failing = [e for e in entries if not e[3]]
        if only_raises(m):
            rep.ok(rule, m, m.node.name, 'abstract (only raises)', construct=f'def {name}')
        elif not failing:
            anyF = any(e[5] for e in entries)
            rep.ok(rule, m, m.node.name, f'guarded for {len(entries)} receiver class(es)' if anyF else 'class has no fitted state',
                   construct=f'def {name}')
        else:
            cls, _m, _n, _s, wit, _F = failing[0]
            node, what = wit
            rep.bad(rule, m, node, f'{what} on a path that has not passed check_fit() (receiver class '
                    f'{cls.name}): an unfitted model fails with an unrelated error instead of NotFittedError',
                    construct=f'def {name}: {short(node, 60)}',
                    path=f'{m.short} entry -> {short(stmt_of(node), 70)}')
    if only_classes is None:
        rep.floor(rule, 'query-method definitions analysed', n_defs, 30)
    return n_defs


# ------------------------------------------------------------------ L1.check what check_fit tests
def l1_check(ctx, rep):
    """check_fit itself: NotFittedError is raised in the state __init__ leaves behind, is the only way out of that state,
    and is not raised once the fitted indicator is set."""
    prog = ctx.prog
    rep.rule('L1.check', 'every check_fit raises NotFittedError in the state __init__ leaves (indicator falsy), cannot return normally in that state, '
             'and does not raise it once fit has set the indicator')
    from ..boolcond import Conds, atoms_of, f_and, f_or, satisfiable, show, substitute
    import re
    defs = [f for f in prog.functions.values() if f.name == 'check_fit' and f.cls is not None and f.kind == 'method'
            and not only_raises(f) and [s_ for s_ in f.body() if not isinstance(s_, ast.Pass)]]
    for f in sorted(defs, key=lambda g: g.qualname):
        cd = Conds(prog, f)
        normal, rs, _rets = cd.exits()
        nfe = [c for st_, c in rs if _raises_name(st_, 'NotFittedError')]
        if not nfe:
            rep.bad('L1.check', f, f.node.name, f'{f.short} never raises NotFittedError: an unfitted model is queried as if it were fitted', construct=f'{f.cls.name}.check_fit')
            continue
        cond = f_or(*nfe)
        sn = f.self_name
        # indicator attributes and their value right after construction
        unfitted, fitted, unknown = {}, {}, []
        for k in set(atoms_of(cond)) | set(atoms_of(normal)):
            m = re.match(r'(truth|isnone)\[' + re.escape(sn) + r'\.([A-Za-z_][A-Za-z_0-9]*)\]$', k)
            if not m:
                continue
            kind, attr = m.groups()
            init = _initial_value(prog, f.cls, attr)
            if init is None:
                unknown.append(attr)
                continue
            v = init.value
            unfitted[k] = (bool(v) if kind == 'truth' else v is None)
            fitted[k] = (kind == 'truth')
        if not unfitted:
            rep.undecided('L1.check', f, f.node.name, f'{f.short}: the test that raises NotFittedError (`{show(cond)[:80]}`) is not on an attribute with a constant '
                          f'initial value{" (" + ", ".join(unknown) + ")" if unknown else ""}', construct=f'{f.cls.name}.check_fit')
            continue
        raised_unfitted = satisfiable(substitute(cond, unfitted))
        escapes = satisfiable(substitute(normal, unfitted))
        raised_fitted = satisfiable(substitute(cond, fitted))
        free = set(atoms_of(substitute(cond, unfitted))) | set(atoms_of(substitute(normal, unfitted)))
        if free and (escapes or not raised_unfitted):
            rep.undecided('L1.check', f, f.node.name, f'{f.short}: the outcome on a fresh model also depends on {sorted(free)[:3]}', construct=f'{f.cls.name}.check_fit')
        elif not raised_unfitted or escapes:
            rep.bad('L1.check', f, f.node.name, f'{f.short} returns normally on a freshly constructed model (NotFittedError under `{show(cond)[:80]}`; '
                    f'fresh state: {sorted(unfitted.items())}): queries on an unfitted model are not refused', construct=f'{f.cls.name}.check_fit')
        elif raised_fitted and not set(atoms_of(substitute(cond, fitted))):
            rep.bad('L1.check', f, f.node.name, f'{f.short} raises NotFittedError once the indicator is set (`{show(cond)[:80]}`): a fitted model cannot be queried',
                    construct=f'{f.cls.name}.check_fit')
        else:
            rep.ok('L1.check', f, f.node.name, f'NotFittedError exactly in the fresh state ({", ".join(sorted(unfitted))})', construct=f'{f.cls.name}.check_fit')


def _raises_name(st, name):
    if isinstance(st, ast.Raise) and st.exc is not None:
        e = st.exc.func if isinstance(st.exc, ast.Call) else st.exc
        return (isinstance(e, ast.Name) and e.id == name) or (isinstance(e, ast.Attribute) and e.attr == name)
    return False


def _initial_value(prog, cls, attr):
    """Constant the attribute holds right after construction (__init__ assignment or class-level default), else None."""
    for k in cls.mro():
        init = k.methods.get('__init__')
        if init is not None and init.self_name:
            vals = [a.value for a in walk_no_nested(init.node) if isinstance(a, ast.Assign) and any(is_self_attr(t, init.self_name, attr) for t in a.targets)]
            if vals:
                return vals[-1] if len(vals) == 1 and isinstance(vals[0], ast.Constant) else None
        d = k.attrs.get(attr)
        if d is not None:
            return d if isinstance(d, ast.Constant) else None
    return None


# ---------------------------------------------------------------------- L2 input validation
def l2(ctx, rep):
    prog = ctx.prog
    rep.rule('L2.decorated', 'every Multivariate.fit(X, ...) override is under @check_valid_values')
    rep.rule('L2.guards', 'check_valid_values: emptiness, dtype and NaN guards (each raising ValueError) dominate the wrapped call; nothing is written to self first')
    DEC = 'copulas.utils.check_valid_values'
    root = prog.cls('copulas.multivariate.base.Multivariate')
    n = 0
    for c in root.subclasses():
        m = c.methods.get('fit')
        if m is None or len(m.params) < 2 or m.params[1] != 'X':
            continue
        if not [s for s in m.body() if not isinstance(s, ast.Pass)] or only_raises(m):
            continue
        n += 1
        rep.check('L2.decorated', m, m.node.name, DEC in m.decorators, '@check_valid_values present',
                  'fit(X) is not validated: empty / non-numeric / NaN tables are accepted or fail late with the model half-written',
                  construct='def fit')
    rep.floor('L2.decorated', 'Multivariate.fit(X) overrides', n, 2)
    dec = prog.func(DEC)
    wrappers = [f for f in prog.functions.values() if f.outer is dec]
    if len(wrappers) != 1:
        raise AnalysisError('check_valid_values no longer has exactly one inner wrapper')
    w = wrappers[0]
    pname = dec.params[0]
    calls = [c for c in walk_no_nested(w.node) if isinstance(c, ast.Call) and isinstance(c.func, ast.Name) and c.func.id == pname]
    if not calls:
        rep.bad('L2.guards', w, w.node.name, 'the wrapped function is never called', construct='function(self, X, ...)')
        return
    from ..boolcond import Conds, atoms_of, callee_exits, f_and, satisfiable, show, substitute
    from ..boolcond import f_not, f_or

    def bad_input(kind, keys):
        """Formula over the code's own atoms that describes 'the input is bad' for one kind; (formula, n atoms) or None."""
        if kind == 'empty':
            fs = []
            for k in keys:
                if k.startswith('truth[') and ('len(' in k or '.shape[0]' in k or '.size' in k) and 'isnan' not in k:
                    fs.append(f_not(('atom', k)))
                elif k.startswith('truth[') and k.endswith('.empty]'):
                    fs.append(('atom', k))
            return (f_or(*fs), len(fs)) if fs else None
        if kind == 'dtype':
            good = [('atom', k) for k in keys if k.startswith('truth[') and ('issubdtype' in k or 'is_numeric_dtype' in k)]
            good += [('atom', k) for k in keys if k.startswith('in[') and 'dtype.kind' in k]
            return (f_and(*[f_not(g) for g in good]), len(good)) if good else None
        if kind == 'nan':
            fs = [('atom', k) for k in keys if ('isnan' in k or 'isnull' in k or 'isna(' in k) and (k.startswith('any[') or k.startswith('truth['))]
            return (f_or(*fs), len(fs)) if fs else None
        return None

    for c in calls:
        # the wrapped fit receives everything the wrapper received: positional rest and keywords (fit(X, truncated=2) must not lose `truncated`)
        fw_args = w.vararg is None or any(isinstance(a_, ast.Starred) and isinstance(a_.value, ast.Name) and a_.value.id == w.vararg for a_ in c.args)
        fw_kw = w.kwarg is None or any(k_.arg is None and isinstance(k_.value, ast.Name) and k_.value.id == w.kwarg for k_ in c.keywords)
        rep.check('L2.guards', w, c, fw_args and fw_kw, 'the wrapped call forwards *args and **kwargs',
                  f'the wrapped call drops {"the keyword arguments" if not fw_kw else "the positional arguments"} of the wrapper: options such as `truncated=` given by keyword never reach fit',
                  construct='arguments forwarded')
        cd = Conds(prog, w)
        hook = lambda c2, call2: callee_exits(ctx, c2, call2)
        reach = cd.reach(c, callee_hook=hook)
        raises = [(rs, rc) for rs, rc in cd._raises if _is_value_error(rs)]
        if reach is None:
            rep.undecided('L2.guards', w, c, 'reach condition of the wrapped call not derivable', construct='wrapped call')
            continue
        keys = set(atoms_of(reach))
        for kind in ('empty', 'dtype', 'nan'):
            spec = bad_input(kind, keys)
            hints = {'empty': ('len', 'size', 'shape', 'empty'), 'dtype': ('dtype', 'numeric', 'number'), 'nan': ('nan', 'null', 'isna', 'finite')}[kind]
            if spec is None and any(h in k.lower() for k in keys for h in hints):
                rep.undecided('L2.guards', w, c, f'a test that looks like the {kind} guard is present but its form is not recognised: '
                              f'{[k for k in sorted(keys) if any(h in k.lower() for h in hints)][:3]}', construct=f'{kind} guard')
                continue
            opaque = [h_ for h_ in walk_no_nested(w.node) if isinstance(h_, ast.Call) and h_ is not c and h_.lineno <= c.lineno
                      and (prog.resolve(w.module, h_.func) or '') in prog.functions
                      and any(isinstance(x, ast.Raise) and any(isinstance(p_, (ast.For, ast.While)) for p_ in _parents_of(x)) for x in ast.walk(prog.functions[prog.resolve(w.module, h_.func)].node))]
            if spec is None and opaque:
                rep.undecided('L2.guards', w, opaque[0], f'`{short(opaque[0], 40)}` raises from inside a loop over checks that are not literal: whether the {kind} test is among them '
                              'is not derived', construct=f'{kind} guard')
                continue
            if spec is None:
                rep.bad('L2.guards', w, c, f'the wrapped fit is reached without any {kind} test: such input is accepted (or fails late, with the model half-written)',
                        construct=f'{kind} guard')
                continue
            bad, _n = spec
            sat = satisfiable(f_and(reach, bad))
            if sat is None:
                rep.undecided('L2.guards', w, c, f'{kind} guard: too many conditions to enumerate', construct=f'{kind} guard')
            elif not sat:
                # and a ValueError is what stops it
                stops = [rs for rs, rc in raises if satisfiable(f_and(rc, bad))]
                rep.check('L2.guards', w, c, bool(stops), f'the wrapped fit is unreachable when the {kind} check fails (ValueError)',
                          f'{kind}-bad input is stopped, but not by a ValueError', construct=f'{kind} guard')
            else:
                rep.bad('L2.guards', w, c, f'the wrapped fit can be reached with {kind}-bad input (`{show(bad)[:100]}`): reach condition '
                        f'`{show(reach)[:200]}`', construct=f'{kind} guard')
        sp = w.params[0] if w.params else 'self'
        early = [n for n in walk_no_nested(w.node) if isinstance(n, ast.Attribute) and isinstance(n.ctx, ast.Store)
                 and isinstance(n.value, ast.Name) and n.value.id == sp]
        rep.check('L2.guards', w, w.node.name, not early, 'the wrapper writes nothing to self',
                  'the wrapper writes to the model before validation', construct='no self writes')


def _parents_of(node):
    p = getattr(node, '_parent', None)
    while p is not None:
        yield p
        p = getattr(p, '_parent', None)


def _is_value_error(rs):
    if isinstance(rs, ast.Raise) and rs.exc is not None:
        e = rs.exc.func if isinstance(rs.exc, ast.Call) else rs.exc
        return isinstance(e, ast.Name) and e.id == 'ValueError'
    return False


def _weakened(test, pred):
    """If the raising test is a conjunction, return a conjunct that is not the guard predicate itself."""
    if isinstance(test, ast.BoolOp) and isinstance(test.op, ast.And):
        extra = [v for v in test.values if not pred(v)]
        if extra:
            return extra[0]
    return None


# ------------------------------------------------------------------ L3 state carried over
def l3(ctx, rep):
    prog = ctx.prog
    rep.rule('L3a.cond', 'fit leaves no attribute written on some paths only (stale value from an earlier fit)')
    rep.rule('L3b.config', 'fit never overwrites a constructor option')
    rep.rule('L3c.accum', 'every attribute grown in place during fit is re-initialised by that fit')
    mw = MustWrite(ctx)
    fx = get_attr_effects(ctx)
    seen_a, seen_b, seen_c = set(), set(), set()
    n_fit = 0
    for cls in model_classes(prog):
        fit = cls.lookup('fit')
        if fit is None or only_raises(fit) or not [s for s in fit.body() if not isinstance(s, ast.Pass)]:
            continue
        if cls.is_abstract() or not cls.subclasses(strict=False):
            continue
        n_fit += 1
        must = mw.must(cls, fit)
        may = mw.may(cls, fit)
        cfgattrs = config_attrs(ctx, cls)
        for attr in sorted(set(may) - set(must)):
            if attr in cfgattrs:
                continue  # reported by L3b
            f, node = may[attr][0]
            owner = f.cls.qualname if f.cls else cls.qualname
            # report per (defining class of the write, attribute); name the concrete class in the message
            key = (f.qualname, attr)
            if key in seen_a:
                continue
            seen_a.add(key)
            tri = L3A_TRIAGE.get((cls.qualname, attr)) or L3A_TRIAGE.get((owner, attr))
            is_method = cls.lookup(attr) is not None
            msg = (f'self.{attr} is written only on some paths of {cls.name}.fit'
                   + (' (an instance-level method override that a later fit on the other branch does not remove)'
                      if is_method else ' (a later fit taking the other path keeps the stale value)'))
            if tri:
                rep.triaged('L3a.cond', f, node, f'{msg} - triaged: {tri}', construct=f'self.{attr}')
            else:
                rep.bad('L3a.cond', f, node, msg, construct=f'self.{attr}',
                        path=f'{fit.short} -> {f.short}: {short(stmt_of(node), 70)}')
        for attr in sorted(set(may) & set(cfgattrs)):
            for f, node in may[attr]:
                key = (f.qualname, attr)
                if key in seen_b:
                    continue
                seen_b.add(key)
                rep.bad('L3b.config', f, node, f'{cls.name}: fit overwrites the constructor option self.{attr} '
                        f'(set in __init__ from a parameter): a second fit no longer sees what the user configured',
                        construct=f'self.{attr}', path=f'{fit.short} -> {f.short}: {short(stmt_of(node), 70)}', func=cls.qualname.replace('copulas.', '', 1))
        # accumulators
        closure = fx.closure(fit, cls)
        accs = {}
        for f in closure.values():
            for attr, calls in fx.direct(f)['acc'].items():
                accs.setdefault(attr, []).append((f, calls[0]))
        for attr, sites in sorted(accs.items()):
            f, call = sites[0]
            key = (f.qualname, attr)
            if key in seen_c:
                continue
            seen_c.add(key)
            plain = [(g, n) for g, n in may.get(attr, []) if isinstance(getattr(n, '_parent', None), (ast.Assign, ast.Tuple))]
            rep.check('L3c.accum', f, call, attr in must and bool(plain),
                      f'self.{attr} is re-initialised on every path of {cls.name}.fit before it grows',
                      f'self.{attr} grows in place during fit but is not reset by fit: a second fit appends to the '
                      'first fit\'s contents', construct=f'self.{attr}')
    rep.floor('L3a.cond', 'model classes with a fit analysed', n_fit, 15)


# ------------------------------------------------------------------------ L4 np.empty
def l4(ctx, rep, only_functions=None, rule='L4.empty'):
    prog = ctx.prog
    rep.rule(rule, 'every np.empty buffer is completely written before it is read or returned')
    bufs = sorted(empty_buffers(prog), key=lambda b: (b[0].qualname, getattr(b[1], 'lineno', 0), getattr(b[1], 'col_offset', 0)))
    if only_functions is None:
        rep.floor(rule, 'np.empty allocations', len(bufs), 0)
    ordinal = {}
    for fn, st, target, shape in bufs:
        ordinal[fn.qualname] = ordinal.get(fn.qualname, 0) + 1
        k_ = ordinal[fn.qualname]
        if only_functions is not None and fn.qualname not in only_functions:
            continue
        status, why = coverage(prog, fn, st, target, shape)
        tname = short(target) if target is not None else '?'
        why = f'`{tname}`: {why}'
        tname = f'buffer {k_}' if not (isinstance(target, ast.Attribute) and is_self_attr(target, fn.self_name)) else tname
        if status == 'uncovered' and isinstance(target, ast.Attribute) and is_self_attr(target, fn.self_name) and fn.cls is not None:
            # a buffer held on self may be filled by a private helper of the class (called after the allocation)
            from ..idioms import private_closure
            helpers = [g for g in private_closure(ctx, fn, fn.cls) if g is not fn]
            fills = [x for g in helpers for x in walk_no_nested(g.node) if isinstance(x, ast.Subscript) and isinstance(x.ctx, ast.Store)
                     and is_self_attr(x.value, g.self_name, target.attr)]
            if fills:
                status, why = 'unknown', f'self.{target.attr} is filled by a helper ({len(fills)} element store(s)): its coverage is not derived'
        if status == 'covered':
            rep.ok(rule, fn, st, why, construct=f'{tname} = np.empty')
        elif status == 'enumerate' and (fn.short, k_) in L4_ENUMERATE_TRIAGE:
            rep.triaged(rule, fn, st, L4_ENUMERATE_TRIAGE[(fn.short, k_)], construct=f'{tname} = np.empty')
        elif (fn.short, k_) in L4_TRIAGE and status == 'uncovered':
            rep.triaged(rule, fn, st, L4_TRIAGE[(fn.short, k_)], construct=f'{tname} = np.empty')
        elif status == 'unknown':
            rep.undecided(rule, fn, st, why, construct=f'{tname} = np.empty')
        else:
            rep.bad(rule, fn, st, f'uninitialised memory can be read: {why}', construct=f'{tname} = np.empty')


# ------------------------------------------------------------------------- L5 fit purity
def l5(ctx, rep):
    prog = ctx.prog
    rng = get_rng(ctx)
    rep.rule('L5.pure', 'no function reachable from a fit() consumes the global random generator')
    fits = [c.lookup('fit') for c in model_classes(prog)]
    fits = sorted({f.qualname: f for f in fits if f is not None}.values(), key=lambda f: f.qualname)
    closure = ctx.cg.closure(fits)
    n = 0
    for q, fn in sorted(closure.items()):
        for s in rng.sites.get(q, ()):
            if s.kind != 'consume':
                continue
            # sampling code reachable only because of by-name resolution is not a fit path
            if fn.name in ('sample', '_sample_row', '_get_normal_samples') or fn.module.name == 'copulas.datasets':
                continue
            n += 1
            # keyed by the fit entry point of the class that owns the site and by the kind of consumption, so that moving the
            # call into a helper or renaming a temporary does not turn a recorded finding into a "new" one
            owner = fn.cls
            if owner is None:
                callers = [g for g in closure.values() if g.cls is not None and any(t.kind == 'proj' and t.fn is fn for c in walk_no_nested(g.node)
                                                                                     if isinstance(c, ast.Call) for t in ctx.cg.targets(g, c))]
                owner = callers[0].cls if callers else None
            entry = owner.lookup('fit') if owner is not None else None
            key_fn = entry if entry is not None else fn
            where = f'{fn.short} line {s.call.lineno}: `{short(s.call, 60)}`'
            rep.bad('L5.pure', key_fn, s.call, f'{s.what} during fit ({where}): two equal fresh models fitted on the same data differ, '
                    'and fitting advances the global generator', construct=f'{owner.name if owner is not None else fn.short}: {s.what} during fit')
    for f in fits:
        rep.ok('L5.pure', f, f.node.name, 'closure scanned', construct='def fit') if not rng.consumes_unscoped(f) else None
    rep.floor('L5.pure', 'fit entry points', len(fits), 5)


# ----------------------------------------------------------------------------- L8 shared module-level models
def l8(ctx, rep):
    """A model instance created at import time and fitted / re-parameterised by a library function is shared by every caller:
    results handed out earlier change under the caller's feet and two calls are no longer independent."""
    prog = ctx.prog
    rep.rule('L8.shared', 'no model instance created at module level is fitted or re-parameterised by a library function (every call works on its own objects)')
    model_qs = {c.qualname for c in prog.classes.values() if c.lookup('fit') is not None}
    shared = {}  # (module name, global name) -> assignment
    for mod in prog.modules.values():
        for st in mod.tree.body:
            if isinstance(st, ast.Assign) and len(st.targets) == 1 and isinstance(st.targets[0], ast.Name):
                calls = [c for c in ast.walk(st.value) if isinstance(c, ast.Call) and (prog.resolve(mod, c.func) or '') in model_qs]
                if calls:
                    shared[(mod.name, st.targets[0].id)] = st
    n = 0
    for (mname, gname), st in sorted(shared.items()):
        n += 1
        mutated = None
        for fn in prog.functions.values():
            if fn.module.name != mname and not any(isinstance(x, ast.Name) and x.id == gname for x in ast.walk(fn.node)):
                continue
            if any(isinstance(x, ast.Name) and x.id == gname and isinstance(x.ctx, ast.Store) for x in ast.walk(fn.node)):
                continue  # a local of the same name
            derived = set()
            for s_ in walk_no_nested(fn.node):
                src = None
                if isinstance(s_, ast.Assign):
                    src, tg = s_.value, s_.targets
                elif isinstance(s_, ast.For):
                    src, tg = s_.iter, [s_.target]
                else:
                    continue
                if any(isinstance(x, ast.Name) and (x.id == gname or x.id in derived) for x in ast.walk(src)):
                    for t in tg:
                        for x in ast.walk(t):
                            if isinstance(x, ast.Name):
                                derived.add(x.id)
            names = derived | {gname}
            for x in walk_no_nested(fn.node):
                recv = None
                if isinstance(x, ast.Call) and isinstance(x.func, ast.Attribute) and isinstance(x.func.value, ast.Name) and x.func.value.id in names \
                        and (x.func.attr in ('fit', 'set_random_state', '_set_params') or x.func.attr.startswith('_compute')):
                    recv = x
                if isinstance(x, ast.Attribute) and isinstance(x.ctx, ast.Store) and isinstance(x.value, ast.Name) and x.value.id in names:
                    recv = x
                if recv is not None and mutated is None:
                    mutated = (fn, recv)
        cons = f'{mname.replace("copulas.", "", 1)}.{gname}: module-level model instance'
        if mutated:
            rep.bad('L8.shared', mutated[0], mutated[1], f'{mutated[0].short} fits / re-parameterises an instance held in the module-level `{gname}` (created once at import, '
                    f'line {st.lineno}): every call works on the same objects, so a result returned earlier is overwritten by a later call', construct=cons)
        else:
            rep.ok('L8.shared', mname.replace('copulas.', '', 1), None, f'`{gname}` holds model instances created at import time; no library function fits or writes them', construct=cons)
    if n == 0:
        rep.ok('L8.shared', 'package', None, 'no model instance is created at module level', construct='module-level model instances')


# ----------------------------------------------------------------------------- L7 memoisation
MEMO_DECORATORS = ('functools.lru_cache', 'functools.cache', 'functools.cached_property', 'cachetools.cached', 'cachetools.cachedmethod')


def l7(ctx, rep):
    """A value derived from fitted state and kept on the instance (or in a per-instance cache) must be discarded when the
    fitted state is rewritten: otherwise a refitted / re-parameterised model answers from the previous state."""
    prog = ctx.prog
    fx = get_attr_effects(ctx)
    mw = MustWrite(ctx)
    rep.rule('L7.memo', 'no query method memoises a value that depends on fitted state unless every fit resets it (lru_cache / cached_property on such '
             'a method, or a lazily filled attribute that fit does not rewrite)')
    n = 0
    seen = set()
    for cls in model_classes(prog):
        F = fitted_state(ctx, cls) | {'theta', 'tau'} if cls.lookup('compute_theta') is not None else fitted_state(ctx, cls)
        fit = cls.lookup('fit')
        fit_closure = set(fx.closure(fit, cls)) if fit is not None else set()
        fit_must = mw.must(cls, fit) if fit is not None else frozenset()
        writers_of_F = set(fit_closure)
        for nm in ('_compute_theta', 'from_dict', '_set_params', 'set_params', 'set_random_state'):
            m_ = cls.lookup(nm)
            if m_ is not None:
                writers_of_F |= set(fx.closure(m_, cls))
        methods = {}
        for c in cls.mro():
            for name, m in c.methods.items():
                methods.setdefault(name, m)
        for name, m in sorted(methods.items()):
            if m.kind != 'method' or not m.self_name or name.startswith('__') or m.qualname in writers_of_F:
                continue
            reads, _w = fx.transitive(m, cls)
            dep = sorted(set(reads) & F)
            # (a) decorator caches keyed by (self, args)
            memo = [d for d in m.decorators if d in MEMO_DECORATORS or d.split('.')[-1] in ('lru_cache', 'cache', 'cached_property', 'memoize')]
            for d_ in m.node.decorator_list:
                nm_ = prog.resolve(m.module, d_.func if isinstance(d_, ast.Call) else d_) or ''
                if nm_ in MEMO_DECORATORS and nm_ not in memo:
                    memo.append(nm_)
            key = (m.qualname,)
            if memo and key not in seen:
                seen.add(key)
                n += 1
                if dep:
                    rep.bad('L7.memo', m, m.node.name, f'{memo[0]} caches {m.short} per (instance, arguments) but its result depends on self.{dep[0]}'
                            f'{" and " + str(len(dep) - 1) + " more fitted attribute(s)" if len(dep) > 1 else ""}: after fit / a new theta the cached values of the '
                            'previous state are returned', construct=f'{m.short}: memoised')
                else:
                    rep.ok('L7.memo', m, m.node.name, f'{memo[0]}: the result does not depend on fitted state', construct=f'{m.short}: memoised')
            # (b) lazily filled attributes
            d = fx.direct(m)
            for attr, nodes in sorted(d['writes'].items()):
                if attr in F or cls.lookup(attr) is not None or attr in ('random_state',):
                    continue
                for node in nodes:
                    st = node
                    while st is not None and not isinstance(st, ast.stmt):
                        st = getattr(st, '_parent', None)
                    if not isinstance(st, ast.Assign):
                        continue
                    # what the stored value depends on: self attributes read directly or through self-method calls
                    vdeps = set()
                    # the stored expression with its local temporaries resolved (covariance = self.correlation.to_numpy(); self._c = f(covariance))
                    from ..idioms import assignments as _assignments
                    exprs, seen_names = [st.value], set()
                    for _round in range(3):
                        for e_ in list(exprs):
                            for x in ast.walk(e_):
                                if isinstance(x, ast.Name) and isinstance(x.ctx, ast.Load) and x.id not in seen_names and x.id not in m.params:
                                    seen_names.add(x.id)
                                    exprs += [a.value for a in _assignments(m.node, x.id) if isinstance(a, ast.Assign) and a.value is not None]
                    for x in [y for e_ in exprs for y in ast.walk(e_)]:
                        if is_self_attr(x, m.self_name) and isinstance(x.ctx, ast.Load):
                            par = getattr(x, '_parent', None)
                            if isinstance(par, ast.Call) and par.func is x:
                                callee = cls.lookup(x.attr)
                                if callee is not None:
                                    r2, _ = fx.transitive(callee, cls)
                                    vdeps |= set(r2)
                            else:
                                vdeps.add(x.attr)
                    vdep = sorted(vdeps & F)
                    k2 = (cls.qualname, m.qualname, attr)
                    if not vdep or k2 in seen:
                        continue
                    seen.add(k2)
                    n += 1
                    reset = attr in fit_must
                    rep.check('L7.memo', m, st, reset, f'self.{attr} (derived from self.{vdep[0]}) is rewritten by every fit',
                              f'{m.short} keeps self.{attr}, computed from self.{vdep[0]}, on the instance, and fit / _compute_theta never reset it: '
                              'after a refit or a new theta the value of the previous state is used', construct=f'{cls.name}.{attr}: derived from fitted state')
    if n == 0:
        rep.ok('L7.memo', prog.functions[next(iter(prog.functions))], 'package', 'no memoised method and no lazily filled attribute derived from fitted state in any model class',
               construct='memoisation sites')


# ----------------------------------------------------------------------------- L6 cloning
def l6(ctx, rep, rule='L6.clone'):
    prog = ctx.prog
    rep.rule(rule, 'get_instance returns a freshly constructed object on every branch; every configurable __init__ records its arguments (@store_args)')
    gi = prog.func('copulas.utils.get_instance')
    obj = gi.params[0]
    rets = [n for n in walk_no_nested(gi.node) if isinstance(n, ast.Return)]
    from ..absint import BOT, TOP, AbsInt, Frame

    class Fresh(AbsInt):
        def const(self, node, fr):
            return 'none' if getattr(node, 'value', 0) is None else 'const'

        def param(self, name, fr):
            return 'param:' + name

        def call(self, node, fr):
            f = node.func
            # obj(**kwargs), obj.__class__(...), getattr(module, name)(...)
            if isinstance(f, ast.Name) and f.id == obj:
                return 'fresh'
            if isinstance(f, ast.Attribute) and f.attr == '__class__':
                return 'fresh'
            if isinstance(f, ast.Call) and call_name(f) == 'getattr':
                return 'fresh'
            if isinstance(f, ast.Call) and call_name(f) == 'type':
                return 'fresh'
            if call_name(node) in ('deepcopy', 'copy'):
                return 'copy'
            return TOP

        def join_distinct(self, a, b):
            return ('join', tuple(sorted({str(a), str(b)})))

    ev = Fresh(ctx)
    fr = Frame(gi)
    for r in rets:
        v = ev.value(r.value, fr) if r.value is not None else 'none'
        flat = set()

        def flatten(x):
            if isinstance(x, tuple) and x and x[0] == 'join':
                for y in x[1]:
                    flat.add(y)
            else:
                flat.add(str(x))
        flatten(v)
        # the `instance = None` initialiser is dead when every branch assigns
        flat.discard('none')
        bad = [x for x in flat if x != 'fresh']
        if v is TOP or 'TOP' in flat:
            rep.undecided(rule, gi, r, 'returned value not derivable')
        else:
            rep.check(rule, gi, r, not bad, 'every branch returns the result of a constructor call',
                      f'a branch returns {bad} instead of a new object: callers fit/mutate the prototype itself')
    # cloning of a prototype instance uses __args__/__kwargs__
    uses = {call_name(c): c for c in walk_no_nested(gi.node) if isinstance(c, ast.Call) and call_name(c) == 'getattr'
            and len(c.args) >= 2 and isinstance(c.args[1], ast.Constant)}
    from ..idioms import private_closure
    recorded = set()
    for g in private_closure(ctx, gi):
        recorded |= {c.args[1].value for c in walk_no_nested(g.node) if isinstance(c, ast.Call) and call_name(c) == 'getattr'
                     and len(c.args) >= 2 and isinstance(c.args[1], ast.Constant)}
        recorded |= {a.attr for a in walk_no_nested(g.node) if isinstance(a, ast.Attribute) and isinstance(a.ctx, ast.Load) and a.attr in ('__args__', '__kwargs__')}
    rep.check(rule, gi, gi.node.name, {'__args__', '__kwargs__'} <= recorded,
              'prototype instances are cloned from their recorded __args__/__kwargs__',
              'a prototype instance is no longer cloned from its recorded constructor arguments',
              construct='getattr(obj, __args__/__kwargs__)')
    SA = 'copulas.utils.store_args'
    n = 0
    for rootq in ('copulas.univariate.base.Univariate', 'copulas.multivariate.base.Multivariate'):
        root = prog.cls(rootq)
        for c in root.subclasses(strict=False):
            init = c.methods.get('__init__')
            if init is None:
                continue
            opts = [p for p in init.params[1:] + init.kwonly if p != 'random_state']
            if not opts:
                continue
            n += 1
            rep.check(rule, init, init.node.name, SA in init.decorators,
                      f'@store_args records {opts}',
                      f'{c.name}.__init__ takes options {opts} but does not record them: get_instance(prototype) '
                      'silently drops the configuration', construct=f'{c.name}.__init__')
    rep.floor(rule, 'configurable __init__ methods', n, 5)
    sa = prog.func(SA)
    inner = [f for f in prog.functions.values() if f.outer is sa]
    if inner:
        from ..inline import inlined_view
        w = inlined_view(ctx, inner[0])           # the recording may sit in a straight-line private helper
        handed = [c_ for c_ in walk_no_nested(w.node) if isinstance(c_, ast.Call) and any(isinstance(a_, ast.Name) and a_.id == (w.params[0] if w.params else None) for a_ in c_.args)
                  and (prog.resolve(w.module, c_.func) or '') in prog.functions]
        stores = set()
        for n_ in walk_no_nested(w.node):
            if isinstance(n_, ast.Assign):
                for t in n_.targets:
                    for e in (t.elts if isinstance(t, (ast.Tuple, ast.List)) else [t]):
                        if isinstance(e, ast.Attribute):
                            stores.add(e.attr)
            if isinstance(n_, ast.Call) and isinstance(n_.func, ast.Name) and n_.func.id == 'setattr' and len(n_.args) >= 2 \
                    and isinstance(n_.args[1], ast.Constant):
                stores.add(n_.args[1].value)
        dynamic = any(isinstance(n_, ast.Call) and isinstance(n_.func, ast.Name) and n_.func.id == 'setattr' and len(n_.args) >= 2
                      and not isinstance(n_.args[1], ast.Constant) for n_ in walk_no_nested(w.node)) \
            or any(isinstance(n_, ast.Call) and isinstance(n_.func, ast.Attribute) and n_.func.attr == 'update' and isinstance(n_.func.value, ast.Attribute)
                   and n_.func.value.attr == '__dict__' for n_ in walk_no_nested(w.node))
        filtered = [x for x in walk_no_nested(w.node) if isinstance(x, (ast.DictComp, ast.ListComp, ast.GeneratorExp)) and any(g_.ifs for g_ in x.generators)
                    and any(isinstance(n_, ast.Name) and n_.id in (w.kwarg, w.vararg) for g_ in x.generators for n_ in ast.walk(g_.iter))]
        if filtered:
            rep.bad(rule, w, filtered[0], f'`{short(filtered[0], 70)}` records only some of the constructor arguments: an option whose value fails the filter (0, False, an empty container) is '
                    'missing from the clone that get_instance builds', construct='store_args wrapper')
        elif {'__args__', '__kwargs__'} <= stores:
            rep.ok(rule, w, w.node.name, 'store_args sets __args__ and __kwargs__', construct='store_args wrapper')
        elif dynamic:
            rep.undecided(rule, w, w.node.name, 'store_args sets attributes under computed names: which ones is not derived', construct='store_args wrapper')
        elif handed:
            rep.undecided(rule, w, handed[0], f'the instance is handed to `{short(handed[0].func, 40)}`, which was not followed: whether it records the arguments is not derived',
                          construct='store_args wrapper')
        else:
            rep.bad(rule, w, w.node.name, 'store_args no longer records both argument sets', construct='store_args wrapper')


# ----------------------------------------------------------------------------- L9 the fitted flag is the last thing a fit writes
def l9(ctx, rep):
    """`self.fitted = True` must not be followed by another step of the fit: if that step raises (a singular table, an
    unsupported column), the model is left half-written but no longer answers queries with NotFittedError."""
    prog = ctx.prog
    rep.rule('L9.last', 'in every fit, `self.fitted = True` is followed by no further state write and no call that can raise: a fit that fails leaves the model unfitted')
    n = 0
    for fn in sorted(prog.functions.values(), key=lambda f: f.qualname):
        if fn.cls is None or fn.kind != 'method' or fn.name != 'fit' or not fn.self_name:
            continue
        sets = [s_ for s_ in walk_no_nested(fn.node) if isinstance(s_, ast.Assign) and any(is_self_attr(t, fn.self_name, 'fitted') for t in s_.targets)
                and not (isinstance(s_.value, ast.Constant) and not s_.value.value)]
        if not sets:
            continue
        cfg = CFG(fn.node)
        for st in sets:
            n += 1
            start = cfg.node_of(st)
            if start is None:
                rep.undecided('L9.last', fn, st, 'the statement is not a node of the control-flow graph', construct=f'{fn.cls.name}.fit: after fitted = True')
                continue
            seen, todo, later = set(), list(cfg.successors(start, exceptional=False)), []
            while todo:
                x = todo.pop()
                if x.id in seen or x is start:
                    continue
                seen.add(x.id)
                if x.ast is not None:
                    later.append(x.ast)
                todo.extend(cfg.successors(x, exceptional=False))
            offender = None
            for a in later:
                hdr = header_exprs(a) if isinstance(a, (ast.If, ast.For, ast.While, ast.With, ast.Try)) else [a]
                for h in hdr:
                    for x in ast.walk(h):
                        if isinstance(x, ast.Attribute) and isinstance(x.ctx, ast.Store) and is_self_attr(x, fn.self_name) and x.attr != 'fitted':
                            offender = offender or (x, f'writes self.{x.attr}')
                        if isinstance(x, ast.Call):
                            tg = [t for t in ctx.cg.targets(fn, x) if t.kind == 'proj']
                            if tg:
                                offender = offender or (x, f'calls {tg[0].fn.short}')
                            elif isinstance(x.func, ast.Attribute) and is_self_attr(x.func.value, fn.self_name):
                                pass
            if offender:
                rep.bad('L9.last', fn, st, f'{fn.short} sets fitted = True and then {offender[1]} (`{short(offender[0], 50)}`): if that step raises, the model claims to be fitted '
                        'and queries no longer raise NotFittedError', construct=f'{fn.cls.name}.fit: after fitted = True')
            else:
                rep.ok('L9.last', fn, st, 'nothing that can fail follows the flag', construct=f'{fn.cls.name}.fit: after fitted = True')
    if n == 0:
        rep.undecided('L9.last', prog.method('copulas.multivariate.base.Multivariate', 'check_fit'), 'fit', 'no fit assigns self.fitted directly', construct='fitted flag')


# ----------------------------------------------------------------------------- L10 memo tables are keyed by everything the value depends on
def _sources(fn, e, seen=None):
    """What the value of e depends on, in terms of parameters of fn (`p`), attributes of parameters (`p.attr`) and *pieces*: a
    local bound by tuple-unpacking a call (`package, name = q.rsplit('.', 1)`) is a source of its own - two pieces of one input
    are different information.  In-place growth of a local (`A.update(x)`, `A.add(x)`, `A.append(x)`) adds the sources of x."""
    seen = seen if seen is not None else set()
    out = set()
    skip = set()
    for x in ast.walk(e):
        if isinstance(x, ast.Attribute) and isinstance(x.value, ast.Name) and x.value.id in fn.params and isinstance(x.ctx, ast.Load):
            out.add(f'{x.value.id}.{x.attr}')
            skip.add(id(x.value))
    for x in ast.walk(e):
        if not (isinstance(x, ast.Name) and isinstance(x.ctx, ast.Load)) or id(x) in skip:
            continue
        if x.id in fn.params:
            out.add(x.id)
            continue
        if x.id in seen:
            continue
        defs = []
        piece = False
        for a in walk_no_nested(fn.node):
            if isinstance(a, ast.Assign):
                for t in a.targets:
                    if isinstance(t, ast.Name) and t.id == x.id:
                        defs.append(a.value)
                    elif isinstance(t, (ast.Tuple, ast.List)) and any(isinstance(y, ast.Name) and y.id == x.id for y in t.elts):
                        if isinstance(a.value, (ast.Tuple, ast.List)) and len(a.value.elts) == len(t.elts):
                            defs.append(a.value.elts[[getattr(y, 'id', None) for y in t.elts].index(x.id)])
                        else:
                            piece = True
            elif isinstance(a, (ast.For, ast.comprehension)) and any(isinstance(y, ast.Name) and y.id == x.id for y in ast.walk(a.target)):
                piece = True
            elif isinstance(a, ast.Call) and isinstance(a.func, ast.Attribute) and isinstance(a.func.value, ast.Name) and a.func.value.id == x.id \
                    and a.func.attr in ('update', 'add', 'append', 'extend', 'insert', 'setdefault'):
                defs.extend(a.args)
            elif isinstance(a, ast.AugAssign) and isinstance(a.target, ast.Name) and a.target.id == x.id:
                defs.append(a.value)
        if piece:
            out.add(x.id)
        for d in defs:
            out |= _sources(fn, d, seen | {x.id})
    return out


def l10(ctx, rep):
    """A table that outlives a call (module level, class level) and is filled by a library function is a memo: the stored value
    must be determined by the key, i.e. every piece of input the value is computed from also feeds the key."""
    prog = ctx.prog
    rep.rule('L10.memokey', 'a module- or class-level table filled by a library function is keyed by every input its stored value depends on')
    tables = {}
    for mod in prog.modules.values():
        for st in mod.tree.body:
            if isinstance(st, ast.Assign) and len(st.targets) == 1 and isinstance(st.targets[0], ast.Name) \
                    and (isinstance(st.value, ast.Dict) and not st.value.keys or (isinstance(st.value, ast.Call) and call_name(st.value) in ('dict', 'OrderedDict', 'defaultdict', 'WeakValueDictionary'))):
                tables[(mod.name, st.targets[0].id)] = st
    def empty_table(v):
        return (isinstance(v, ast.Dict) and not v.keys) or (isinstance(v, ast.Call) and call_name(v) in ('dict', 'OrderedDict', 'defaultdict', 'WeakValueDictionary'))
    for c in prog.classes.values():
        for an, av in c.attrs.items():
            if empty_table(av):
                tables[(c.module.name, f'{c.name}.{an}')] = av
    n = 0
    for fn in sorted(prog.functions.values(), key=lambda f: f.qualname):
        for s_ in walk_no_nested(fn.node):
            key = val = name = None
            base = None
            if isinstance(s_, ast.Assign) and len(s_.targets) == 1 and isinstance(s_.targets[0], ast.Subscript):
                base, key, val = s_.targets[0].value, s_.targets[0].slice, s_.value
            elif isinstance(s_, ast.Expr) and isinstance(s_.value, ast.Call) and isinstance(s_.value.func, ast.Attribute) and s_.value.func.attr == 'setdefault' \
                    and len(s_.value.args) == 2:
                base, key, val = s_.value.func.value, s_.value.args[0], s_.value.args[1]
            if isinstance(base, ast.Name):
                name = base.id
            elif isinstance(base, ast.Attribute) and isinstance(base.value, ast.Name):
                owner = base.value.id
                k_ = None
                if fn.cls is not None and owner in (fn.self_name, 'cls', fn.cls.name):
                    hit = fn.cls.lookup_attr(base.attr)
                    k_ = hit[0] if hit is not None else None
                elif prog.resolve(fn.module, base.value) in prog.classes:
                    hit = prog.classes[prog.resolve(fn.module, base.value)].lookup_attr(base.attr)
                    k_ = hit[0] if hit is not None else None
                if k_ is not None:
                    name = f'{k_.name}.{base.attr}'
                    if (k_.module.name, name) in tables and k_.module.name != fn.module.name:
                        tables[(fn.module.name, name)] = tables[(k_.module.name, name)]
            if name is None or (fn.module.name, name) not in tables:
                continue
            if '.' not in name and any(isinstance(x, ast.Name) and x.id == name and isinstance(x.ctx, ast.Store) for x in walk_no_nested(fn.node)):
                continue  # a local of the same name
            n += 1
            ks, vs = _sources(fn, key), _sources(fn, val)

            def origin(piece):
                """What a tuple-unpacked piece was cut out of: a piece is covered by a key that contains the whole."""
                out = set()
                for a in walk_no_nested(fn.node):
                    if isinstance(a, ast.Assign) and any(isinstance(t, (ast.Tuple, ast.List)) and any(isinstance(y, ast.Name) and y.id == piece for y in t.elts) for t in a.targets):
                        out |= {x.id for x in ast.walk(a.value) if isinstance(x, ast.Name) and isinstance(x.ctx, ast.Load) and (x.id in fn.params or x.id in ks)}
                return out
            missing = sorted(p_ for p_ in vs - ks if not (origin(p_) and origin(p_) <= ks) and not ('.' in p_ and p_.split('.')[0] in ks))
            cons = f'{fn.module.name.replace("copulas.", "", 1)}.{name}: memo key'
            if missing:
                rep.bad('L10.memokey', fn, s_, f'`{short(s_, 70)}`: the stored value depends on {missing} but the key only on {sorted(ks)}: a later call that differs in '
                        f'{missing[0]} gets the value computed for an earlier one', construct=cons)
            else:
                rep.ok('L10.memokey', fn, s_, f'key covers the inputs of the value ({sorted(vs)})', construct=cons)
    if n == 0:
        rep.ok('L10.memokey', prog.func('copulas.utils.get_instance'), 'get_instance', f'no library function fills a module-level table ({len(tables)} module-level dicts)', construct='module-level tables')


# ----------------------------------------------------------------------------- L11 class-level containers are not written through an instance
def l11(ctx, rep):
    """A dict / list / set written in the class body is one object shared by every instance.  A method that stores it into an
    instance attribute without copying and then writes into that attribute in place changes the state of every other instance
    that went through the same method (and of the class itself)."""
    prog = ctx.prog
    rep.rule('L11.classstate', 'no method binds a class-level mutable container to an instance attribute (without a copy) that a method of the class writes in place')
    fx = get_attr_effects(ctx)
    n = 0
    for c in sorted(prog.classes.values(), key=lambda k: k.qualname):
        for m in c.methods.values():
            if not m.self_name:
                continue
            for a in walk_no_nested(m.node):
                if not (isinstance(a, ast.Assign) and len(a.targets) == 1 and is_self_attr(a.targets[0], m.self_name)):
                    continue
                v = a.value
                if not (isinstance(v, ast.Attribute) and isinstance(v.value, ast.Name) and v.value.id in (m.self_name, 'cls', c.name)):
                    continue
                hit = c.lookup_attr(v.attr)
                if hit is None or not isinstance(hit[1], (ast.Dict, ast.List, ast.Set)):
                    continue
                n += 1
                attr = a.targets[0].attr
                # in-place writes into self.<attr> anywhere in the class hierarchy below the owner
                writers = []
                for k in c.subclasses(strict=False):
                    for m2 in k.methods.values():
                        if not m2.self_name:
                            continue
                        for x in walk_no_nested(m2.node):
                            if isinstance(x, ast.Subscript) and isinstance(x.ctx, (ast.Store, ast.Del)) and is_self_attr(x.value, m2.self_name, attr):
                                writers.append((m2, x))
                            if isinstance(x, ast.Call) and isinstance(x.func, ast.Attribute) and is_self_attr(x.func.value, m2.self_name, attr) \
                                    and x.func.attr in ('update', 'pop', 'popitem', 'clear', 'setdefault', 'append', 'extend', 'insert', 'remove', 'add', 'discard', 'sort'):
                                writers.append((m2, x))
                cons = f'{c.name}.{v.attr} shared through self.{attr}'
                if writers:
                    w_m, w_x = writers[0]
                    rep.bad('L11.classstate', m, a, f'`{short(a, 60)}` binds the class-level {type(hit[1]).__name__.lower()} `{v.attr}` (one object for all instances) to self.{attr}, '
                            f'and {w_m.short} writes into it in place (`{short(w_x, 50)}`): fitting one model changes the stored state of every other one', construct=cons)
                else:
                    rep.ok('L11.classstate', m, a, f'self.{attr} aliases the class-level `{v.attr}` but nothing writes into it in place', construct=cons)
    if n == 0:
        rep.ok('L11.classstate', prog.method('copulas.univariate.base.Univariate', 'fit'), 'classes', 'no class-level mutable container is bound to an instance attribute', construct='class-level containers')


def l12(ctx, rep):
    """The hooks that produce the fitted parameters (`_fit`, `_fit_constant`) compute them from X and the constructor options: a read of
    `self._params` before the hook (or a self-method it calls) has assigned it reads what the PREVIOUS fit left - or, before any fit, a
    class-level default that every instance shares."""
    prog = ctx.prog
    mw = MustWrite(ctx)
    rep.rule('L12.history', 'no parameter-producing hook (_fit / _fit_constant) reads or updates self._params before assigning it: the fitted parameters do not depend on an earlier fit '
             'and are not written into a dict shared through the class')
    n = 0
    for cls in model_classes(prog):
        for hname in ('_fit', '_fit_constant'):
            m = cls.methods.get(hname)
            if m is None or not m.self_name:
                continue
            n += 1
            first_store = None
            for st in sorted([x for x in walk_no_nested(m.node) if isinstance(x, (ast.Assign, ast.Expr))], key=lambda x: (x.lineno, x.col_offset)):
                if isinstance(st, ast.Assign) and any(is_self_attr(t, m.self_name, '_params') for t in st.targets):
                    first_store = first_store or st
                elif isinstance(st, ast.Expr) and isinstance(st.value, ast.Call) and is_self_attr(st.value.func, m.self_name):
                    callee = cls.lookup(st.value.func.attr)
                    if callee is not None and '_params' in mw.must(cls, callee):
                        first_store = first_store or st
            pos0 = (first_store.lineno, first_store.col_offset) if first_store is not None else (10 ** 9, 0)
            early = [x for x in walk_no_nested(m.node) if is_self_attr(x, m.self_name, '_params') and isinstance(x.ctx, ast.Load) and (x.lineno, x.col_offset) < pos0
                     and not (first_store is not None and any(y is x for y in ast.walk(first_store)))]
            cons = f'{cls.name}.{hname}: parameters computed afresh'
            if early:
                x = early[0]
                par = getattr(x, '_parent', None)
                write = isinstance(par, ast.Subscript) and isinstance(par.ctx, ast.Store)
                what = 'writes into the existing self._params dict' if write else 'reads self._params'
                rep.bad('L12.history', m, stmt_of(x), f'{cls.name}.{hname} {what} before assigning it: the value is what the previous fit left (a re-fitted model differs from a fresh one), or a '
                        'class-level dict that all instances share', construct=cons)
            else:
                rep.ok('L12.history', m, m.node.name, 'self._params is assigned before it is read', construct=cons)
    rep.floor('L12.history', 'parameter-producing hooks', n, 10)
