"""C17 - vine pair-copula data flow, likelihood and sampling are coherent (PARTIAL)."""

import ast

from .. import contracts as K
from ..absint import TOP, Frame
from ..effects import RANDOM_STATE_DECORATOR
from ..idioms import single_def, stmt_of
from ..kinds import LenKind, RankKind
from ..model import AnalysisError, PrivateAnchorMissing, call_name, const_value, is_self_attr, kwarg, short, walk_no_nested
from .c15 import get_rng
from .c19 import l4

VINE = 'copulas.multivariate.vine.VineCopula'
TREE = 'copulas.multivariate.tree.'


def accessor_pattern(prog, fn, ctx=None, _depth=0):
    """Recognise the level-1 / deeper accessor of (left_u, right_u) in a Tree method (or in the private helper it
    delegates to).  Returns dict(level1={name: 'L'|'R'}, deeper=..., via=<helper name or None>)."""
    res = {'level1': None, 'deeper': None, 'via': None}
    if ctx is not None and _depth == 0:
        from ..idioms import private_closure
        for g in private_closure(ctx, fn, fn.cls)[1:]:
            sub = accessor_pattern(prog, g, None, 1)
            if sub['level1'] is not None or sub['deeper']:
                own = accessor_pattern(prog, fn, None, 1)
                if own['level1'] is None and not own['deeper']:
                    sub['via'] = g.name
                    return sub
    for n in walk_no_nested(fn.node):
        if isinstance(n, ast.If) and isinstance(n.test, ast.Compare) and is_self_attr(n.test.left, fn.self_name, 'level') \
                and const_value(n.test.comparators[0]) == 1 and isinstance(n.test.ops[0], ast.Eq):
            l1 = {}
            for s in n.body:
                if isinstance(s, ast.Assign) and isinstance(s.targets[0], ast.Name) and isinstance(s.value, ast.Subscript) \
                        and is_self_attr(s.value.value, fn.self_name, 'u_matrix') and isinstance(s.value.slice, ast.Tuple):
                    col = s.value.slice.elts[1]
                    if isinstance(col, ast.Attribute):
                        l1[s.targets[0].id] = col.attr
            res['level1'] = l1
            deeper = False
            # the "else" part may be the orelse or, after an early return, the statements that follow the if
            rest = list(n.orelse)
            if not rest and any(isinstance(x, ast.Return) for x in n.body):
                par = n._parent
                body = getattr(par, 'body', [])
                if n in body:
                    rest = body[body.index(n) + 1:]
            for s in rest:
                if isinstance(s, ast.Return) and isinstance(s.value, ast.Call) and call_name(s.value) == 'get_conditional_uni':
                    a = s.value.args
                    names = [getattr(x, 'id', None) for x in a]
                    unpack = [t for t in rest if isinstance(t, ast.Assign) and isinstance(t.targets[0], ast.Tuple)
                              and isinstance(t.value, ast.Attribute) and t.value.attr == 'parents']
                    if unpack and [getattr(e, 'id', None) for e in unpack[0].targets[0].elts] == names:
                        deeper = ['left_u', 'right_u']
            for s in rest:
                if isinstance(s, ast.Assign) and isinstance(s.value, ast.Call) and call_name(s.value) == 'get_conditional_uni':
                    a = s.value.args
                    names = [getattr(x, 'id', None) for x in a]
                    # the arguments are the edge's (left_parent, right_parent) = edge.parents in order
                    unpack = [t for t in n.orelse if isinstance(t, ast.Assign) and isinstance(t.targets[0], ast.Tuple)
                              and isinstance(t.value, ast.Attribute) and t.value.attr == 'parents']
                    if unpack and [getattr(e, 'id', None) for e in unpack[0].targets[0].elts] == names:
                        deeper = [getattr(e, 'id', None) for e in s.targets[0].elts] if isinstance(s.targets[0], ast.Tuple) else False
            res['deeper'] = deeper
    return res


def run(ctx, rep):
    prog = ctx.prog
    rep.trust(*K.TRUSTED_BASE_COMMON, 'NumPy >= 2: storing a size-1 array into one element raises', 'Edge.U = [h(left | right), h(right | left)]')
    rep.notes.append('C17 PARTIAL: decides that copula selection, h-function computation and tau computation read an edge\'s inputs through '
                     'the same accessor, the 0/1 correction and layout of the stored h-functions, that a pair copula is always rebuilt '
                     'from the family and theta of the same edge, the likelihood recursion (log of the pair density per edge, matrix '
                     'handed from tree to tree, rank-0 stores), determinism of get_likelihood, and the schema of sample(). Equality '
                     'with the mathematical pair-copula decomposition and the law of the samples are not decided.')
    for rid, text in (('D1.accessor', 'h-function computation and tau computation read an edge\'s two inputs the same way: u_matrix[:, L] / u_matrix[:, R] at level 1, get_conditional_uni(*parents) above'),
                      ('D2.correct', 'both h-arrays pass both 0/1 corrections and are stored as U = [left|right, right|left]; get_conditional_uni takes U[0] exactly when the wanted variable is the parent\'s L'),
                      ('D2b.own', 'a pair copula rebuilt from an edge takes family and theta from that same edge'),
                      ('D3.recursion', 'edge: density value and both h-values; tree: sum of log values, next matrix filled at [L,R] and [R,L] with rank-0 values; vine: matrix handed from tree i to tree i+1'),
                      ('D4.determ', 'get_likelihood reaches no random source and reads no uninitialised buffer'),
                      ('D5.schema', 'sample(): one row per iteration of range(num_rows), columns = self.columns, marginal quantiles receive clipped probabilities, row elements receive rank-0 values')):
        rep.rule(rid, text)
    rep.guarded('D1.d1', d1, ctx, rep)
    rep.guarded('D2.d2', d2, ctx, rep)
    rep.guarded('D2.d2b', d2b, ctx, rep)
    rep.guarded('D3.d3', d3, ctx, rep)
    rep.guarded('D4.d4', d4, ctx, rep)
    rep.guarded('D5.d5', d5, ctx, rep)
    rep.guarded('D6.d6', d6, ctx, rep)
    rep.guarded('D7.d7_readonly', d7_readonly, ctx, rep)


def d6(ctx, rep):
    """Ownership convention of an edge's two parents: parents[0] is the parent that contains the edge's L node.

    get_conditional_uni(left_parent, right_parent), prepare_next_tree, get_tau_matrix and Edge.get_likelihood all read
    `the h-function of L` from parents[0] and `of R` from parents[1].  The conditioned pair is named by *sorting* the two
    nodes, so the convention holds only if the construction site orders the parents accordingly."""
    prog = ctx.prog
    rep.rule('D6.owner', 'parents[0] of an edge is the parent that contains its L node: the construction site orders the parents like the '
             'conditioned pair, and every reader pairs L with parents[0] and R with parents[1]')
    from .. import setkind as SK
    edge = prog.cls(TREE + 'Edge')
    ie = edge.methods.get('_identify_eds_ing')
    gc = edge.methods.get('get_child_edge')
    if ie is None or gc is None:
        raise PrivateAnchorMissing('Edge._identify_eds_ing') if ie is None else AnalysisError('anchor vanished: Edge.get_child_edge')
    # 1. is the pair named by ownership (left from the first edge) or by sorting?
    p1, p2 = ie.params[0], ie.params[1]
    rets = [n for n in walk_no_nested(ie.node) if isinstance(n, ast.Return) and isinstance(n.value, ast.Tuple) and len(n.value.elts) == 3]
    by_value = None
    if rets:
        l = rets[0].value.elts[0]
        for s_ in walk_no_nested(ie.node):
            if isinstance(s_, ast.Assign) and isinstance(s_.targets[0], ast.Tuple) and s_.targets[0].elts and isinstance(s_.targets[0].elts[0], ast.Name) \
                    and isinstance(l, ast.Name) and s_.targets[0].elts[0].id == l.id:
                v = s_.value
                while isinstance(v, ast.Subscript):
                    v = v.value
                if isinstance(v, ast.Call) and call_name(v) == 'sorted':
                    by_value = True
        if by_value is None and isinstance(l, ast.Name):
            d = single_def(ie.node, l.id)
            if isinstance(d, ast.AST):
                sv = SK.evaluate(ctx, SK.Env(ie, {p1: p1, p2: p2}), d.func.value if isinstance(d, ast.Call) and call_name(d) == 'pop' and isinstance(d.func, ast.Attribute) else d)
                if isinstance(sv, tuple) and sv[0] == 'op' and sv[1] == '-' and sv[2] == SK.nodes_of(p1) and sv[3] == SK.nodes_of(p2):
                    by_value = False
    lp, rp = gc.params[2], gc.params[3]
    if by_value is None:
        rep.undecided('D6.owner', ie, ie.node.name, 'how the conditioned pair (left, right) is named was not recognised', construct='ownership of the left node')
    elif by_value is False:
        rep.ok('D6.owner', ie, rets[0], 'the left node is taken from the first edge (A - B): parents stay in the order given', construct='ownership of the left node')
    else:
        # the pair is sorted by node number: the construction site must reorder the parents
        call = [c for c in walk_no_nested(gc.node) if isinstance(c, ast.Call) and call_name(c) == '_identify_eds_ing']
        lv = None
        if call and isinstance(stmt_of(call[0]), ast.Assign) and isinstance(stmt_of(call[0]).targets[0], (ast.Tuple, ast.List)):
            e0 = stmt_of(call[0]).targets[0].elts[0]
            lv = e0.id if isinstance(e0, ast.Name) else None
        swaps = []
        for n in walk_no_nested(gc.node):
            if isinstance(n, ast.If):
                t = n.test
                neg = False
                while isinstance(t, ast.UnaryOp) and isinstance(t.op, ast.Not):
                    t, neg = t.operand, not neg
                if isinstance(t, ast.Compare) and len(t.ops) == 1 and isinstance(t.ops[0], (ast.In, ast.NotIn)) and isinstance(t.left, ast.Name):
                    members = {(x.value.id, x.attr) for x in ast.walk(t.comparators[0]) if isinstance(x, ast.Attribute) and isinstance(x.value, ast.Name)}
                    absent = isinstance(t.ops[0], ast.NotIn) != neg
                    body = n.body if absent else n.orelse
                    swap = any(isinstance(b, ast.Assign) and isinstance(b.targets[0], ast.Tuple) and isinstance(b.value, ast.Tuple)
                               and [getattr(x, 'id', None) for x in b.targets[0].elts] == [lp, rp] and [getattr(x, 'id', None) for x in b.value.elts] == [rp, lp]
                               for b in body)
                    if swap and t.left.id == lv and members == {(lp, 'L'), (lp, 'R')}:
                        swaps.append(n)
                    # mirror image: `if left in (right_parent.L, right_parent.R): swap`
                    body2 = n.orelse if absent else n.body
                    swap2 = any(isinstance(b, ast.Assign) and isinstance(b.targets[0], ast.Tuple) and isinstance(b.value, ast.Tuple)
                                and [getattr(x, 'id', None) for x in b.targets[0].elts] == [lp, rp] and [getattr(x, 'id', None) for x in b.value.elts] == [rp, lp]
                                for b in body2)
                    if swap2 and t.left.id == lv and members == {(rp, 'L'), (rp, 'R')}:
                        swaps.append(n)
        # the same swap on a list that holds the two parents: `pair = [left_parent, right_parent]; if <left not in left_parent>: pair.reverse()`
        for n in walk_no_nested(gc.node):
            if isinstance(n, ast.If) and n not in swaps:
                t = n.test
                neg = False
                while isinstance(t, ast.UnaryOp) and isinstance(t.op, ast.Not):
                    t, neg = t.operand, not neg
                if isinstance(t, ast.Compare) and len(t.ops) == 1 and isinstance(t.ops[0], (ast.In, ast.NotIn)) and isinstance(t.left, ast.Name) and t.left.id == lv:
                    members = {(x.value.id, x.attr) for x in ast.walk(t.comparators[0]) if isinstance(x, ast.Attribute) and isinstance(x.value, ast.Name)}
                    absent = isinstance(t.ops[0], ast.NotIn) != neg
                    for body_, want in ((n.body if absent else n.orelse, {(lp, 'L'), (lp, 'R')}), (n.orelse if absent else n.body, {(rp, 'L'), (rp, 'R')})):
                        for b in body_:
                            if isinstance(b, ast.Expr) and isinstance(b.value, ast.Call) and call_name(b.value) == 'reverse' and isinstance(b.value.func.value, ast.Name) and members == want:
                                d_ = single_def(gc.node, b.value.func.value.id)
                                if isinstance(d_, (ast.List,)) and [getattr(x, 'id', None) for x in d_.elts] == [lp, rp]:
                                    swaps.append(n)
        pst = [s_ for s_ in walk_no_nested(gc.node) if isinstance(s_, ast.Assign) and isinstance(s_.targets[0], ast.Attribute) and s_.targets[0].attr == 'parents']
        uses = [c for c in walk_no_nested(gc.node) if isinstance(c, ast.Call) and call_name(c) == 'get_conditional_uni']
        if swaps and all(s_.lineno > swaps[0].lineno for s_ in pst) and all(c.lineno > swaps[0].lineno for c in uses):
            rep.ok('D6.owner', gc, swaps[0], 'the parents are swapped when the (sorted) left node does not belong to the left parent, before they are used and stored',
                   construct='ownership of the left node')
        elif lv is None or not pst or not (isinstance(pst[0].value, (ast.List, ast.Tuple)) and [getattr(x, 'id', None) for x in pst[0].value.elts] == [lp, rp]):
            rep.undecided('D6.owner', gc, gc.node.name, 'construction of the child edge not recognised', construct='ownership of the left node')
        else:
            rep.bad('D6.owner', gc, pst[0], 'the conditioned pair is named by sorting the two nodes, but the parents are stored in the order given: when the smaller node '
                    'belongs to the second parent, get_conditional_uni / prepare_next_tree / get_tau_matrix read the wrong parent\'s h-function and '
                    'Edge.get_likelihood reads a cell the previous tree never wrote', construct='ownership of the left node')
    # 1b. the reader get_conditional_uni takes its two parents in the order it is given them (the order the construction site
    #     established): re-ordering them by node numbers undoes the ownership convention
    cu = edge.methods.get('get_conditional_uni')
    if cu is not None and len(cu.params) >= 3:
        ps = set(cu.params[-2:])
        rebinds = []
        for s_ in walk_no_nested(cu.node):
            if isinstance(s_, ast.Assign):
                names = {x.id for t in s_.targets for x in ast.walk(t) if isinstance(x, ast.Name) and isinstance(x.ctx, ast.Store)}
                if names & ps:
                    rebinds.append(s_)
        reorder = [s_ for s_ in rebinds if any(isinstance(c, ast.Call) and call_name(c) in ('sort_edge', 'sorted', 'reversed') for c in ast.walk(s_.value))
                   or (isinstance(s_.value, ast.Tuple) and [getattr(x, 'id', None) for x in s_.value.elts] == list(reversed(cu.params[-2:]))
                       and not isinstance(getattr(s_, '_parent', None), ast.If))]
        if reorder:
            rep.bad('D6.owner', cu, reorder[0], f'get_conditional_uni re-orders its parents (`{short(reorder[0], 60)}`): the first parent is no longer the one that owns the '
                    'left node, so the h-function of the wrong parent is handed to the pair copula', construct='get_conditional_uni: parents in the given order')
        elif rebinds:
            rep.undecided('D6.owner', cu, rebinds[0], 'get_conditional_uni re-binds a parent parameter in a way that is not recognised',
                          construct='get_conditional_uni: parents in the given order')
        else:
            rep.ok('D6.owner', cu, cu.node.name, 'the parents are used in the order given', construct='get_conditional_uni: parents in the given order')
    # 2. the reader in Edge.get_likelihood pairs L with parents[0] and R with parents[1]
    gl = edge.methods.get('get_likelihood')
    if gl is None:
        return

    def parent_index(e):
        """0 / 1 when e denotes self.parents[0] / self.parents[1] (directly or through a tuple unpack of self.parents)."""
        if isinstance(e, ast.Subscript) and is_self_attr(e.value, gl.self_name, 'parents') and isinstance(const_value(e.slice), int):
            return const_value(e.slice)
        if isinstance(e, ast.Name):
            for s_ in walk_no_nested(gl.node):
                if isinstance(s_, ast.Assign) and isinstance(s_.targets[0], (ast.Tuple, ast.List)) and is_self_attr(s_.value, gl.self_name, 'parents'):
                    names = [getattr(x, 'id', None) for x in s_.targets[0].elts]
                    if e.id in names:
                        return names.index(e.id)
                if isinstance(s_, ast.Assign) and isinstance(s_.targets[0], ast.Name) and s_.targets[0].id == e.id:
                    return parent_index(s_.value)
        return None
    found = 0
    for sub in [x for x in walk_no_nested(gl.node) if isinstance(x, ast.Subscript) and isinstance(x.slice, ast.Tuple) and len(x.slice.elts) == 2]:
        node_e, ing = sub.slice.elts
        side = 'L' if is_self_attr(node_e, gl.self_name, 'L') else ('R' if is_self_attr(node_e, gl.self_name, 'R') else None)
        if side is None or not isinstance(ing, ast.Name):
            continue
        d = single_def(gl.node, ing.id)
        pidx = None
        if isinstance(d, ast.AST):
            for x in ast.walk(d):
                if isinstance(x, ast.BinOp) and isinstance(x.op, ast.Sub) and is_self_attr(x.left, gl.self_name, 'D') and isinstance(x.right, ast.Attribute) and x.right.attr == 'D':
                    pidx = parent_index(x.right.value)
        if pidx is None:
            continue
        found += 1
        want = 0 if side == 'L' else 1
        rep.check('D6.owner', gl, sub, pidx == want, f'Edge.get_likelihood: the conditioning node of {side} is D - parents[{want}].D',
                  f'Edge.get_likelihood pairs self.{side} with parents[{pidx}]: the cell uni_matrix[{side}, D - parents[{pidx}].D] was written for the other node '
                  '(or never): the likelihood uses a wrong or uninitialised conditional value', construct=f'Edge.get_likelihood: parent of {side}')
    if found == 0:
        rep.undecided('D6.owner', gl, gl.node.name, 'how Edge.get_likelihood looks up the conditional values of a deeper edge was not recognised',
                      construct='Edge.get_likelihood: parent of L')


def d1(ctx, rep):
    prog = ctx.prog
    tree = prog.cls(TREE + 'Tree')
    pats = {}
    for meth in ('prepare_next_tree', 'get_tau_matrix'):
        fn = tree.methods.get(meth)
        if fn is None:
            raise AnalysisError(f'anchor vanished: Tree.{meth}')
        p = accessor_pattern(prog, fn, ctx)
        pats[meth] = p
        l1 = p['level1']
        via = f' (through {p["via"]})' if p.get('via') else ''
        if not l1:
            rep.undecided('D1.accessor', fn, fn.node.name, f'{meth}: how the two inputs of an edge are read was not recognised', construct=f'{meth} level 1')
        else:
            # the name bound to column L at level 1 is the one that receives the first result of get_conditional_uni above level 1
            # (both branches define the same pair of inputs, in the same roles)
            dn = p['deeper'] if isinstance(p['deeper'], list) and len(p['deeper']) == 2 and p['deeper'] != ['left_u', 'right_u'] else None
            ok1 = bool(l1) and sorted(l1.values()) == ['L', 'R']
            if ok1 and dn is not None and all(dn):
                ok1 = l1.get(dn[0]) == 'L' and l1.get(dn[1]) == 'R'
            rep.check('D1.accessor', fn, fn.node.name, ok1, f'{meth}: level 1 reads u_matrix[:, edge.L] as left and u_matrix[:, edge.R] as right{via}',
                      f'{meth}: at level 1 the two inputs of an edge are not (u_matrix[:, L], u_matrix[:, R]) ({l1})', construct=f'{meth} level 1')
        if p['deeper']:
            rep.ok('D1.accessor', fn, fn.node.name, f'{meth}: above level 1 reads Edge.get_conditional_uni(*edge.parents){via}', construct=f'{meth} deeper levels')
        elif not l1 or p['deeper'] is None:
            rep.undecided('D1.accessor', fn, fn.node.name, f'{meth}: accessor above level 1 not recognised', construct=f'{meth} deeper levels')
        else:
            rep.bad('D1.accessor', fn, fn.node.name, f'{meth}: above level 1 the inputs are not get_conditional_uni of the edge\'s own parents in order',
                    construct=f'{meth} deeper levels')
    # the child edge selects its copula on the same conditional pseudo-observations
    edge = prog.cls(TREE + 'Edge')
    gc = edge.methods['get_child_edge']
    cu = [s for s in walk_no_nested(gc.node) if isinstance(s, ast.Assign) and isinstance(s.value, ast.Call) and call_name(s.value) == 'get_conditional_uni']
    sel = [c for c in walk_no_nested(gc.node) if isinstance(c, ast.Call) and call_name(c) == 'select_copula']
    ok = False
    if cu and sel and isinstance(cu[0].targets[0], ast.Tuple):
        lv, rv = (e.id for e in cu[0].targets[0].elts)
        cargs = list(cu[0].value.args)
        if len(cargs) == 1 and isinstance(cargs[0], ast.Starred) and isinstance(cargs[0].value, ast.Name):
            d_ = single_def(gc.node, cargs[0].value.id)       # get_conditional_uni(*parents) with parents = [left_parent, right_parent]
            cargs = list(d_.elts) if isinstance(d_, (ast.List, ast.Tuple)) else cargs
        argsok = [getattr(a, 'id', None) for a in cargs] == gc.params[2:4]
        x = sel[0].args[0] if sel[0].args else None
        xd = single_def(gc.node, x.id) if isinstance(x, ast.Name) else x
        zips = [z for z in ast.walk(xd) if isinstance(z, ast.Call) and call_name(z) == 'zip'] if isinstance(xd, ast.AST) else []
        stack = [z for z in ast.walk(xd) if isinstance(z, ast.Call) and call_name(z) == 'column_stack'] if isinstance(xd, ast.AST) else []
        pair = None
        if zips:
            pair = [getattr(a, 'id', None) for a in zips[0].args]
        elif stack and isinstance(stack[0].args[0], (ast.Tuple, ast.List)):
            pair = [getattr(a, 'id', None) for a in stack[0].args[0].elts]
        ok = argsok and pair == [lv, rv]
    if cu and sel and isinstance(cu[0].targets[0], ast.Name):
        # pair = get_conditional_uni(left_parent, right_parent); select_copula(<rows of zip(*pair)>): both inputs, in the order returned
        nm_ = cu[0].targets[0].id
        x = sel[0].args[0] if sel[0].args else None
        xd = single_def(gc.node, x.id) if isinstance(x, ast.Name) else x
        star = [z for z in ast.walk(xd) if isinstance(z, ast.Call) and call_name(z) in ('zip', 'column_stack') and len(z.args) == 1
                and ((isinstance(z.args[0], ast.Starred) and isinstance(z.args[0].value, ast.Name) and z.args[0].value.id == nm_) or
                     (isinstance(z.args[0], ast.Name) and z.args[0].id == nm_))] if isinstance(xd, ast.AST) else []
        argsok = [getattr(a, 'id', None) for a in cu[0].value.args] == gc.params[2:4]
        if star and argsok:
            rep.ok('D1.accessor', gc, sel[0], 'the copula of a child edge is selected on get_conditional_uni(left_parent, right_parent)', construct='child edge selection input')
        else:
            rep.undecided('D1.accessor', gc, sel[0], 'how the pair returned by get_conditional_uni reaches select_copula was not recognised', construct='child edge selection input')
    elif not (cu and sel):
        rep.undecided('D1.accessor', gc, gc.node.name, 'how get_child_edge obtains the inputs of the new edge / selects its copula was not recognised', construct='child edge selection input')
    else:
        rep.check('D1.accessor', gc, sel[0] if sel else gc.node.name, ok, 'the copula of a child edge is selected on get_conditional_uni(left_parent, right_parent)',
                  'the copula of a child edge is not selected on the conditional pseudo-observations of its own parents', construct='child edge selection input')
    # the pair copula of an edge is what select_copula returns for the edge's two input columns - all of their rows
    from ..idioms import row_subset_of, row_subsets_reaching
    for f_ in prog.functions.values():
        if f_.module.name != 'copulas.multivariate.tree':
            continue
        for c_ in walk_no_nested(f_.node):
            if isinstance(c_, ast.Call) and call_name(c_) == 'select_copula' and c_.args:
                a0 = c_.args[0]
                direct = row_subset_of(f_.node, a0)
                hits = row_subsets_reaching(f_.node, {a0.id}, before=c_) if isinstance(a0, ast.Name) else []
                hits = [h for h in hits if h[1] == a0.id]
                if direct is not None or hits:
                    how = direct[1] if direct is not None else hits[0][3]
                    rep.bad('D1.accessor', f_, hits[0][0] if hits else c_, f'the pseudo-observations handed to select_copula are {how} of the edge\'s inputs: family and theta come from part of the '
                            'rows, while the h-functions, the likelihood and sampling use all of them', construct=f'{f_.node.name}: selection on all rows')
    # first trees: the two columns given to select_copula are the nodes that become L, R
    for clsn in ('CenterTree', 'DirectTree', 'RegularTree'):
        fn = prog.cls(TREE + clsn).methods['_build_first_tree']
        sel = [c for c in walk_no_nested(fn.node) if isinstance(c, ast.Call) and call_name(c) == 'select_copula']
        mk = [s for s in walk_no_nested(fn.node) if isinstance(s, ast.Assign) and isinstance(s.value, ast.Call) and (prog.resolve(fn.module, s.value.func) or '').endswith('tree.Edge')]
        if not sel or not mk:
            rep.undecided('D1.accessor', fn, fn.node.name, 'selection / edge construction not found', construct=f'{clsn} first tree columns')
            continue
        x = sel[0].args[0]
        cols = None
        if isinstance(x, ast.Subscript) and is_self_attr(x.value, fn.self_name, 'u_matrix') and isinstance(x.slice, ast.Tuple) and len(x.slice.elts) == 2 and isinstance(x.slice.elts[1], (ast.Tuple, ast.List)):
            cols = [ast.dump(e) for e in x.slice.elts[1].elts]
        a = mk[0].value.args
        nodes = []
        for e in a[1:3]:
            if isinstance(e, ast.Name):
                # left, right = sorted([p, q])
                src = None
                for s in walk_no_nested(fn.node):
                    if isinstance(s, ast.Assign) and isinstance(s.targets[0], ast.Tuple) and any(isinstance(t, ast.Name) and t.id == e.id for t in s.targets[0].elts) \
                            and isinstance(s.value, ast.Call) and call_name(s.value) == 'sorted' and isinstance(s.value.args[0], (ast.List, ast.Tuple)):
                        src = [ast.dump(z) for z in s.value.args[0].elts]
                if src:
                    nodes = src
                    break
                nodes.append(ast.dump(e))
            else:
                nodes.append(ast.dump(e))
        ok = cols is not None and sorted(cols) == sorted(nodes)
        if cols is None:
            rep.undecided('D1.accessor', fn, sel[0], f'{clsn}: which columns `{short(x, 50)}` selects was not recognised', construct=f'{clsn} first tree columns')
            continue
        rep.check('D1.accessor', fn, sel[0], ok, f'{clsn}: the copula is selected on the u_matrix columns of the edge\'s own two nodes',
                  f'{clsn}: the columns given to select_copula are not the two nodes of the edge being created', construct=f'{clsn} first tree columns')


def _attached_on_every_build(ctx, rep, tree):
    """Tree.fit: every path that builds the edges of the tree also computes their h-functions (prepare_next_tree) before fit returns."""
    from ..cfg import CFG
    from .c15 import _reach_without
    fit = tree.methods.get('fit')
    if fit is None:
        return
    cons = 'h-functions attached to every built tree'
    def fills_edges(name):
        # some definition of the method (in Tree or a subclass) adds to self.edges, itself or in a private helper it calls
        from ..idioms import private_closure
        for c_ in ctx.prog.classes.values():
            if tree in c_.mro() and name in c_.methods:
                for g in private_closure(ctx, c_.methods[name], c_):
                    for x in walk_no_nested(g.node):
                        if isinstance(x, ast.Call) and isinstance(x.func, ast.Attribute) and x.func.attr in ('append', 'extend', 'insert') and is_self_attr(x.func.value, g.self_name, 'edges'):
                            return True
                        if isinstance(x, ast.Assign) and any(is_self_attr(t, g.self_name, 'edges') for t in x.targets) and g is not fit:
                            return True
        return False
    builds = [c for c in walk_no_nested(fit.node) if isinstance(c, ast.Call) and is_self_attr(c.func, fit.self_name) and fills_edges(c.func.attr)]
    preps = [c for c in walk_no_nested(fit.node) if isinstance(c, ast.Call) and is_self_attr(c.func, fit.self_name, 'prepare_next_tree')]
    if not builds or not preps:
        rep.undecided('D2.correct', fit, fit.node.name, 'the calls that build the edges / compute their h-functions were not found in Tree.fit', construct=cons)
        return
    cfg = CFG(fit.node)
    prep_ids = {cfg.node_containing(c).id for c in preps}
    for b in builds:
        esc = _reach_without(cfg, cfg.node_containing(b), prep_ids)
        if cfg.exit.id in esc:
            rep.bad('D2.correct', fit, b, f'after `{short(b, 40)}` Tree.fit can return without prepare_next_tree(): the edges of that tree keep U = None, no pseudo-observations are '
                    'attached to them', construct=cons)
        else:
            rep.ok('D2.correct', fit, b, f'`{short(b, 40)}` is always followed by prepare_next_tree()', construct=cons)


def d2(ctx, rep):
    prog = ctx.prog
    tree = prog.cls(TREE + 'Tree')
    _attached_on_every_build(ctx, rep, tree)
    fn = tree.methods['prepare_next_tree']
    pd_calls = [s for s in walk_no_nested(fn.node) if isinstance(s, ast.Assign) and isinstance(s.value, ast.Call) and call_name(s.value) == 'partial_derivative'
                and isinstance(s.targets[0], ast.Name)]
    names = [s.targets[0].id for s in pd_calls]
    if len(names) < 2:
        rep.undecided('D2.correct', fn, fn.node.name, 'the two h-function evaluations `x = copula.partial_derivative(...)` were not found in prepare_next_tree',
                      construct='correction of the h-values')

    def fixes_of(owner, nm):
        fixes = {}
        for s in walk_no_nested(owner.node):
            if isinstance(s, ast.Assign) and isinstance(s.targets[0], ast.Subscript) and isinstance(s.targets[0].value, ast.Name) and s.targets[0].value.id == nm:
                m = s.targets[0].slice
                if isinstance(m, ast.Compare) and isinstance(m.left, ast.Name) and isinstance(m.ops[0], ast.Eq):
                    fixes[const_value(m.comparators[0])] = (s.value, m.left.id)
        return fixes
    for nm in names:
        owner, var = fn, nm
        fixes = fixes_of(fn, nm)
        if not fixes:
            # the value is passed through a one-argument private helper that corrects and returns it
            for s in walk_no_nested(fn.node):
                cands = [c for c in ast.walk(s) if isinstance(c, ast.Call) and len(c.args) == 1 and isinstance(c.args[0], ast.Name) and c.args[0].id == nm
                         and isinstance(c.func, ast.Attribute) and isinstance(c.func.value, ast.Name) and c.func.value.id in (fn.self_name, 'cls', tree.name)]
                for c in cands:
                    h = tree.lookup(c.func.attr)
                    if h is not None and h.name.startswith('_'):
                        ps = h.params[1:] if h.kind in ('method', 'classmethod') else h.params
                        if ps and fixes_of(h, ps[0]):
                            owner, var, fixes = h, ps[0], fixes_of(h, ps[0])
        if not fixes:
            rep.undecided('D2.correct', fn, pd_calls[names.index(nm)], f'{nm}: no masked store `x[x == 0] = ...` found here or in a one-argument helper it is passed to',
                          construct=f'correction of {nm}')
            continue
        eps = lambda e: prog.resolve(owner.module, e) == 'copulas.utils.EPSILON'
        own_mask = all(mv == var for _v, mv in fixes.values())
        ok0 = 0 in fixes and eps(fixes[0][0])
        ok1 = 1 in fixes and isinstance(fixes[1][0], ast.BinOp) and isinstance(fixes[1][0].op, ast.Sub) and const_value(fixes[1][0].left) in (1, 1.0) and eps(fixes[1][0].right)
        rep.check('D2.correct', fn, pd_calls[names.index(nm)], ok0 and ok1 and own_mask, f'{nm}: 0 -> EPSILON and 1 -> 1 - EPSILON',
                  f'{nm} is stored without both corrections: an h-value of exactly 0 or 1 reaches the next tree / the copula formulas', construct=f'correction of {nm}')
    # arguments of the two evaluations are (left, right) and (right, left); U = [first, second]
    ust = [s for s in walk_no_nested(fn.node) if isinstance(s, ast.Assign) and isinstance(s.targets[0], ast.Attribute) and s.targets[0].attr == 'U']
    ok = None
    if ust and len(pd_calls) == 2:
        arr = ust[0].value
        lst = arr.args[0] if isinstance(arr, ast.Call) and arr.args else arr
        order = [getattr(e, 'id', None) for e in lst.elts] if isinstance(lst, (ast.List, ast.Tuple)) else []
        x0 = _pair_of(fn, pd_calls[0].value.args[0]) if pd_calls[0].value.args else None
        x1 = _pair_of(fn, pd_calls[1].value.args[0]) if pd_calls[1].value.args else None
        if order and set(order) == set(names) and x0 and x1 and all(isinstance(z, str) for z in x0 + x1):
            # which of the two inputs is the edge's L input: the name bound to u_matrix[:, edge.L] at level 1 (role, not spelling)
            lvl1 = (accessor_pattern(prog, fn, ctx).get('level1') or {})
            name_l = [k_ for k_, v_ in lvl1.items() if v_ == 'L']
            name_r = [k_ for k_, v_ in lvl1.items() if v_ == 'R']
            if len(name_l) == 1 and len(name_r) == 1:
                ok = order == names and x0 == list(reversed(x1)) and x0[0] == name_l[0] and x0[1] == name_r[0]
            elif order == names and x0 == list(reversed(x1)):
                ok = None   # the layout is consistent; which input belongs to L is not derived
            else:
                ok = False
    for u_ in ust:
        narrow = [x for x in ast.walk(u_.value) if isinstance(x, (ast.Attribute, ast.Constant)) and
                  ((isinstance(x, ast.Attribute) and x.attr in ('float32', 'float16', 'half', 'single')) or (isinstance(x, ast.Constant) and x.value in ('float32', 'float16', 'f4', 'f2')))]
        if narrow:
            rep.bad('D2.correct', fn, u_, f'`{short(u_, 70)}` stores the pseudo-observations in reduced precision: h-values within 6e-8 of 1 round to exactly 1.0 after the 0/1 correction '
                    '(edge.U leaves the open unit interval) and every deeper tree is built on rounded inputs', construct='precision of edge.U')
    if ok is None:
        rep.undecided('D2.correct', fn, ust[0] if ust else fn.node.name, 'how edge.U is assembled from the two h-arrays was not recognised', construct='layout of edge.U')
    else:
        rep.check('D2.correct', fn, ust[0], ok, 'U = [h(left, right), h(right, left)] in this order',
                  'edge.U is not [left given right, right given left]', construct='layout of edge.U')
    gcu = prog.cls(TREE + 'Edge').methods['get_conditional_uni']
    n = 0
    # the two node names come from the unpacking of _identify_eds_ing(first parent, second parent): (left, right, conditioning set)
    node_of_parent = {}
    for s_ in walk_no_nested(gcu.node):
        if isinstance(s_, ast.Assign) and isinstance(s_.targets[0], (ast.Tuple, ast.List)) and isinstance(s_.value, ast.Call) and len(s_.value.args) == 2 \
                and all(isinstance(x, ast.Name) for x in s_.value.args) and len(s_.targets[0].elts) >= 2 and all(isinstance(x, ast.Name) for x in s_.targets[0].elts[:2]):
            node_of_parent = {s_.value.args[0].id: (s_.targets[0].elts[0].id, 'left'), s_.value.args[1].id: (s_.targets[0].elts[1].id, 'right')}
    sels = []
    for s in walk_no_nested(gcu.node):
        if isinstance(s, ast.Assign) and isinstance(s.value, ast.IfExp):
            sels.append((s, s.value.test, s.value.body, s.value.orelse))
        elif isinstance(s, ast.If) and len(s.body) == 1 and len(s.orelse) == 1 and isinstance(s.body[0], ast.Assign) and isinstance(s.orelse[0], ast.Assign) \
                and len(s.body[0].targets) == 1 and len(s.orelse[0].targets) == 1 and isinstance(s.body[0].targets[0], ast.Name) \
                and ast.dump(s.body[0].targets[0]) == ast.dump(s.orelse[0].targets[0]):
            sels.append((s, s.test, s.body[0].value, s.orelse[0].value))        # the statement form of the same selection
    for s, t, a, b in sels:
        if True:
            while isinstance(t, ast.UnaryOp) and isinstance(t.op, ast.Not):
                t, a, b = t.operand, b, a            # `x if not c else y` is `y if c else x`
            if isinstance(t, ast.Compare) and len(t.ops) == 1 and isinstance(t.ops[0], ast.NotEq):
                t = ast.copy_location(ast.Compare(left=t.left, ops=[ast.Eq()], comparators=t.comparators), t)
                a, b = b, a
            par = t.left.value.id if isinstance(t, ast.Compare) and isinstance(t.left, ast.Attribute) and isinstance(t.left.value, ast.Name) else None
            if par not in node_of_parent:
                continue
            n += 1
            want_node, side = node_of_parent[par]
            good = isinstance(t.ops[0], ast.Eq) and t.left.attr == 'L' and isinstance(t.comparators[0], ast.Name) and t.comparators[0].id == want_node \
                and isinstance(a, ast.Subscript) and const_value(a.slice) == 0 and isinstance(b, ast.Subscript) and const_value(b.slice) == 1 \
                and ast.dump(a.value) == ast.dump(b.value) and isinstance(a.value, ast.Attribute) and a.value.attr == 'U' and isinstance(a.value.value, ast.Name) \
                and a.value.value.id == par
            rep.check('D2.correct', gcu, s, good, f'{side}: U[0] when the parent\'s L is the wanted variable, else U[1]',
                      f'{side}: the wrong h-array of the parent is taken', construct=f'get_conditional_uni {side}')
    if n == 0:
        rep.undecided('D2.correct', gcu, gcu.node.name, 'the selections `x = parent.U[0] if parent.L == x_node else parent.U[1]` were not found in get_conditional_uni',
                      construct='get_conditional_uni selections')


def _pair_of(fn, e):
    d = single_def(fn.node, e.id) if isinstance(e, ast.Name) else e
    if not isinstance(d, ast.AST):
        return None
    zips = [z for z in ast.walk(d) if isinstance(z, ast.Call) and call_name(z) == 'zip']
    if zips:
        return [getattr(a, 'id', None) for a in zips[0].args]
    st = [z for z in ast.walk(d) if isinstance(z, ast.Call) and call_name(z) == 'column_stack']
    if st and isinstance(st[0].args[0], (ast.Tuple, ast.List)):
        return [getattr(a, 'id', None) for a in st[0].args[0].elts]
    return None


def d2b(ctx, rep):
    prog = ctx.prog
    n = 0
    for fn in prog.functions.values():
        if not fn.module.name.startswith('copulas.multivariate'):
            continue
        for s in walk_no_nested(fn.node):
            if isinstance(s, ast.Assign) and isinstance(s.value, ast.Call) and prog.resolve(fn.module, s.value.func) == 'copulas.bivariate.base.Bivariate' \
                    and isinstance(s.targets[0], ast.Name):
                ct = kwarg(s.value, 'copula_type')
                cv = s.targets[0].id
                th = [t for t in walk_no_nested(fn.node) if isinstance(t, ast.Assign) and isinstance(t.targets[0], ast.Attribute) and t.targets[0].attr == 'theta'
                      and isinstance(t.targets[0].value, ast.Name) and t.targets[0].value.id == cv and t.lineno > s.lineno]
                if ct is None or not th:
                    continue
                n += 1
                src_type = _edge_source(fn, ct, 'name')
                src_theta = _edge_source(fn, th[0].value, 'theta')
                if src_type is None or src_theta is None:
                    tv = th[0].value
                    if isinstance(ct, ast.Name) and isinstance(tv, ast.Name) and ct.id in fn.params and tv.id in fn.params and fn.cls is None:
                        # a constructor helper: judge every call site
                        i1, i2 = fn.params.index(ct.id), fn.params.index(tv.id)
                        for g in prog.functions.values():
                            for c in walk_no_nested(g.node):
                                if isinstance(c, ast.Call) and prog.resolve(g.module, c.func) == fn.qualname and len(c.args) > max(i1, i2):
                                    a1, a2 = _edge_source(g, c.args[i1], 'name'), _edge_source(g, c.args[i2], 'theta')
                                    if a1 is None or a2 is None:
                                        rep.undecided('D2b.own', g, c, 'where the family / theta handed to the copula constructor helper come from is not derived',
                                                      construct=f'{g.short}: rebuilt pair copula')
                                    else:
                                        rep.check('D2b.own', g, c, a1 == a2, f'family and theta both come from {a1}',
                                                  f'the family comes from {a1} but theta from {a2}: a pair copula is evaluated with another edge\'s parameter',
                                                  construct=f'{g.short}: rebuilt pair copula')
                    else:
                        rep.undecided('D2b.own', fn, s, 'where the family / theta of the rebuilt copula come from is not derived', construct=f'{fn.short}: rebuilt pair copula')
                    continue
                ok = src_type == src_theta
                rep.check('D2b.own', fn, s, ok, f'family and theta both come from {src_type}',
                          f'the family comes from {src_type} but theta from {src_theta}: a pair copula is evaluated with another edge\'s parameter',
                          construct=f'{fn.short}: rebuilt pair copula')
    rep.floor('D2b.own', 'pair copulas rebuilt from edges', n, 1)


def _edge_source(fn, e, attr):
    """Normalised text of the object whose .<attr> (through locals and a CopulaTypes(...) wrapper) the expression is."""
    seen = 0
    while seen < 4:
        seen += 1
        if isinstance(e, ast.Call) and e.args:
            e = e.args[0]
            continue
        if isinstance(e, ast.Name):
            d = single_def(fn.node, e.id)
            if isinstance(d, ast.AST):
                e = d
                continue
            return None
        break
    if isinstance(e, ast.Attribute) and e.attr == attr:
        return ast.unparse(e.value)
    return None


def d3(ctx, rep):
    prog = ctx.prog
    edge = prog.cls(TREE + 'Edge').methods['get_likelihood']
    rets = [n for n in walk_no_nested(edge.node) if isinstance(n, ast.Return) and isinstance(n.value, ast.Tuple)]
    if rets and len(rets[0].value.elts) == 3:
        def deep(e_, depth=0):
            """the value with single-definition locals expanded inside it (np.sum(_arg) -> np.sum(copula.pdf(X)))"""
            import copy
            e_ = single_def(edge.node, e_.id) if isinstance(e_, ast.Name) and isinstance(single_def(edge.node, e_.id), ast.AST) else e_
            if not isinstance(e_, ast.AST) or depth > 3:
                return e_

            class Sub(ast.NodeTransformer):
                def visit_Name(self2, n):
                    d_ = single_def(edge.node, n.id) if isinstance(n.ctx, ast.Load) and n.id not in edge.params else None
                    if isinstance(d_, ast.Call) and call_name(d_) in ('probability_density', 'pdf', 'partial_derivative'):
                        return copy.deepcopy(d_)
                    return n
            return Sub().visit(copy.deepcopy(e_))
        v, l, r = (deep(e) for e in rets[0].value.elts)
        okv = isinstance(v, ast.AST) and any(isinstance(c, ast.Call) and call_name(c) in ('probability_density', 'pdf') for c in ast.walk(v))
        x0 = [c for c in ast.walk(l) if isinstance(c, ast.Call) and call_name(c) == 'partial_derivative'] if isinstance(l, ast.AST) else []
        x1 = [c for c in ast.walk(r) if isinstance(c, ast.Call) and call_name(c) == 'partial_derivative'] if isinstance(r, ast.AST) else []
        pdf = [c for c in ast.walk(v) if isinstance(c, ast.Call) and call_name(c) in ('probability_density', 'pdf')] if isinstance(v, ast.AST) else []
        same = bool(x0 and x1 and pdf) and ast.dump(pdf[0].args[0]) == ast.dump(x0[0].args[0]) and ast.dump(x0[0].args[0]) != ast.dump(x1[0].args[0])
        rep.check('D3.recursion', edge, rets[0], okv and same, 'returns (pair density at (left, right), h(left|right), h(right|left))',
                  'Edge.get_likelihood does not return the pair density and the two h-values of its own arguments', construct='edge likelihood triple')
    tr = prog.cls(TREE + 'Tree').methods['get_likelihood']
    logs = [s for s in walk_no_nested(tr.node) if isinstance(s, ast.Assign) and isinstance(s.targets[0], ast.Subscript) and isinstance(s.value, ast.Call)
            and prog.resolve(tr.module, s.value.func) == 'numpy.log']
    call = [s for s in walk_no_nested(tr.node) if isinstance(s, ast.Assign) and isinstance(s.value, ast.Call) and call_name(s.value) == 'get_likelihood'
            and isinstance(s.targets[0], ast.Tuple)]
    ok = False
    if logs and call and isinstance(call[0].targets[0].elts[0], ast.Name):
        vn = call[0].targets[0].elts[0].id
        ok = isinstance(logs[0].value.args[0], ast.Name) and logs[0].value.args[0].id == vn
    rep.check('D3.recursion', tr, logs[0] if logs else tr.node.name, ok, 'each edge contributes np.log(pair density)',
              'the tree likelihood is not the sum of the logarithms of the edge densities', construct='log of edge value')
    rets = [n for n in walk_no_nested(tr.node) if isinstance(n, ast.Return) and isinstance(n.value, ast.Tuple)]
    ok = bool(rets) and isinstance(rets[0].value.elts[0], ast.Call) and call_name(rets[0].value.elts[0]) == 'sum'
    rep.check('D3.recursion', tr, rets[0] if rets else tr.node.name, ok, 'returns (sum of the log values, next matrix)', 'the tree does not return the sum of its edges\' log values',
              construct='tree sum')
    # stores into the next matrix: [L, R] <- left value, [R, L] <- right value, rank 0
    if call and not (len(call[0].targets[0].elts) == 3 and all(isinstance(e, ast.Name) for e in call[0].targets[0].elts)):
        rep.undecided('D3.recursion', tr, call[0], 'how the three values returned by Edge.get_likelihood are bound was not recognised', construct='next matrix cells')
    elif call:
        _v, lv, rv = (e.id for e in call[0].targets[0].elts)
        ev = None
        for s in walk_no_nested(tr.node):
            if isinstance(s, ast.Assign) and isinstance(s.targets[0], ast.Name) and isinstance(s.value, ast.Subscript) and is_self_attr(s.value.value, tr.self_name, 'edges'):
                ev = s.targets[0].id
        rk = RankKind(ctx)
        edge_cls = prog.cls(TREE + 'Edge')

        class RK(RankKind):
            def unpack(self2, val, index, total, node, fr):
                # (value, left_given_right, right_given_left) of Edge.get_likelihood: arrays with one entry per row
                return [0, 1, 1][index] if total == 3 else TOP
        rk = RK(ctx)
        fr = Frame(tr, {}, prog.cls(TREE + 'Tree'))
        for s in walk_no_nested(tr.node):
            if isinstance(s, ast.Assign) and isinstance(s.targets[0], ast.Subscript) and isinstance(s.targets[0].slice, ast.Tuple) \
                    and len(s.targets[0].slice.elts) == 2 and all(isinstance(e, ast.Attribute) for e in s.targets[0].slice.elts):
                a, b = (e.attr for e in s.targets[0].slice.elts)
                src = {x.id for x in ast.walk(s.value) if isinstance(x, ast.Name)}
                good = (a, b) == ('L', 'R') and lv in src or (a, b) == ('R', 'L') and rv in src
                rep.check('D3.recursion', tr, s, good, f'[{a}, {b}] receives the matching conditional value',
                          f'the cell [{a}, {b}] of the next matrix receives the other conditional value', construct=f'next matrix [{a},{b}]')
                r = rk.value(s.value, fr)
                if r == 0:
                    rep.ok('D3.recursion', tr, s, 'the stored value has rank 0', construct=f'rank of next matrix [{a},{b}]')
                elif isinstance(r, int):
                    rep.bad('D3.recursion', tr, s, f'a rank-{r} array is stored into a single cell: raises under NumPy >= 2 for every get_likelihood',
                            construct=f'rank of next matrix [{a},{b}]')
                else:
                    rep.undecided('D3.recursion', tr, s, 'rank of the stored value not derivable', construct=f'rank of next matrix [{a},{b}]')
    vn = prog.method(VINE, 'get_likelihood')
    loops = [n for n in walk_no_nested(vn.node) if isinstance(n, ast.For)]
    ok = False
    if loops:
        lp = loops[0]
        calls = [s for s in lp.body if isinstance(s, ast.Assign) and isinstance(s.value, ast.Call) and call_name(s.value) == 'get_likelihood' and isinstance(s.targets[0], ast.Tuple)]
        if calls:
            arg = calls[0].value.args[0]
            newm = calls[0].targets[0].elts[1].id
            carried = [s for s in lp.body if isinstance(s, ast.Assign) and isinstance(s.targets[0], ast.Name) and isinstance(arg, ast.Name)
                       and s.targets[0].id == arg.id and isinstance(s.value, ast.Name) and s.value.id == newm]
            direct = isinstance(arg, ast.Name) and arg.id == newm
            recv = calls[0].value.func.value
            idx_ok = isinstance(recv, ast.Subscript) and is_self_attr(recv.value, vn.self_name, 'trees') and isinstance(recv.slice, ast.Name) \
                and isinstance(lp.target, ast.Name) and recv.slice.id == lp.target.id
            # for i, tree in enumerate(self.trees) / for tree in self.trees
            it = lp.iter
            over_trees = is_self_attr(it, vn.self_name, 'trees') or (isinstance(it, ast.Call) and call_name(it) == 'enumerate' and it.args
                                                                    and is_self_attr(it.args[0], vn.self_name, 'trees'))
            tvars = [e.id for e in (lp.target.elts if isinstance(lp.target, ast.Tuple) else [lp.target]) if isinstance(e, ast.Name)]
            idx_ok = idx_ok or (over_trees and isinstance(recv, ast.Name) and recv.id in tvars)
            ok = (bool(carried) or direct) and idx_ok
    rep.check('D3.recursion', vn, loops[0] if loops else vn.node.name, ok, 'the matrix returned by tree i is the input of tree i + 1',
              'every tree is evaluated on the same matrix: the conditional pseudo-observations are not propagated', construct='matrix handed on')


def d4(ctx, rep):
    prog = ctx.prog
    rng = get_rng(ctx)
    roots = [prog.method(VINE, 'get_likelihood'), prog.method(TREE + 'Tree', 'get_likelihood'), prog.method(TREE + 'Edge', 'get_likelihood')]
    names = {'get_likelihood', 'probability_density', 'partial_derivative', 'cumulative_distribution', 'check_fit', 'check_theta', '_g', 'split_matrix'}
    clo = ctx.cg.closure(roots)
    bad = [(q, s) for q in clo for s in rng.sites.get(q, ()) if s.kind in ('consume', 'entropy') and clo[q].name in names]
    if bad:
        for q, s in bad:
            rep.bad('D4.determ', clo[q], s.call, f'{s.what} reachable from get_likelihood: the likelihood is not a function of (model, u)')
    else:
        rep.ok('D4.determ', roots[0], roots[0].node.name, 'no entropy source in the likelihood closure', construct='likelihood closure')
    rep.guarded('L4.l4', l4, ctx, rep, only_functions={r.qualname for r in roots}, rule='D4.determ')
    # the point at which the likelihood is evaluated is the caller's point: the argument is not altered before it is used
    CHANGING = {'clip', 'abs', 'absolute', 'maximum', 'minimum', 'where', 'round', 'around', 'nan_to_num', 'sort', 'floor', 'ceil', 'fmin', 'fmax'}
    for fn in roots:
        ps = [p_ for p_ in fn.params[1:]]
        for p_ in ps:
            hits = [a for a in walk_no_nested(fn.node) if isinstance(a, ast.Assign) and any(isinstance(t, ast.Name) and t.id == p_ for t in a.targets)
                    and isinstance(a.value, ast.Call) and call_name(a.value) in CHANGING
                    and any(isinstance(x, ast.Name) and x.id == p_ for x in ast.walk(a.value))]
            hits += [a for a in walk_no_nested(fn.node) if isinstance(a, ast.Assign) and isinstance(a.targets[0], ast.Subscript)
                     and isinstance(a.targets[0].value, ast.Name) and a.targets[0].value.id == p_]
            if hits:
                rep.bad('D4.determ', fn, hits[0], f'`{short(hits[0], 70)}` alters the point `{p_}` handed to {fn.short} before the likelihood is evaluated: the value returned is '
                        'the likelihood of another point', construct=f'{fn.cls.name}.get_likelihood: argument {p_} unchanged')
            else:
                rep.ok('D4.determ', fn, fn.node.name, f'`{p_}` reaches the evaluation unchanged', construct=f'{fn.cls.name}.get_likelihood: argument {p_} unchanged')


def d5(ctx, rep):
    prog = ctx.prog
    fn = prog.method(VINE, 'sample')
    lk = LenKind(ctx)
    fr = Frame(fn, {}, prog.cls(VINE))
    rets = [n for n in walk_no_nested(fn.node) if isinstance(n, ast.Return) and n.value is not None]
    if not rets:
        rep.bad('D5.schema', fn, fn.node.name, 'sample returns nothing', construct='return')
        return
    r = rets[-1].value
    ok_df = isinstance(r, ast.Call) and prog.resolve(fn.module, r.func) == 'pandas.DataFrame'
    cols = kwarg(r, 'columns') if ok_df else None
    rep.check('D5.schema', fn, rets[-1], ok_df and is_self_attr(cols, fn.self_name, 'columns'), 'DataFrame(rows, columns=self.columns)',
              'the sampled rows are not labelled with the training columns', construct='sample columns')
    data = kwarg(r, 'data', 0) if ok_df else None
    ln = lk.value(data, fr) if data is not None else TOP
    if isinstance(ln, tuple) and ln[0] == 'len':
        rep.check('D5.schema', fn, rets[-1], ln[1] == fn.params[1], f'{ln[1]} rows', f'the frame has {ln[1]} rows, not num_rows', construct='sample rows')
    else:
        # positive evidence of a short table: a `for _ in range(num_rows)` loop whose iteration can end without appending its row
        skipped = None
        if isinstance(data, ast.Name):
            for lp in [x for x in walk_no_nested(fn.node) if isinstance(x, ast.For)]:
                it = lp.iter
                if not (isinstance(it, ast.Call) and isinstance(it.func, ast.Name) and it.func.id == 'range' and len(it.args) == 1 and isinstance(it.args[0], ast.Name)
                        and it.args[0].id == fn.params[1]):
                    continue
                apps = [c for c in ast.walk(lp) if isinstance(c, ast.Call) and isinstance(c.func, ast.Attribute) and c.func.attr == 'append'
                        and isinstance(c.func.value, ast.Name) and c.func.value.id == data.id]
                if len(apps) != 1:
                    continue
                st_a = stmt_of(apps[0])
                jumps = [x for x in ast.walk(lp) if isinstance(x, (ast.Continue, ast.Break)) and x.lineno < st_a.lineno]
                if jumps:
                    skipped = (jumps[0], 'a `continue`/`break` placed before the append')
                elif st_a not in lp.body:
                    skipped = (st_a, 'the append is under a condition')
        if skipped:
            rep.bad('D5.schema', fn, skipped[0], f'an iteration of `for ... in range({fn.params[1]})` can end without appending its row ({skipped[1]}) and no replacement is drawn: '
                    f'sample({fn.params[1]}) can return fewer rows than requested', construct='sample rows')
        else:
            rep.undecided('D5.schema', fn, rets[-1], f'row count not derivable ({ln})', construct='sample rows')
    rep.check('D5.schema', fn, fn.node.name, RANDOM_STATE_DECORATOR in fn.decorators, '@random_state', 'not under @random_state', construct='sample decorator')
    sr = prog.method(VINE, '_sample_row')
    # roles of the locals of the row sampler (found by what they are, not by their names)
    from ..idioms import resolve as _resolve
    uni_name = node_name = row_name = None
    for s_ in walk_no_nested(sr.node):
        if isinstance(s_, ast.Assign) and len(s_.targets) == 1 and isinstance(s_.targets[0], ast.Name) and isinstance(s_.value, ast.Call):
            nm = prog.resolve(sr.module, s_.value.func) or ''
            if nm in ('numpy.random.uniform', 'numpy.random.random', 'numpy.random.rand', 'numpy.random.random_sample') and uni_name is None:
                uni_name = s_.targets[0].id
            if call_name(s_.value) in ('pop', 'popleft') and isinstance(s_.value.func, ast.Attribute) and isinstance(getattr(s_, '_parent', None), (ast.While, ast.For)) \
                    and node_name is None:
                node_name = s_.targets[0].id
    rets_sr = [n for n in walk_no_nested(sr.node) if isinstance(n, ast.Return) and isinstance(n.value, ast.Name)]
    if rets_sr:
        row_name = rets_sr[-1].value.id
    if uni_name is None or node_name is None or row_name is None:
        rep.undecided('D5.schema', sr, sr.node.name, 'the uniform draws / the node being visited / the returned row of _sample_row were not recognised', construct='row sampler roles')
        return
    # values passed to the marginal quantile functions: clipped probabilities / uniform draws
    ppf_calls = [c for c in walk_no_nested(sr.node) if isinstance(c, ast.Call) and isinstance(c.func, ast.Subscript) and is_self_attr(c.func.value, sr.self_name, 'ppfs')]
    if not ppf_calls:
        rep.undecided('D5.schema', sr, sr.node.name, 'no call of self.ppfs[...] found in _sample_row: how a drawn probability becomes a value is not derived', construct='marginal quantile calls')
    cur_ok = all(isinstance(c.func.slice, ast.Name) and c.func.slice.id == node_name for c in ppf_calls)
    if ppf_calls:
        rep.check('D5.schema', sr, ppf_calls[0], cur_ok, 'the quantile function of the node being sampled is used',
                  'a value is mapped through the quantile function of another variable', construct='ppf index')
    # every use of the vector of uniform draws is indexed by a node (the node being visited, an already visited node), never by the
    # position in the visiting order: the draw a node consumes and the value other nodes condition on must be the same entry
    steps = {s_.target.id for s_ in walk_no_nested(sr.node) if isinstance(s_, ast.AugAssign) and isinstance(s_.target, ast.Name)}
    steps |= {s_.target.id for s_ in walk_no_nested(sr.node) if isinstance(s_, ast.For) and isinstance(s_.target, ast.Name) and isinstance(s_.iter, ast.Call)
              and call_name(s_.iter) == 'range'}
    uses = [x for x in walk_no_nested(sr.node) if isinstance(x, ast.Subscript) and isinstance(x.value, ast.Name) and x.value.id == uni_name and isinstance(x.ctx, ast.Load)]
    by_step = [x for x in uses if isinstance(x.slice, ast.Name) and x.slice.id in steps]
    by_node = [x for x in uses if x not in by_step]
    if by_step and by_node:
        rep.bad('D5.schema', sr, by_step[0], f'`{short(by_step[0])}` indexes the uniform draws by the position in the visiting order while `{short(by_node[0])}` indexes them by node: '
                'a node can be conditioned on a draw that was not the one it consumed (the dependence of the sampled row is lost)', construct='index of the uniform draws')
    elif uses:
        rep.ok('D5.schema', sr, uses[0], 'the uniform draws are indexed consistently', construct='index of the uniform draws')
    # the edge that joins the node being visited with an already visited one is found whatever its orientation: edges keep their two
    # nodes in sorted order, the walk reaches a node from either side
    from ..boolcond import Conds, atoms_of, equivalent, substitute
    cd_ = Conds(prog, sr)
    for t_ in [x for x in ast.walk(sr.node) if isinstance(x, ast.If)]:
        ev = {x.value.id for x in ast.walk(t_.test) if isinstance(x, ast.Attribute) and x.attr in ('L', 'R') and isinstance(x.value, ast.Name)}
        if len(ev) != 1 or not any(isinstance(x, ast.Name) and x.id == node_name for x in ast.walk(t_.test)):
            continue
        e_ = next(iter(ev))
        f_ = cd_.formula(t_.test)
        keys = list(atoms_of(f_))
        if not all(k.startswith('eq[') for k in keys) or not keys:
            continue
        swap = {}
        for k in keys:
            k2 = k.replace(f'{e_}.L', '\0').replace(f'{e_}.R', f'{e_}.L').replace('\0', f'{e_}.R')
            body = k2[3:-1].split('|')
            swap[k] = ('atom', 'eq[' + '|'.join(sorted(body)) + ']')
        g_ = substitute(f_, swap)
        if set(atoms_of(g_)) - set(keys):
            rep.bad('D5.schema', sr, t_.test, f'`{short(t_.test, 80)}` finds the edge between the visited node and `{node_name}` in one orientation only: edges store their nodes '
                    f'sorted, so a walk that reaches `{node_name}` from the other side misses the pair copula (the node is sampled as if independent)',
                    construct='edge lookup orientation')
        elif equivalent(f_, g_) is not False:
            rep.ok('D5.schema', sr, t_.test, 'the edge lookup is symmetric in (L, R)', construct='edge lookup orientation')
        else:
            rep.bad('D5.schema', sr, t_.test, f'`{short(t_.test, 80)}` is not symmetric in the two nodes of the edge', construct='edge lookup orientation')
    clip = [s for s in walk_no_nested(sr.node) if isinstance(s, ast.Assign) and isinstance(s.targets[0], ast.Name) and isinstance(s.value, ast.Call)
            and call_name(s.value) == 'min' and any(isinstance(x, ast.Call) and call_name(x) == 'max' for x in ast.walk(s.value))]
    clip += [s for s in walk_no_nested(sr.node) if isinstance(s, ast.Assign) and isinstance(s.targets[0], ast.Name) and isinstance(s.value, ast.Call)
             and call_name(s.value) == 'clip' and len(s.value.args) == 3]
    if not clip:
        # positive evidence: a marginal quantile receives a name whose every definition is a percent_point(...) result, unclipped
        direct = None
        for c_ in ppf_calls:
            for x in ast.walk(c_.args[0]) if c_.args else []:
                if isinstance(x, ast.Name) and x.id != node_name:
                    defs = [a_.value for a_ in walk_no_nested(sr.node) if isinstance(a_, ast.Assign) and any(isinstance(t, ast.Name) and t.id == x.id for t in a_.targets)]
                    if defs and all(any(isinstance(y, ast.Call) and call_name(y) == 'percent_point' for y in ast.walk(d_)) for d_ in defs):
                        direct = c_
        if direct is not None:
            rep.bad('D5.schema', sr, direct, 'conditional draws are not clipped strictly inside (0, 1) before the marginal quantile (infinite samples)', construct='clip of the conditional draw')
        else:
            rep.undecided('D5.schema', sr, sr.node.name, 'no clipping of the conditional draw (min(max(..)) / np.clip) recognised before the quantile transform',
                          construct='clip of the conditional draw')
    else:
        from ..constfold import fold
        nums = [fold(prog, sr.module, a_) for c_ in [clip[0].value] + [x for x in ast.walk(clip[0].value) if isinstance(x, ast.Call)] for a_ in c_.args]
        nums = sorted({v for v in nums if v is not None})
        ok = len(nums) >= 2 and 0 < nums[0] and nums[-1] < 1
        rep.check('D5.schema', sr, clip[0], ok, 'conditional draws are clipped into (0, 1) before the quantile transform',
                  'conditional draws are not clipped strictly inside (0, 1) before the marginal quantile (infinite samples)', construct='clip of the conditional draw')
    cond_names = {s.targets[0].id for s in clip}
    # rank of the stored element
    stores = [s for s in walk_no_nested(sr.node) if isinstance(s, ast.Assign) and isinstance(s.targets[0], ast.Subscript) and isinstance(s.targets[0].value, ast.Name)
              and s.targets[0].value.id == row_name]

    class RK(RankKind):
        def call(self2, node, fr2):
            # self.ppfs[i](x): a bound percent_point: elementwise, rank of its argument
            if isinstance(node.func, ast.Subscript) and is_self_attr(node.func.value, sr.self_name, 'ppfs') and node.args:
                return self2.value(node.args[0], fr2)
            return RankKind.call(self2, node, fr2)

        def subscript(self2, node, base, fr2):
            if isinstance(node.value, ast.Name) and node.value.id == uni_name:
                return 0
            return RankKind.subscript(self2, node, base, fr2)

        def name(self2, node, fr2):
            if node.id in cond_names:
                return 0
            return RankKind.name(self2, node, fr2)
    rk = RK(ctx)
    fr2 = Frame(sr, {}, prog.cls(VINE))
    for s in stores:
        r0 = rk.value(s.value, fr2)
        if not isinstance(r0, int) and isinstance(s.value, ast.Name):
            # several definitions reach the store: each of them must be rank 0
            binds = fr2.bindings.get(s.value.id, [])
            reach, _init = rk.reaching(s.value, binds, fr2)
            ranks = [rk.binding_value(s.value.id, b, fr2) for b in reach]
            if ranks and all(isinstance(x, int) for x in ranks):
                r0 = max(ranks)
            elif any(isinstance(x, int) and x > 0 for x in ranks):
                r0 = max(x for x in ranks if isinstance(x, int))
        if r0 == 0:
            rep.ok('D5.schema', sr, s, 'the value stored into one element of the row has rank 0', construct='rank of the sampled element')
        elif isinstance(r0, int):
            rep.bad('D5.schema', sr, s, f'a rank-{r0} array is stored into one element of the row: raises under NumPy >= 2 for every sample', construct='rank of the sampled element')
        else:
            rep.undecided('D5.schema', sr, s, f'rank of the stored value not derivable ({r0})', construct='rank of the sampled element')
    # the copula used in the row traversal conditions on an already visited node: percent_point(new probability, value of the uniform draws at a node)
    pp = [c for c in walk_no_nested(sr.node) if isinstance(c, ast.Call) and call_name(c) == 'percent_point']
    for c in pp:
        second = _resolve(sr.node, c.args[1]) if len(c.args) == 2 else None
        given = second is not None and any(isinstance(x, ast.Subscript) and isinstance(x.value, ast.Name) and x.value.id == uni_name
                                           and not (isinstance(x.slice, ast.Name) and x.slice.id == node_name) for x in ast.walk(second))
        first_is_given = len(c.args) == 2 and any(isinstance(x, ast.Subscript) and isinstance(x.value, ast.Name) and x.value.id == uni_name
                                                   and not (isinstance(x.slice, ast.Name) and x.slice.id in (node_name,) + tuple(steps)) for x in ast.walk(_resolve(sr.node, c.args[0])))
        if given and not first_is_given:
            rep.ok('D5.schema', sr, c, 'percent_point(probability, conditioning value)', construct=f'percent_point arguments: {short(c, 40)}')
        elif first_is_given and not given:
            rep.bad('D5.schema', sr, c, 'percent_point arguments are not (probability, conditioning value)', construct=f'percent_point arguments: {short(c, 40)}')
        else:
            rep.undecided('D5.schema', sr, c, 'which argument of percent_point is the conditioning value was not derived', construct=f'percent_point arguments: {short(c, 40)}')


_INPLACE = {'add', 'update', 'discard', 'remove', 'pop', 'clear', 'append', 'extend', 'insert', 'sort', 'reverse', 'setdefault', 'popitem',
            'intersection_update', 'difference_update', 'symmetric_difference_update', 'fill', 'put', 'resize', 'itemset'}


def d7_readonly(ctx, rep):
    """Queries leave the fitted vine as it is: likelihood and sampling are functions of (model, argument) only if evaluating them does
    not edit the trees.  Positive evidence only: an in-place operation on a container that is an attribute of an object reached from
    `self` without a copy, in a function that only the query entry points reach."""
    prog = ctx.prog
    rep.rule('D7.readonly', 'no function reached only from sample / get_likelihood / to_dict edits in place a container held by the fitted model (an attribute of an '
             'object reached from self without a copy)')
    vine = prog.cls('copulas.multivariate.vine.VineCopula')
    entries = [m for m in (vine.lookup(n_) for n_ in ('sample', 'get_likelihood', 'to_dict')) if m is not None]
    fit = vine.lookup('fit')
    q_closure = ctx.cg.closure(entries, concrete=None)
    f_closure = ctx.cg.closure([fit], concrete=None) if fit is not None else {}
    fns = [f for qn, f in sorted(q_closure.items()) if qn not in f_closure and f.cls is not None and f.cls.module.name.startswith('copulas.multivariate') and f.self_name]
    n = 0
    for f in fns:
        held = {f.self_name: 'self'}     # local name -> description of the model object / container it stands for
        aliases = {}                      # local name bound to <held>.<attr> (a container of the model), not copied

        def root(e):
            while isinstance(e, (ast.Attribute, ast.Subscript)):
                e = e.value
            return e.id if isinstance(e, ast.Name) else None
        for _ in range(4):
            for s_ in walk_no_nested(f.node):
                if isinstance(s_, ast.Assign) and len(s_.targets) == 1 and isinstance(s_.targets[0], ast.Name) and isinstance(s_.value, (ast.Attribute, ast.Subscript)) \
                        and root(s_.value) in held:
                    nm = s_.targets[0].id
                    others = [a for a in walk_no_nested(f.node) if isinstance(a, ast.Assign) and a is not s_ and any(isinstance(t, ast.Name) and t.id == nm for t in a.targets)]
                    if not others:
                        held.setdefault(nm, short(s_.value, 40))
                        if isinstance(s_.value, ast.Attribute):
                            aliases.setdefault(nm, s_.value)
                elif isinstance(s_, ast.For):
                    it = s_.iter
                    tg = s_.target
                    if isinstance(it, ast.Call) and isinstance(it.func, ast.Name) and it.func.id == 'enumerate' and it.args and isinstance(tg, ast.Tuple) and len(tg.elts) == 2:
                        it, tg = it.args[0], tg.elts[1]
                    if isinstance(tg, ast.Name) and isinstance(it, (ast.Attribute, ast.Subscript, ast.Name)) and root(it) in held:
                        held.setdefault(tg.id, f'an element of {short(it, 40)}')
        n += 1
        hits = []
        for x in walk_no_nested(f.node):
            tgt = None
            if isinstance(x, ast.Call) and isinstance(x.func, ast.Attribute) and x.func.attr in _INPLACE:
                recv = x.func.value
                if isinstance(recv, ast.Name) and recv.id in aliases:
                    tgt = aliases[recv.id]
                elif isinstance(recv, ast.Attribute) and root(recv) in held and recv.attr not in ('trees', ) and not (isinstance(recv.value, ast.Name) and recv.value.id == f.self_name):
                    tgt = recv
            elif isinstance(x, ast.AugAssign) and isinstance(x.target, ast.Name) and x.target.id in aliases \
                    and isinstance(x.value, (ast.Set, ast.List, ast.SetComp, ast.ListComp, ast.Dict)):
                tgt = aliases[x.target.id]          # `s |= {...}` / `l += [...]` on a set / list updates it in place
            elif isinstance(x, ast.AugAssign) and isinstance(x.target, ast.Attribute) and root(x.target) in held and root(x.target) != f.self_name:
                tgt = x.target
            if tgt is not None:
                hits.append((x, tgt))
        for x, tgt in hits:
            rep.bad('D7.readonly', f, x, f'`{short(x, 50)}` updates `{short(tgt, 30)}` in place: a container of the fitted model, reached from self without a copy; '
                    'after this query the stored vine differs from the one fit produced', construct=f'{f.node.name}: fitted state only read')
        if not hits:
            rep.ok('D7.readonly', f, f.node.name, 'no in-place update of a container reached from self', construct=f'{f.node.name}: fitted state only read')
    if n == 0:
        rep.undecided('D7.readonly', entries[0] if entries else fit, 'VineCopula', 'no query-only function found')
