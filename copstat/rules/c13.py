"""C13 - Gaussian-copula density/CDF equal the normal-score MVN in any representation (PARTIAL)."""

import ast

from .. import contracts as K
from ..absint import TOP
from ..idioms import enum_paths
from ..model import call_name, is_self_attr, kwarg, short, walk_no_nested
from . import gauss

def _negated(test):
    p = getattr(test, '_parent', None)
    return isinstance(p, ast.UnaryOp) and isinstance(p.op, ast.Not)


REDUCTIONS = {'sum', 'mean', 'max', 'min', 'std', 'var', 'median', 'all', 'any', 'cumsum', 'argsort', 'sort', 'rank',
              'argmax', 'argmin', 'prod', 'unique'}


def run(ctx, rep):
    prog = ctx.prog
    rep.trust(*K.TRUSTED_BASE_COMMON, 'scipy.stats.multivariate_normal.pdf/cdf(x, mean=0, cov=C) evaluate rows independently')
    rep.notes.append('C13 PARTIAL: decides the delegation to the zero-mean MVN with the fitted correlation on normal scores, '
                     'the alignment of query columns with the correlation for every container type, the log composition '
                     'and row independence of the transform; numeric equality and monotonicity are not decided.')
    rep.rule('D1.delegate', 'probability_density / cumulative_distribution evaluate multivariate_normal.pdf/.cdf on normal scores with cov = the fitted correlation and zero mean')
    rep.rule('D1.log', 'log_probability_density is np.log(probability_density(X))')
    rep.rule('D2.align', 'the normal scores are ordered like the rows/columns of the correlation for DataFrame (any column order), Series and array input')
    rep.rule('D2.series', 'a Series query is converted to a labelled one-row frame (labels kept), an array is labelled with the training columns')
    rep.rule('D3.rows', 'no reduction over the batch axis between the input rows and the MVN call')
    sk, facts = gauss.space_analysis(ctx)
    for mname, leaf, reskind in (('probability_density', 'pdf', 'D'), ('cumulative_distribution', 'cdf', 'P')):
        fn = gauss.gm_method(ctx, mname)
        calls = [c for c in walk_no_nested(fn.node) if isinstance(c, ast.Call)
                 and (prog.resolve(fn.module, c.func) or '').startswith('scipy.stats.multivariate_normal.')]
        rets = [n for n in walk_no_nested(fn.node) if isinstance(n, ast.Return) and n.value is not None]
        if not calls:
            # the call may sit in a helper or be passed as a function value: which MVN function is evaluated is then not
            # derived here (the space-kind analysis below still checks every MVN call it can see in the helpers)
            mentions = [x for x in ast.walk(fn.node) if isinstance(x, ast.Attribute) and (prog.resolve(fn.module, x) or '').startswith('scipy.stats.multivariate_normal.')]
            wrong = [x for x in mentions if not (prog.resolve(fn.module, x) or '').endswith('.' + leaf)]
            if wrong:
                rep.bad('D1.delegate', fn, wrong[0], f'{mname} hands {prog.resolve(fn.module, wrong[0])} to its helper, not multivariate_normal.{leaf}',
                        construct=f'callee of {mname}')
            else:
                rep.undecided('D1.delegate', fn, fn.node.name, f'no direct multivariate_normal.{leaf} call in {mname} (delegated to a helper)',
                              construct=f'multivariate_normal.{leaf}')
            continue
        for c in calls:
            nm = prog.resolve(fn.module, c.func)
            rep.check('D1.delegate', fn, c, nm.endswith('.' + leaf), f'delegates to multivariate_normal.{leaf}',
                      f'{mname} delegates to {nm}', construct=f'callee of {mname}')
            lst = facts.get((mname, id(c)), [])
            kinds = {repr(a[0]) for _p, _c, a, _k in lst if a}
            covs = {repr(k.get('cov')) for _p, _c, _a, k in lst}
            if kinds == {"'Z'"}:
                rep.ok('D1.delegate', fn, c, 'evaluation points are normal scores (kind Z)', construct=f'points of {mname}')
            elif any(k not in ("'Z'", 'TOP') for k in kinds):
                rep.bad('D1.delegate', fn, c, f'evaluation points have kind {kinds}, not normal scores', construct=f'points of {mname}')
            else:
                rep.undecided('D1.delegate', fn, c, f'kind of the evaluation points: {kinds}', construct=f'points of {mname}')
        # the matrix handed as cov= is the fitted correlation itself on every path; a value that is the correlation plus / minus something
        # (an evaluation-time ridge, a shrinkage) on some path is positive evidence of another matrix
        cls_ = prog.cls(gauss.GM)

        def cov_sources(owner, e, depth=0):
            if depth > 5:
                return {None}
            while isinstance(e, ast.Call) and ((isinstance(e.func, ast.Attribute) and e.func.attr in ('to_numpy', 'copy', 'astype')) or call_name(e) in ('asarray', 'array')):
                e = e.func.value if (isinstance(e.func, ast.Attribute) and e.func.attr in ('to_numpy', 'copy', 'astype')) else (e.args[0] if e.args else e)
                if not isinstance(e, ast.Call):
                    break
            if isinstance(e, ast.Attribute) and e.attr == 'values':
                e = e.value
            if is_self_attr(e, owner.self_name, 'correlation'):
                return {'CORR'}
            if isinstance(e, ast.Name):
                defs = [a.value for a in walk_no_nested(owner.node) if isinstance(a, ast.Assign) and any(isinstance(t, ast.Name) and t.id == e.id for t in a.targets)]
                out = set()
                for d_ in defs:
                    out |= cov_sources(owner, d_, depth + 1)
                return out or {None}
            if isinstance(e, ast.Call) and is_self_attr(e.func, owner.self_name) and not e.args:
                h = cls_.lookup(e.func.attr)
                if h is not None:
                    out = set()
                    for r_ in [x for x in walk_no_nested(h.node) if isinstance(x, ast.Return) and x.value is not None]:
                        out |= cov_sources(h, r_.value, depth + 1)
                    return out or {None}
            if isinstance(e, ast.BinOp) and isinstance(e.op, (ast.Add, ast.Sub, ast.Mult, ast.Div)):
                l_, r_ = cov_sources(owner, e.left, depth + 1), cov_sources(owner, e.right, depth + 1)
                if 'CORR' in l_ | r_ or 'MOD' in l_ | r_:
                    return {'MOD'}
            return {None}
        for c in calls:
            cv = kwarg(c, 'cov', 2)
            if cv is not None and not is_self_attr(cv, fn.self_name, 'correlation'):
                src = cov_sources(fn, cv)
                if 'MOD' in src:
                    rep.bad('D1.delegate', fn, c, f'on some path the matrix handed as cov= (`{short(cv, 40)}`) is the fitted correlation with something added or scaled: the value is '
                            'not the multivariate normal density / CDF of the fitted correlation', construct=f'covariance of {mname}')
        for r in rets:
            rv = r.value
            if isinstance(rv, ast.Name):
                from ..idioms import single_def
                d = single_def(fn.node, rv.id)
                rv = d if isinstance(d, ast.AST) else rv
            ok = any(x in calls for x in ast.walk(rv))
            rep.check('D1.delegate', fn, r, ok, 'returns the MVN value', 'the returned value is not the MVN value',
                      construct=f'return of {mname}')
    gauss.report_space(ctx, rep, 'D1.delegate', ['probability_density', 'cumulative_distribution'])
    # log composition
    base = prog.method('copulas.multivariate.base.Multivariate', 'log_probability_density', inherited=False)
    eff = prog.cls(gauss.GM).lookup('log_probability_density')
    from ..idioms import resolve as _resolve
    rets = [n for n in walk_no_nested(eff.node) if isinstance(n, ast.Return) and n.value is not None]
    rv = _resolve(eff.node, rets[0].value) if len(rets) == 1 else None
    inner = _resolve(eff.node, rv.args[0]) if isinstance(rv, ast.Call) and rv.args else None
    good = isinstance(rv, ast.Call) and prog.resolve(eff.module, rv.func) == 'numpy.log' \
        and isinstance(inner, ast.Call) and is_self_attr(inner.func, eff.self_name, 'probability_density')
    if good:
        rep.ok('D1.log', eff, rets[0], 'np.log(self.probability_density(X))')
    else:
        logpdf = any(isinstance(c, ast.Call) and (prog.resolve(eff.module, c.func) or '').endswith('multivariate_normal.logpdf')
                     for c in walk_no_nested(eff.node))
        if logpdf:
            rep.undecided('D1.log', eff, eff.node.name, 'uses multivariate_normal.logpdf (not the np.log composition)', construct='log density')
        elif isinstance(rv, ast.Call) and prog.resolve(eff.module, rv.func) == 'numpy.log' and inner is not None:
            rep.bad('D1.log', eff, eff.node.name, f'log_probability_density is the logarithm of {short(inner, 50)}, not of probability_density(X)', construct='log density')
        elif isinstance(rv, ast.Call) and (prog.resolve(eff.module, rv.func) or '').startswith('numpy.log'):
            rep.bad('D1.log', eff, eff.node.name, f'log_probability_density applies {prog.resolve(eff.module, rv.func)} instead of numpy.log', construct='log density')
        else:
            rep.undecided('D1.log', eff, eff.node.name, 'form of log_probability_density not recognised', construct='log density')
    gauss.report_order(ctx, rep, 'D2.align', ['_transform_to_normal', 'probability_density', 'cumulative_distribution'], floor=4)
    gauss.report_marginal_index(ctx, rep, 'D2.align', ['_transform_to_normal', 'probability_density', 'cumulative_distribution'])
    # D2.series: structure of the container normalisation (searched in _transform_to_normal and its private helpers)
    from ..idioms import private_closure, resolve
    from ..boolcond import Conds
    tn = gauss.gm_method(ctx, '_transform_to_normal')
    series_ok = array_ok = False
    series_test_seen = False
    for f in private_closure(ctx, tn, prog.cls(gauss.GM)):
        for xp in f.params[1:] if f.self_name else f.params:
            for path in enum_paths(f.body()):
                is_series = is_frame = None
                for test, pol in path.conds:
                    if not isinstance(test, ast.expr):
                        continue
                    while isinstance(test, ast.UnaryOp) and isinstance(test.op, ast.Not):
                        test, pol = test.operand, not pol
                    if isinstance(test, ast.Call) and call_name(test) == 'isinstance' and len(test.args) == 2 \
                            and isinstance(test.args[0], ast.Name) and test.args[0].id == xp:
                        tname = prog.resolve(f.module, test.args[1]) or ''
                        if tname == 'pandas.Series':
                            is_series = pol
                            series_test_seen = True
                        if tname == 'pandas.DataFrame':
                            is_frame = pol
                # the values the parameter is re-bound to / that are returned on this path
                outs = [s_.value for s_ in path.stmts if isinstance(s_, ast.Assign) and isinstance(s_.targets[0], ast.Name) and s_.targets[0].id == xp]
                if isinstance(path.end, ast.Return) and path.end.value is not None:
                    outs.append(resolve(f.node, path.end.value))
                for v in outs:
                    if is_series is True:
                        if isinstance(v, ast.Attribute) and v.attr == 'T' and isinstance(v.value, ast.Call) and call_name(v.value) == 'to_frame':
                            series_ok = True
                        if isinstance(v, ast.Call) and prog.resolve(f.module, v.func) == 'pandas.DataFrame' and v.args \
                                and isinstance(v.args[0], ast.List) and kwarg(v, 'columns') is None:
                            series_ok = True
                    if is_frame is False and is_series is not True:
                        if isinstance(v, ast.Call) and prog.resolve(f.module, v.func) == 'pandas.DataFrame':
                            cols = kwarg(v, 'columns')
                            if cols is not None and is_self_attr(cols, f.self_name, 'columns'):
                                array_ok = True
    xq = (tn.params[1:] or [None])[0]
    converted = [a for a in walk_no_nested(tn.node) if isinstance(a, ast.Assign) and any(isinstance(t, ast.Name) and t.id == xq for t in a.targets)
                 and isinstance(a.value, ast.Call) and any(isinstance(x, ast.Name) and x.id == xq for x in ast.walk(a.value))
                 and not (prog.resolve(tn.module, a.value.func) or '').startswith(('pandas.', 'numpy.'))]      # a project helper, not a library constructor
    if not series_test_seen and converted:
        rep.undecided('D2.series', tn, converted[0], f'the query is converted by `{short(converted[0].value, 50)}`, in which no test for a Series was recognised: how a Series is '
                      'labelled is not derived', construct='Series branch')
    elif not series_test_seen:
        rep.bad('D2.series', tn, tn.node.name, 'no branch treats a Series query: its values are taken positionally, whatever its index order',
                construct='Series branch')
    else:
        rep.check('D2.series', tn, tn.node.name, series_ok, 'Series -> X.to_frame().T (labels kept)',
                  'a Series query is not turned into a labelled frame: its values are taken positionally, whatever its index order',
                  construct='Series branch')
    if array_ok:
        rep.ok('D2.series', tn, tn.node.name, 'array -> DataFrame(X, columns=self.columns)', construct='array branch')
    else:
        rep.undecided('D2.series', tn, tn.node.name, 'labelling of a plain array with the training columns not recognised', construct='array branch')
    # D3 row independence
    for mname in ('_transform_to_normal', 'probability_density', 'cumulative_distribution'):
        fn = gauss.gm_method(ctx, mname)
        red = []
        for c in walk_no_nested(fn.node):
            if isinstance(c, ast.Call):
                nm = call_name(c)
                full = prog.resolve(fn.module, c.func) or ''
                if nm in REDUCTIONS and not full.startswith('scipy.stats.multivariate_normal'):
                    red.append(c)
        if red:
            for c in red:
                rep.bad('D3.rows', fn, c, 'a reduction over the batch couples the rows of one query')
        else:
            rep.ok('D3.rows', fn, fn.node.name, 'no batch reduction', construct=f'def {mname}')
