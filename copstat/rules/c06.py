"""C06 - Clayton, Frank and Gumbel CDFs are Archimedean copulas (PARTIAL: symmetry, row independence, validation)."""

import ast

from .. import contracts as K
from ..exprnf import function_nf
from ..model import AnalysisError, call_name, short, walk_no_nested
from .c19 import l1

FAMILIES = {'Clayton': 'copulas.bivariate.clayton.Clayton', 'Frank': 'copulas.bivariate.frank.Frank',
            'Gumbel': 'copulas.bivariate.gumbel.Gumbel'}
BATCH_REDUCTIONS = {'all', 'any', 'sum', 'max', 'min', 'mean', 'std', 'prod', 'argmax', 'argmin', 'sort', 'argsort', 'cumsum',
                    'median', 'unique', 'ptp', 'var', 'cumprod', 'nanmax', 'nanmin', 'allclose', 'array_equal', 'array_equiv'}
# Reductions over the batch that were read by hand and cannot change a row of a batch inside the property's quantifier.
# Keys are written with the canonical names U, V for the two columns; candidates are compared through their AC normal
# form with local temporaries inlined, so renaming locals or reordering operands does not create a "new" candidate.
ROW_TRIAGE = {
    ('Clayton', 'cumulative_distribution', '(V == 0).all() or (U == 0).all()'):
        'equal-value shortcut: taken only when every row has u=0 (or every row v=0), where each row is 0 anyway',
    ('Clayton', 'percent_point', '(np.power(V, self.theta) == 0).all()'):
        'needs V**theta == 0 for every row, i.e. v == 0 everywhere: outside the quantifier (v >= 1e-4, theta <= 8)',
    ('Clayton', 'partial_derivative', '(np.power(V, -self.theta - 1) == np.inf).any()'):
        'needs v**(-theta-1) == inf, impossible for theta <= 8 and v >= 1e-4 (at most 1e36)',
}


def split_names(prog, fn):
    """(U name, V name) unpacked from split_matrix(X), or the (y, V) parameters of percent_point."""
    for s in walk_no_nested(fn.node):
        if isinstance(s, ast.Assign) and isinstance(s.value, ast.Call) and prog.resolve(fn.module, s.value.func) == 'copulas.bivariate.utils.split_matrix' \
                and isinstance(s.targets[0], ast.Tuple) and len(s.targets[0].elts) == 2 and all(isinstance(e, ast.Name) for e in s.targets[0].elts):
            return s.targets[0].elts[0].id, s.targets[0].elts[1].id
    return None


def _asymmetry_witness(ctx, fam, method):
    from ..ivkind import IV, evaluate
    from .ivcases import EXACT_THETAS, Q
    cls = ctx.prog.cls(Q[fam])
    cuts = [0.07, 0.21, 0.38, 0.55, 0.72, 0.9]
    cells = [IV(c, c + 1e-4) for c in cuts]
    cache = ctx.memo.setdefault('ivcases', {}).setdefault('dom', {})
    dom = (IV(1e-4, 1 - 1e-4), IV(1e-4, 1 - 1e-4))

    def single(th, u, v):
        alts = evaluate(ctx, cls, method, th, u, v, alts=True, domain=dom, domcache=cache)
        good = [x for x, d_, _ in alts if d_ and isinstance(x, IV) and not x.nan]
        return good[0] if len(alts) == len(good) == 1 else None
    for th in EXACT_THETAS[fam]:
        for i, u in enumerate(cells):
            for v in cells[i + 1:]:
                x1, x2 = single(th, u, v), single(th, v, u)
                if x1 is None or x2 is None:
                    continue
                tol = 1e-9 + 1e-9 * max(abs(x1.lo), abs(x1.hi), abs(x2.lo), abs(x2.hi))
                if x1.lo > x2.hi + tol or x1.hi < x2.lo - tol:
                    return th, u, v, x1, x2
    return None


def symmetry(ctx, rep, rule, method):
    prog = ctx.prog
    n = 0
    for fam, q in FAMILIES.items():
        cls = prog.cls(q)
        fn = cls.methods.get(method)
        if fn is None:
            raise AnalysisError(f'anchor vanished: {fam}.{method}')
        names = split_names(prog, fn)
        n += 1
        if names is None:
            rep.undecided(rule, fn, fn.node.name, 'U, V = split_matrix(X) not found', construct=f'{fam}.{method}')
            continue
        u, v = names
        a = function_nf(prog, fn, rename={u: 'U', v: 'V'}, batch_names=('U', 'V'), skip_calls=('check_fit',))
        b = function_nf(prog, fn, rename={u: 'V', v: 'U'}, batch_names=('U', 'V'), skip_calls=('check_fit',))
        if 'opaque' not in repr(a) and a == b:
            rep.ok(rule, fn, fn.node.name, f'AC normal form of {fam}.{method} is invariant under U <-> V', construct=f'{fam}.{method}')
            continue
        # different normal forms only mean "not shown equal": look for positive evidence, a box on which the value at (u, v) and
        # the value at (v, u) cannot coincide (exact theta, narrow cells)
        wit = _asymmetry_witness(ctx, fam, method)
        if wit is not None:
            th, u_, v_, x1, x2 = wit
            rep.bad(rule, fn, fn.node.name, f'{fam}.{method}(u, v) is not symmetric in (u, v): for theta = {th.lo:g}, u in {u_}, v in {v_} the value lies in {x1} '
                    f'but with the arguments exchanged in {x2}', construct=f'{fam}.{method}')
        else:
            rep.undecided(rule, fn, fn.node.name, f'{fam}.{method}: the normal form is not invariant under U <-> V (helper calls or different spellings) and no box '
                          'separates the value at (u, v) from the value at (v, u)', construct=f'{fam}.{method}')
    rep.floor(rule, 'family methods normalised', n, 3)


ONES = {"('call', 'ones', ('BATCH',))", "('call', 'ones', ('shape', ('name', 'U')))", "('call', 'ones', ('shape', ('name', 'V')))",
        "('call', 'full', ('BATCH',), ('num', 1))"}
SHORTCUT = {'cumulative_distribution': ('u * v', lambda f: f == "('*', ('name', 'U'), ('name', 'V'))"),
            'partial_derivative': ('u', lambda f: f == "('name', 'U')"),
            'probability_density': ('1', lambda f: f in ONES)}


def shortcut_consistency(ctx, rep, rule, method):
    """Sibling cross-check: an early-return shortcut of a family method (the independence value of its parameter) must be
    the independence copula's value of that method - u*v, u, 1 - unless its guard is `theta == <invalid theta>` (dead)."""
    from ..exprnf import NF
    from ..idioms import guard_chain
    from ..model import const_value, is_self_attr
    prog = ctx.prog
    what, accept = SHORTCUT[method]
    for fam, q in FAMILIES.items():
        cls = prog.cls(q)
        fn = cls.methods.get(method)
        if fn is None:
            continue
        names = split_names(prog, fn)
        if names is None:
            continue
        inv = cls.lookup_attr('invalid_thetas')
        invalid = [const_value(e) for e in inv[1].elts] if inv is not None and isinstance(inv[1], (ast.List, ast.Tuple)) else []
        nfc = NF(prog, fn, rename={names[0]: 'U', names[1]: 'V'}, batch_names=('U', 'V'))
        rets = [r for r in walk_no_nested(fn.node) if isinstance(r, ast.Return) and r.value is not None]
        from ..boolcond import Conds, atoms_of, f_not, implies
        cd = Conds(prog, fn)
        for r in rets:
            reach = cd.reach(r)
            if reach is None or len(ast.dump(r.value)) > 400:
                continue
            keys = [k for k in atoms_of(reach) if 'theta' in k]
            if not keys:
                continue
            eqs = [k for k in keys if k.startswith('eq[')]
            pinned = [k for k in eqs if implies(reach, ('atom', k))]          # reached only when theta == c
            excluded = [k for k in keys if implies(reach, f_not(('atom', k)))]  # reached only when the test on theta fails
            if not pinned and len(excluded) == len(keys):
                continue  # the general formula
            consts = [x for k in pinned for x in k[3:-1].split('|') if 'theta' not in x]
            dead = bool(pinned) and any(c_ in {repr(v) for v in invalid} | {str(v) for v in invalid} for c_ in consts)
            if dead:
                rep.ok(rule, fn, r, f'{fam}.{method}: shortcut guarded by theta == {invalid} is unreachable after check_fit()', construct=f'{fam}.{method} shortcut')
                continue
            form = repr(nfc.nf(r.value))
            if 'opaque' in form:
                rep.undecided(rule, fn, r, f'{fam}.{method}: value of the shortcut not normalised', construct=f'{fam}.{method} shortcut')
            else:
                rep.check(rule, fn, r, accept(form), f'{fam}.{method}: the independence shortcut returns {what}',
                          f'{fam}.{method}: the shortcut `{short(r.value, 50)}` is not the independence value {what} of this method', construct=f'{fam}.{method} shortcut')


def row_independence(ctx, rep, rule, methods):
    prog = ctx.prog
    n = 0
    for fam, q in FAMILIES.items():
        cls = prog.cls(q)
        for method in methods:
            fn = cls.methods.get(method)
            if fn is None:
                continue
            n += 1
            found = []
            for c in walk_no_nested(fn.node):
                if isinstance(c, ast.Call) and call_name(c) in BATCH_REDUCTIONS:
                    if call_name(c) in ('min', 'max') and isinstance(c.func, ast.Name) and len(c.args) >= 2:
                        continue  # builtin min/max of scalars
                    found.append(c)
                if isinstance(c, ast.Call) and call_name(c) == 'len':
                    # a value that depends on the batch length
                    par = c._parent
                    if not (isinstance(par, ast.Call) and call_name(par) in ('range', 'zeros', 'ones', 'full', 'empty')):
                        found.append(c)
            # group by the enclosing test / statement; compare with the triage table through normal forms
            from ..exprnf import NF
            names = split_names(prog, fn)
            ren = {names[0]: 'U', names[1]: 'V'} if names else {}
            nfc = NF(prog, fn, rename=ren)
            table = {}
            for (tfam, tmeth, ttext), reason in ROW_TRIAGE.items():
                if (tfam, tmeth) == (fam, method):
                    try:
                        tnode = ast.parse(ttext.replace('self.', fn.self_name + '.'), mode='eval').body
                        table[repr(NF(prog, fn, rename={'U': 'U', 'V': 'V'}).nf(tnode))] = (ttext, reason)
                    except SyntaxError:
                        pass
            seen = set()
            for c in found:
                top = c
                while not isinstance(top._parent, ast.stmt):
                    top = top._parent
                stmt = top._parent
                construct = short(stmt.test if isinstance(stmt, (ast.If, ast.While)) else top, 200)
                if construct in seen:
                    continue
                seen.add(construct)
                expr = stmt.test if isinstance(stmt, (ast.If, ast.While)) else top
                while isinstance(expr, ast.UnaryOp) and isinstance(expr.op, ast.Not):
                    expr = expr.operand      # the negated test is the same reduction, with its branches exchanged
                hit = table.get(repr(nfc.nf(expr)))
                if hit:
                    rep.triaged(rule, fn, stmt, f'batch reduction `{construct}` - triaged: {hit[1]}', construct=f'{fam}.{method}: {hit[0]}')
                else:
                    rep.bad(rule, fn, stmt, f'`{construct}` reduces over the batch: the value of one row can depend on the other rows '
                            'of the same call', construct=f'{fam}.{method}: {construct}')
            if not found:
                rep.ok(rule, fn, fn.node.name, 'elementwise only', construct=f'{fam}.{method}')
    rep.floor(rule, 'vectorised family methods scanned', n, 3 * len(methods) - 3)


def archimedean_composition(ctx, rep):
    """generator(C(u, v)) = generator(u) + generator(v) on narrow boxes with exact theta: both sides are evaluated as
    intervals; disjoint intervals (beyond a relative tolerance) refute the identity for every point of the box."""
    from ..ivkind import IV, evaluate
    from .ivcases import EXACT_THETAS, Q
    k = 12 if ctx.thorough else 6
    cuts = [0.02 + 0.96 * i / k for i in range(k + 1)]
    w = 1e-4
    cells = [IV(c, c + w) for c in cuts]
    cache = ctx.memo.setdefault('ivcases', {}).setdefault('dom', {})
    dom = (IV(0.0, 1.0), IV(0.0, 1.0))
    for fam in ('Clayton', 'Frank', 'Gumbel'):
        cls = ctx.prog.cls(Q[fam])
        g = cls.lookup('generator')
        cons = f'{fam}: generator(C(u,v)) = generator(u) + generator(v)'
        if g is None or cls.lookup('cumulative_distribution') is None:
            continue
        total = und = 0
        refuted = None
        for th in EXACT_THETAS[fam]:
            for u in cells:
                for v in cells:
                    total += 1
                    cs = evaluate(ctx, cls, 'cumulative_distribution', th, u, v, alts=True, domain=dom, domcache=cache)
                    gu = [x for x, d_, _ in evaluate(ctx, cls, 'generator', th, u, IV(1.0), alts=True) if d_]
                    gv = [x for x, d_, _ in evaluate(ctx, cls, 'generator', th, v, IV(1.0), alts=True) if d_]
                    if len(gu) != 1 or len(gv) != 1 or not isinstance(gu[0], IV) or not isinstance(gv[0], IV) or gu[0].nan or gv[0].nan:
                        und += 1
                        continue
                    rhs = IV(gu[0].lo + gv[0].lo, gu[0].hi + gv[0].hi)
                    for c, definite, _ in cs:
                        if not isinstance(c, IV) or c.nan or not definite:
                            und += 1
                            continue
                        cc = IV(max(c.lo, 0.0), min(c.hi, 1.0)) if c.lo <= 1.0 and c.hi >= 0.0 else c
                        lhs = [x for x, d_, _ in evaluate(ctx, cls, 'generator', th, cc, IV(1.0), alts=True) if d_]
                        if len(lhs) != 1 or not isinstance(lhs[0], IV) or lhs[0].nan == 1:
                            und += 1
                            continue
                        l = lhs[0]
                        tol = 1e-6 * max(1.0, abs(rhs.lo), abs(rhs.hi))
                        if l.nan == 2 or l.lo > rhs.hi + tol or l.hi < rhs.lo - tol:
                            refuted = refuted or (th, u, v, c, l, rhs)
            if refuted:
                break
        if refuted:
            th, u, v, c, l, rhs = refuted
            rep.bad('D6.generator', g, g.node.name, f'{fam}: for theta = {th.lo:g}, u in {u}, v in {v} the CDF lies in {c}, its generator in {l}, while '
                    f'generator(u) + generator(v) lies in {rhs}: the CDF is not the Archimedean copula of this generator', construct=cons)
        else:
            rep.undecided('D6.generator', g, g.node.name, f'generator(C(u,v)) = generator(u) + generator(v): not refuted on any of {total} narrow boxes'
                          f'{" (" + str(und) + " evaluations not decided)" if und else ""} (a relation; intervals can refute it, not prove it)', construct=cons)


def theta_ordering(ctx, rep):
    """Larger theta gives a pointwise larger C: for consecutive exact thetas t1 < t2 and a narrow box, the interval of
    C(.; t1) must not lie entirely above the interval of C(.; t2) (refutation only)."""
    from ..ivkind import IV, evaluate
    from .ivcases import EXACT_THETAS, Q
    rep.rule('D7.order', 'ordered in theta: for exact t1 < t2 the CDF at t1 is nowhere above the CDF at t2 (narrow boxes, refutation only)')
    k = 10 if ctx.thorough else 5
    cuts = [0.05 + 0.9 * i / k for i in range(k + 1)]
    cells = [IV(c, c + 1e-4) for c in cuts]
    cache = ctx.memo.setdefault('ivcases', {}).setdefault('dom', {})
    dom = (IV(0.0, 1.0), IV(0.0, 1.0))
    for fam in ('Clayton', 'Frank', 'Gumbel'):
        cls = ctx.prog.cls(Q[fam])
        fn = cls.lookup('cumulative_distribution')
        ths = sorted(EXACT_THETAS[fam], key=lambda t: t.lo)
        total = und = 0
        refuted = None
        for t1, t2 in zip(ths, ths[1:]):
            for u in cells:
                for v in cells:
                    total += 1
                    vals = []
                    for th in (t1, t2):
                        alts = evaluate(ctx, cls, 'cumulative_distribution', th, u, v, alts=True, domain=dom, domcache=cache)
                        good = [x for x, d_, _ in alts if d_ and isinstance(x, IV) and not x.nan]
                        vals.append(good[0] if len(alts) == len(good) == 1 else None)
                    if vals[0] is None or vals[1] is None:
                        und += 1
                        continue
                    if vals[0].lo > vals[1].hi + 1e-9:
                        refuted = refuted or (t1, t2, u, v, vals)
        cons = f'{fam}: C increasing in theta'
        if refuted:
            t1, t2, u, v, vals = refuted
            rep.bad('D7.order', fn, fn.node.name, f'{fam}: for u in {u}, v in {v} the CDF at theta = {t1.lo:g} lies in {vals[0]}, above the CDF at theta = {t2.lo:g} ({vals[1]}): '
                    'a larger theta must give a pointwise larger copula', construct=cons)
        else:
            rep.undecided('D7.order', fn, fn.node.name, f'C(u, v; t1) <= C(u, v; t2): not refuted on any of {total} box pairs'
                          f'{" (" + str(und) + " not evaluated)" if und else ""} (a relation between two evaluations; refutation only)', construct=cons)


def run(ctx, rep):
    rep.trust(*K.TRUSTED_BASE_COMMON, 'numpy ufuncs and arithmetic act elementwise')
    rep.notes.append('C06 PARTIAL: decides C(u,v) = C(v,u) through the AC normal form of each closed form, row independence of the '
                     'vectorised methods (reductions over the batch are enumerated and triaged) and that theta validation dominates '
                     'every evaluation. D4 evaluates the closed forms in an interval domain with IEEE special values over boxes of '
                     '(theta, u, v): boundary values at 0 and the corner (1,1), range and NaN-freedom are proved where the '
                     'intervals allow, relational clauses (uniform margins, Frechet bounds, the generator identity on narrow boxes with an '
                     'exact theta) can only be refuted. 2-increasingness and ordering in theta are identities between real '
                     'functions that intervals cannot carry: not decided.')
    rep.rule('D1.sym', 'the closed-form CDF is invariant under swapping its two arguments (AC normal form)')
    rep.rule('D2.rows', 'no reduction over the batch axis influences the returned values (cumulative_distribution, percent_point)')
    rep.rule('D3.guard', 'check_fit() (and with it check_theta) dominates every read of theta in every evaluation method')
    rep.rule('D4.values', 'interval abstract interpretation of each closed-form CDF over a partition of (theta, u, v): grounded, C(1,1)=1, '
             'uniform margins, Frechet bounds, range [0,1] and no NaN are proved, refuted (definite) or left undecided per clause')
    from . import ivcases
    ivcases.refine(ctx)
    n = ivcases.run_family_clauses(ctx, rep, 'D4.values', 'cumulative_distribution', ivcases.cdf_clauses())
    rep.floor('D4.values', 'family x clause evaluations', n, 21)
    symmetry(ctx, rep, 'D1.sym', 'cumulative_distribution')
    rep.rule('D5.shortcut', 'an early-return shortcut of a family CDF is the independence value u * v (sibling cross-check), unless its guard is an invalid theta')
    shortcut_consistency(ctx, rep, 'D5.shortcut', 'cumulative_distribution')
    row_independence(ctx, rep, 'D2.rows', ['cumulative_distribution', 'percent_point'])
    rep.rule('D6.generator', 'interval evaluation of each family generator: generator(1) = 0, finite and non-negative on (0, 1]; and, on narrow boxes '
             'with an exact theta, generator(C(u, v)) meets generator(u) + generator(v) (refutation only)')
    ivcases.run_family_clauses(ctx, rep, 'D6.generator', 'generator', ivcases.generator_clauses())
    archimedean_composition(ctx, rep)
    theta_ordering(ctx, rep)
    l1(ctx, rep, rule='D3.guard', only_classes=set(FAMILIES.values()) | {'copulas.bivariate.base.Bivariate'})
    # check_fit validates theta
    prog = ctx.prog
    cf = prog.method('copulas.bivariate.base.Bivariate', 'check_fit', inherited=False)
    calls = [c for c in walk_no_nested(cf.node) if isinstance(c, ast.Call) and call_name(c) == 'check_theta']
    rep.check('D3.guard', cf, calls[0] if calls else cf.node.name, bool(calls), 'check_fit() ends with check_theta()',
              'check_fit no longer validates theta against the family\'s domain', construct='check_fit -> check_theta')
