"""C12 - conditional sampling fixes the given columns and follows the conditional law."""

import ast

from .. import contracts as K
from ..absint import BOT, TOP, AbsInt, Frame, Tup
from ..effects import doc_param_types
from ..idioms import enum_paths, guard_chain, stmt_of
from ..model import call_name, const_value, is_self_attr, kwarg, short, walk_no_nested
from . import gauss
from .c20 import get_alias


class BlockAlg(AbsInt):
    """Symbolic block algebra over the partitioned correlation: S[i,j], inv, matmul (flattened), +/-."""

    def __init__(self, ctx, cond_param):
        super().__init__(ctx)
        self.cond_param = cond_param

    def const(self, node, fr):
        return ('k', getattr(node, 'value', None))

    def param(self, name, fr):
        return 'z' if name == self.cond_param else TOP

    def self_attr(self, attr, node, fr):
        return 'S' if attr == 'correlation' else TOP

    def join_distinct(self, a, b):
        return TOP

    def attribute(self, node, base, fr):
        if base == 'z' and node.attr == 'index':
            return ('blk', 2)
        if base == 'z' and node.attr in ('values',):
            return 'z'
        if base == 'S' and node.attr in ('columns', 'index'):
            return ('blk', 'all')
        if base == 'S' and node.attr == 'loc':
            return 'S.loc'
        if node.attr == 'T':
            return self.transpose(base)
        return TOP

    def transpose(self, v):
        """Transpose of a block expression; the correlation matrix is symmetric, so block (i, j) transposed is block (j, i)."""
        if isinstance(v, tuple) and v:
            if v[0] == 'S':
                return ('S', v[2], v[1])
            if v[0] == 'inv':
                t = self.transpose(v[1])
                return ('inv', t) if t is not TOP else TOP
            if v[0] == 'mm':
                parts = [self.transpose(x) for x in reversed(v[1:])]
                return TOP if any(x is TOP for x in parts) else ('mm',) + tuple(parts)
        return TOP

    def subscript(self, node, base, fr):
        if base == 'S.loc' and isinstance(node.slice, ast.Tuple) and len(node.slice.elts) == 2:
            r, c = self.value(node.slice.elts[0], fr), self.value(node.slice.elts[1], fr)
            if isinstance(r, tuple) and r[0] == 'blk' and isinstance(c, tuple) and c[0] == 'blk':
                return ('S', r[1], c[1])
        return TOP

    def method_call(self, meth, node, recv, fr):
        if meth == 'difference' and recv == ('blk', 'all') and node.args:
            o = self.value(node.args[0], fr)
            if o == ('blk', 2):
                return ('blk', 1)
        if meth in ('to_numpy', 'copy', 'astype'):
            return recv
        if meth == 'transpose' and not node.args:
            return self.transpose(recv)
        if meth == 'dot' and node.args:
            return self.mm(recv, self.value(node.args[0], fr))
        return None

    def external_call(self, name, node, fr):
        a = node.args
        if name in ('numpy.zeros',):
            return 'ZERO'
        if name in ('numpy.linalg.inv', 'numpy.linalg.pinv', 'scipy.linalg.inv') and a:
            v = self.value(a[0], fr)
            return ('inv', v) if v is not TOP else TOP
        if name in ('numpy.linalg.solve', 'scipy.linalg.solve') and len(a) == 2:
            return self.mm(('inv', self.value(a[0], fr)), self.value(a[1], fr))
        if name in ('numpy.dot', 'numpy.matmul') and len(a) == 2:
            return self.mm(self.value(a[0], fr), self.value(a[1], fr))
        if name in ('len',):
            return ('k', None)
        if name in ('numpy.array', 'numpy.asarray') and a:
            return self.value(a[0], fr)
        return TOP

    def mm(self, x, y):
        if x is TOP or y is TOP:
            return TOP
        xs = list(x[1:]) if isinstance(x, tuple) and x and x[0] == 'mm' else [x]
        ys = list(y[1:]) if isinstance(y, tuple) and y and y[0] == 'mm' else [y]
        return ('mm',) + tuple(xs + ys)

    def binop(self, node, l, r, fr):
        if l is TOP or r is TOP:
            return TOP
        if isinstance(node.op, ast.MatMult):
            return self.mm(l, r)
        if isinstance(node.op, ast.Sub):
            if r == 'ZERO':
                return l
            return ('sub', l, r)
        if isinstance(node.op, ast.Add):
            if l == 'ZERO':
                return r
            if r == 'ZERO':
                return l
            return ('add',) + tuple(sorted([l, r], key=repr))
        return TOP

    def sequence(self, node, vals, fr):
        return Tup(vals)


S11, S12, S21, S22 = ('S', 1, 1), ('S', 1, 2), ('S', 2, 1), ('S', 2, 2)
MU_EXPECT = ('mm', S12, ('inv', S22), 'z')
SIGMA_EXPECT = ('sub', S11, ('mm', S12, ('inv', S22), S21))


def run(ctx, rep):
    prog = ctx.prog
    rep.trust(*K.TRUSTED_BASE_COMMON, 'bool(pandas.Series) raises ValueError; Index.difference returns a sorted index',
              'conditional normal: mean S12 S22^-1 z, covariance S11 - S12 S22^-1 S21')
    rep.notes.append('C12: decides the mechanism of conditional sampling: conditioned columns are filled with the given values, '
                     'normal scores of the conditions are labelled in the order they were produced, the conditional mean and '
                     'covariance have the Schur-complement form over correctly labelled blocks, containers documented as '
                     'dict-or-Series are never used in a boolean context, and the caller\'s conditions are not modified. '
                     'The law of the unconditioned columns is not decided.')
    rep.rule('D1.fixed', 'for every column in conditions the output column is np.full(num_rows, conditions[column])')
    rep.rule('D2.align', 'positional pairings in the conditional path join vectors and labels of the same order')
    rep.rule('D3.schur', 'mu_bar = S12 inv(S22) z and sigma_bar = S11 - S12 inv(S22) S21 with S_ij = correlation.loc[c_i, c_j], c_2 = conditions.index, c_1 = the rest')
    rep.rule('D3.draw', 'the conditional draw is kind-correct (a multivariate normal with the conditional mean and covariance; scales are standard deviations)')
    rep.rule('D4.container', 'a parameter documented as array / Series / DataFrame valued is never used in a boolean context')
    rep.rule('D5.nomutate', "sample() does not modify the caller's conditions")
    fn = gauss.gm_method(ctx, 'sample')
    cls = prog.cls(gauss.GM)
    # D1: on every path on which the loop column is one of the conditions, the stored value is the given value
    from ..boolcond import atoms_of, f_and, f_not, satisfiable
    _fn, col_stores = gauss.sample_column_stores(ctx)
    seen_given = False
    for st, k, v, reach, loop in col_stores:
        if reach is None:
            rep.undecided('D1.fixed', fn, st, 'reach condition of the column store not derivable')
            continue
        member = [a for a in atoms_of(reach) if a.startswith('in[') and a.endswith('|conditions]')]
        if not member:
            continue
        m = ('atom', member[0])
        may_cond = satisfiable(f_and(reach, m))       # reachable for a conditioned column
        may_free = satisfiable(f_and(reach, f_not(m)))  # reachable for a free column
        is_given = isinstance(v, tuple) and v and v[0] == 'given'
        if may_cond and not may_free:
            seen_given = seen_given or is_given
            good = is_given and isinstance(st.value, ast.Call) and prog.resolve(fn.module, st.value.func) == 'numpy.full' \
                and st.value.args and isinstance(st.value.args[0], ast.Name) and st.value.args[0].id == 'num_rows'
            if v is TOP:
                rep.undecided('D1.fixed', fn, st, 'value stored for a conditioned column not derivable')
            else:
                rep.check('D1.fixed', fn, st, good, 'conditioned column = np.full(num_rows, conditions[column])',
                          'a conditioned column is not filled with the given value')
        elif may_cond and may_free and not is_given:
            pass  # a store shared by both kinds of column: decided by the free/conditioned specific stores
        elif is_given and may_free:
            rep.bad('D1.fixed', fn, st, 'a column that is not conditioned on can receive a conditioning value')
    if not seen_given:
        anyc = [1 for st, k, v, reach, loop in col_stores if reach is not None and any(a.startswith('in[') for a in atoms_of(reach))]
        on_conditions = [1 for st, k, v, reach, loop in col_stores if reach is not None and any(a.startswith('in[') and a.endswith('|conditions]') for a in atoms_of(reach))]
        if anyc and on_conditions:
            rep.bad('D1.fixed', fn, fn.node.name, 'no path fills a conditioned column with its given value', construct='conditioned branch')
        else:
            rep.undecided('D1.fixed', fn, fn.node.name, 'how conditioned columns are filled was not recognised', construct='conditioned branch')
    gauss.report_order(ctx, rep, 'D2.align', ['_get_normal_samples', '_get_conditional_distribution'], floor=8)
    gauss.report_marginal_index(ctx, rep, 'D2.align', ['_transform_to_normal', '_get_normal_samples', '_get_conditional_distribution', 'sample'])
    # the labelled vector of normal scores is the single ROW that _transform_to_normal returns for the conditions: one integer subscript of its
    # (rows x columns) result.  A second one takes one score, which pd.Series broadcasts over every conditioned column.
    gns = gauss.gm_method(ctx, '_get_normal_samples')
    for c_ in [c for c in walk_no_nested(gns.node) if isinstance(c, ast.Call) and prog.resolve(gns.module, c.func) == 'pandas.Series' and c.args and kwarg(c, 'index', 1) is not None]:
        e_, depth, line = c_.args[0], 0, c_.lineno
        for _ in range(8):
            if isinstance(e_, ast.Subscript) and isinstance(const_value(e_.slice), int):
                depth += 1
                e_ = e_.value
            elif isinstance(e_, ast.Name):
                defs = sorted([a for a in walk_no_nested(gns.node) if isinstance(a, ast.Assign) and len(a.targets) == 1 and isinstance(a.targets[0], ast.Name)
                               and a.targets[0].id == e_.id and a.lineno < line], key=lambda a: a.lineno)
                if not defs:
                    break
                e_, line = defs[-1].value, defs[-1].lineno
            else:
                break
        if isinstance(e_, ast.Call) and is_self_attr(e_.func, gns.self_name, '_transform_to_normal'):
            cons = 'normal scores of the conditions: one row'
            if depth == 1:
                rep.ok('D2.align', gns, c_, 'row 0 of the transformed conditions, labelled with the conditioned columns', construct=cons)
            elif depth >= 2:
                rep.bad('D2.align', gns, c_, f'`{short(c_.args[0], 40)}` is one element of the transformed conditions ({depth} integer subscripts of a rows x columns result): '
                        'pd.Series broadcasts that single normal score over every conditioned column', construct=cons)
            else:
                rep.undecided('D2.align', gns, c_, 'the whole (rows x columns) result is labelled: how it becomes one vector is not derived', construct=cons)
    # D3
    cd = gauss.gm_method(ctx, '_get_conditional_distribution')
    ba = BlockAlg(ctx, cd.params[1])
    fr = Frame(cd, {}, cls)
    rets = [n for n in walk_no_nested(cd.node) if isinstance(n, ast.Return) and isinstance(n.value, ast.Tuple)]
    if not rets or len(rets[0].value.elts) != 3:
        rep.undecided('D3.schur', cd, cd.node.name, 'return (mean, covariance, columns) not recognised', construct='return tuple')
    else:
        mu, sigma, cols = (ba.value(e, fr) for e in rets[0].value.elts)
        for nm, got, want in (('mean', mu, MU_EXPECT), ('covariance', sigma, SIGMA_EXPECT)):
            if got is TOP:
                rep.undecided('D3.schur', cd, rets[0], f'conditional {nm}: form not derivable', construct=f'conditional {nm}')
            else:
                rep.check('D3.schur', cd, rets[0], got == want, f'conditional {nm} = {fmt(want)}',
                          f'conditional {nm} is {fmt(got)}, expected {fmt(want)}', construct=f'conditional {nm}')
        rep.check('D3.schur', cd, rets[0], cols == ('blk', 1), 'sampled columns = all columns minus the conditioned ones',
                  f'the columns returned for sampling are {cols}', construct='conditional columns')
    # the conditional parameters are the ones used for the draw
    ns = gauss.gm_method(ctx, '_get_normal_samples')
    calls = [c for c in walk_no_nested(ns.node) if isinstance(c, ast.Call) and call_name(c) == '_get_conditional_distribution']
    from ..idioms import private_closure
    deep = [c for g in private_closure(ctx, ns, cls) if g is not ns for c in walk_no_nested(g.node)
            if isinstance(c, ast.Call) and call_name(c) == '_get_conditional_distribution']
    unpacked = bool(calls) and isinstance(stmt_of(calls[0]), ast.Assign) and isinstance(stmt_of(calls[0]).targets[0], ast.Tuple) \
        and len(stmt_of(calls[0]).targets[0].elts) == 3
    if unpacked:
        rep.ok('D3.schur', ns, calls[0], 'the draw uses (means, covariance, columns) of the conditional distribution', construct='use of the conditional parameters')
        # ... unchanged: neither the mean nor the covariance is re-bound to a transformed copy before the draw
        u_st = stmt_of(calls[0])
        mc = [e.id for e in u_st.targets[0].elts[:2] if isinstance(e, ast.Name)]
        for a_ in walk_no_nested(ns.node):
            if isinstance(a_, (ast.Assign, ast.AugAssign)) and a_ is not u_st and a_.lineno > u_st.lineno:
                tgs = a_.targets if isinstance(a_, ast.Assign) else [a_.target]
                hit = [t.id for t in tgs if isinstance(t, ast.Name) and t.id in mc]
                sub = [t for t in tgs if isinstance(t, ast.Subscript) and isinstance(t.value, ast.Name) and t.value.id in mc]
                if not hit and not sub:
                    continue
                which = 'mean' if (hit or [sub[0].value.id])[0] == mc[0] else 'covariance'
                v_ = a_.value
                changing = isinstance(a_, ast.AugAssign) or bool(sub) or isinstance(v_, ast.BinOp) or (isinstance(v_, ast.Call) and call_name(v_) in (
                    'clip', 'abs', 'absolute', 'maximum', 'minimum', 'where', 'round', 'around', 'tril', 'triu', 'diag', 'nan_to_num', 'fill_diagonal', 'eye', 'identity'))
                if changing:
                    rep.bad('D3.schur', ns, a_, f'the conditional {which} is altered before the draw (`{short(a_, 70)}`): the sampled columns no longer follow the '
                            'conditional normal law given the conditions', construct=f'conditional {which} reaches the draw unchanged')
                else:
                    rep.undecided('D3.schur', ns, a_, f'the conditional {which} is re-bound before the draw in a way that is not recognised', construct=f'conditional {which} reaches the draw unchanged')
    elif calls or deep:
        rep.undecided('D3.schur', ns, (calls or [ns.node.name])[0], 'the conditional parameters reach the draw through a helper or an unrecognised form',
                      construct='use of the conditional parameters')
    else:
        rep.bad('D3.schur', ns, ns.node.name, 'sampling with conditions never computes the conditional distribution', construct='use of the conditional parameters')
    nsp = gauss.report_space(ctx, rep, 'D3.draw', ['_get_normal_samples'])
    if not nsp:
        rep.ok('D3.draw', ns, ns.node.name, 'no kind mismatch on any path of the draw', construct='def _get_normal_samples')
    # D4 package-wide
    n = 0
    for f in prog.functions.values():
        types = doc_param_types(f)
        for p, t in types.items():
            if p not in f.params:
                continue
            if not any(w in t for w in ('series', 'dataframe', 'ndarray', 'np.array', 'numpy.array', 'array')):
                continue
            if any(w in t.replace(',', ' ').replace('|', ' ').split() for w in ('bool', 'int', 'float', 'scalar', 'none', 'str')):
                continue        # documented as "scalar or array": a truth test is legitimate on the scalar alternative
            n += 1
            for node in walk_no_nested(f.node):
                if isinstance(node, ast.Name) and node.id == p and isinstance(node.ctx, ast.Load):
                    par = node._parent
                    truth = (isinstance(par, (ast.If, ast.While, ast.IfExp)) and par.test is node) \
                        or (isinstance(par, ast.BoolOp)) or (isinstance(par, ast.UnaryOp) and isinstance(par.op, ast.Not)) \
                        or (isinstance(par, ast.Assert) and par.test is node)
                    if truth and _still_param(f, node, p):
                        rep.bad('D4.container', f, stmt_of(node), f'`{p}` is documented as `{t}` but used as a truth value: '
                                'bool() of a Series/array raises (or is ambiguous)', construct=f'truth value of {p}: {short(par, 60)}')
    rep.ok('D4.container', 'package', None, f'{n} array/Series/DataFrame-typed parameters scanned', construct='typed parameters')
    rep.floor('D4.container', 'documented array-like parameters', n, 10)
    # D5
    sm = get_alias(ctx).summaries[fn.qualname]
    muts = sm.mut_params.get('conditions', [])
    if muts:
        for m in muts:
            rep.bad('D5.nomutate', fn, fn.node.name, "the caller's conditions object is modified", construct=f'conditions: {m.terminal}',
                    path=' -> '.join(m.path))
    else:
        rep.ok('D5.nomutate', fn, fn.node.name, 'no in-place write reaches `conditions`', construct='conditions')


def _still_param(f, node, p):
    """The name still denotes the parameter at this use (no dominating rebinding before it)."""
    from ..absint import AbsInt as _A, Frame as _F, collect_bindings
    binds = collect_bindings(f.node).get(p, [])
    if not binds:
        return True
    from ..absint import pos
    return not any(pos(b.stmt) < pos(node) for b in binds if b.stmt is not None)


def fmt(x):
    if isinstance(x, tuple):
        if x[0] == 'S':
            return f'S{x[1]}{x[2]}'
        if x[0] == 'inv':
            return f'inv({fmt(x[1])})'
        if x[0] == 'mm':
            return ' @ '.join(fmt(e) for e in x[1:])
        if x[0] == 'sub':
            return f'{fmt(x[1])} - {fmt(x[2])}'
        if x[0] == 'add':
            return ' + '.join(fmt(e) for e in x[1:])
    return str(x)
