"""C04 - marginal fitting recovers the generating law; KDE is the kernel estimate (PARTIAL)."""

import ast

from .. import contracts as K
from ..absint import TOP, Frame, Tup
from ..idioms import guard_chain, is_none_test, single_def
from ..kinds import DimKind
from ..model import call_name, const_value, is_self_attr, kwarg, short, walk_no_nested
from .c03 import SCIPY, KDE, params_dicts

WANT = {'loc': 'Pt', 'scale': 'Df'}


def want_kind(key):
    return WANT.get(key, '1')


def fmt(k):
    return {'Pt': 'a location (point of the data axis)', 'Df': 'a length (scale of the data)', 'Df2': 'a squared length (variance)',
            '1': 'a dimensionless number'}.get(k, str(k))


def compatible(got, want):
    if got is TOP or got is None:
        return None
    if isinstance(got, tuple) and got and got[0] == 'lit':
        return want in ('Df', '1') or got[1] in (0, 0.0)
    if got == 'Df' and want == 'Df':
        return True
    return got == want


def run(ctx, rep):
    prog = ctx.prog
    rep.trust(*K.TRUSTED_BASE_COMMON, 'np.mean/min/max/median are translation equivariant (points), np.std/ptp are translation invariant and '
              'scale with the data (lengths), np.var scales with the square', 'SciPy <dist>.fit returns (shapes..., loc, scale); truncnorm takes standardised bounds a, b')
    rep.notes.append('C04 PARTIAL: decides location/scale equivariance of every _fit by dimension typing (loc is a point, scale a length, '
                     'shapes and standardised bounds dimensionless, including optimiser start values and bounds), the closed-form '
                     'estimators of the Gaussian and Uniform families, that user-supplied truncation bounds are honoured, and the '
                     'plumbing of the KDE options. Closeness to the generating / empirical CDF is statistical and not decided.')
    for rid, text in (('D1.dims', 'every fitted parameter has the dimension SciPy expects (loc: point, scale: length, shapes: dimensionless); optimiser start values and bounds too'),
                      ('D2.closed', 'Gaussian: loc = mean, scale = population standard deviation; Uniform: loc = minimum, scale = maximum - minimum'),
                      ('D3.bounds', 'TruncatedGaussian uses the user-supplied minimum / maximum when given; data-driven bounds only when they are None'),
                      ('D4.kde', 'every gaussian_kde(...) is built with the configured bw_method and weights; the final model is built from the stored dataset')):
        rep.rule(rid, text)
    base = prog.cls(SCIPY)
    n = 0
    for c in base.subclasses():
        if c.is_abstract() or c.qualname == KDE:
            continue
        n += 1
        fit = c.need('_fit')
        dk = DimKind(ctx, data_params=(fit.params[1],))
        dk.self_kinds.update({'min': 'Pt', 'max': 'Pt'})
        fr = Frame(fit, {}, c)
        ds = params_dicts(fit)
        for s, d in ds:
            for key, v in d.items():
                got = dk.value(v, fr)
                want = want_kind(key)
                ok = compatible(got, want)
                if ok is None:
                    rep.undecided('D1.dims', fit, s, f"{c.name}: dimension of '{key}' not derivable ({short(v, 40)})", construct=f"{c.name}._fit '{key}'")
                else:
                    rep.check('D1.dims', fit, s, ok, f"{c.name}: '{key}' is {fmt(got) if not isinstance(got, tuple) else 'a literal'}",
                              f"{c.name}: '{key}' must be {fmt(want)} but is {fmt(got)}: the fit is not equivariant under shifting / rescaling the data",
                              construct=f"{c.name}._fit '{key}'")
        # keyword arguments loc= / scale= handed to SciPy's fit, optimiser start values and bounds
        for call in walk_no_nested(fit.node):
            if not isinstance(call, ast.Call):
                continue
            nm = prog.resolve(fit.module, call.func) or ''
            if nm.startswith('scipy.stats.') and nm.endswith('.fit'):
                for kw in call.keywords:
                    if kw.arg in ('loc', 'scale', 'floc', 'fscale'):
                        want = 'Pt' if 'loc' in kw.arg else 'Df'
                        got = dk.value(kw.value, fr)
                        ok = compatible(got, want)
                        if want == 'Pt' and isinstance(got, tuple) and got and got[0] == 'lit':
                            ok = False   # a literal location (also 0) does not move with the data: the estimate is not shift-equivariant
                        if ok is None:
                            rep.undecided('D1.dims', fit, call, f'{c.name}: dimension of {kw.arg}= not derivable', construct=f'{c.name} fit {kw.arg}=')
                        else:
                            rep.check('D1.dims', fit, call, ok, f'{c.name}: {kw.arg}= is {fmt(got)}', f'{c.name}: {kw.arg}= must be {fmt(want)} but is {fmt(got)}',
                                      construct=f'{c.name} fit {kw.arg}=')
            if nm in ('scipy.optimize.fmin_slsqp', 'scipy.optimize.minimize'):
                # the objective unpacks its argument as (loc, scale): positions 0 and 1
                x0 = call.args[1] if len(call.args) > 1 else kwarg(call, 'x0')
                order = _objective_order(prog, fit, call)
                if order is None:
                    rep.undecided('D1.dims', fit, call, 'order of the optimised parameters not derivable', construct=f'{c.name} optimiser order')
                    continue
                v0 = dk.value(x0, fr) if x0 is not None else TOP
                if any(n_.startswith('?') for n_ in order):
                    rep.undecided('D1.dims', fit, call, f'which optimised parameter is the location / the scale is not derived from the objective ({order})',
                                  construct=f'{c.name} optimiser order')
                    continue
                if isinstance(v0, Tup) and len(v0.elems) == len(order):
                    for name_, got in zip(order, v0.elems):
                        ok = compatible(got, want_kind(name_))
                        if ok is None:
                            rep.undecided('D1.dims', fit, call, f'start value of {name_} not derivable', construct=f'{c.name} start {name_}')
                        else:
                            rep.check('D1.dims', fit, x0, ok, f'{c.name}: start value of {name_} is {fmt(got)}',
                                      f'{c.name}: the start value of {name_} must be {fmt(want_kind(name_))} but is {fmt(got)}', construct=f'{c.name} start {name_}')
                bnds = kwarg(call, 'bounds')
                if isinstance(bnds, (ast.List, ast.Tuple)) and len(bnds.elts) == len(order):
                    for name_, pair in zip(order, bnds.elts):
                        if not (isinstance(pair, (ast.Tuple, ast.List)) and len(pair.elts) == 2):
                            continue
                        for which, e in zip(('lower', 'upper'), pair.elts):
                            got = dk.value(e, fr)
                            ok = compatible(got, want_kind(name_))
                            if ok is None:
                                rep.undecided('D1.dims', fit, e, f'{which} bound of {name_} not derivable', construct=f'{c.name} {which} bound of {name_}')
                            else:
                                rep.check('D1.dims', fit, e, ok, f'{c.name}: {which} bound of {name_} is {fmt(got) if not isinstance(got, tuple) else "a literal"}',
                                          f'{c.name}: the {which} bound of {name_} must be {fmt(want_kind(name_))} but is {fmt(got)}: for data '
                                          'measured on another scale the bound clips (or fails to limit) the estimate',
                                          construct=f'{c.name} {which} bound of {name_}')
        for node, f, msg in dk.problems:
            rep.bad('D1.dims', f, node, f'{c.name}: {msg}')
    rep.floor('D1.dims', 'parametric families typed', n, 7)
    rep.guarded('D2.d2', d2, ctx, rep)
    rep.guarded('D3.d3', d3, ctx, rep)
    rep.guarded('D4.d4', d4, ctx, rep)


def _objective_order(prog, fit, call):
    f0 = call.args[0] if call.args else None
    if not isinstance(f0, ast.Name):
        return None
    for f in prog.functions.values():
        if f.outer is fit and f.name == f0.id:
            p = f.params[0]
            for s in walk_no_nested(f.node):
                if isinstance(s, ast.Assign) and isinstance(s.targets[0], ast.Tuple) and isinstance(s.value, ast.Name) and s.value.id == p:
                    names = [e.id for e in s.targets[0].elts if isinstance(e, ast.Name)]
                    roles = _scipy_roles(prog, f, names)
                    return [roles.get(n_, '?' + n_) for n_ in names]
    return None


def _scipy_roles(prog, f, names):
    """Role ('loc' / 'scale' / shape) of each local of an objective, from where it is handed to SciPy: the last two entries of
    the theta tuple of `<dist>.nnlf((shapes..., loc, scale), x)` or the loc= / scale= keywords of a SciPy distribution call."""
    roles = {}
    for c in walk_no_nested(f.node):
        if not isinstance(c, ast.Call):
            continue
        nm = prog.resolve(f.module, c.func) or ''
        if not nm.startswith('scipy.stats.'):
            continue
        if nm.endswith('.nnlf') and c.args and isinstance(c.args[0], (ast.Tuple, ast.List)) and len(c.args[0].elts) >= 2:
            for e, role in zip(c.args[0].elts[-2:], ('loc', 'scale')):
                if isinstance(e, ast.Name) and e.id in names:
                    roles[e.id] = role
        for kw in c.keywords:
            if kw.arg in ('loc', 'scale') and isinstance(kw.value, ast.Name) and kw.value.id in names:
                roles[kw.value.id] = kw.arg
    return roles


def _stat(prog, fn, e, xp):
    """('mean'|'std'|'min'|'max'|..., ddof) of np.f(X) / X.f()."""
    e = _res(fn, e)
    if isinstance(e, ast.Call):
        nm = call_name(e)
        arg = e.args[0] if e.args else (e.func.value if isinstance(e.func, ast.Attribute) else None)
        if isinstance(e.func, ast.Attribute) and isinstance(e.func.value, ast.Name) and e.func.value.id == xp:
            arg = e.func.value
        if isinstance(arg, ast.Name) and arg.id == xp:
            dd = kwarg(e, 'ddof')
            return nm, (const_value(dd) if dd is not None else 0)
    return None


def _res(fn, e):
    if isinstance(e, ast.Name):
        d = single_def(fn.node, e.id)
        if isinstance(d, ast.AST):
            return d
    return e


def d2(ctx, rep):
    prog = ctx.prog
    g = prog.cls('copulas.univariate.gaussian.GaussianUnivariate').methods['_fit']
    xp = g.params[1]
    ds = params_dicts(g)
    if ds:
        s, d = ds[0]
        loc, sc = _stat(prog, g, d.get('loc'), xp), _stat(prog, g, d.get('scale'), xp)
        if loc is None:
            rep.undecided('D2.closed', g, s, 'Gaussian loc estimator not recognised', construct='Gaussian loc')
        else:
            rep.check('D2.closed', g, s, loc[0] in ('mean', 'nanmean', 'average'), 'loc = mean(X)', f'Gaussian loc is {loc[0]}(X), not the sample mean',
                      construct='Gaussian loc')
        if sc is None:
            rep.undecided('D2.closed', g, s, 'Gaussian scale estimator not recognised', construct='Gaussian scale')
        else:
            rep.check('D2.closed', g, s, sc[0] in ('std', 'nanstd') and sc[1] in (0, None), 'scale = population standard deviation of X',
                      f'Gaussian scale is {sc[0]}(X, ddof={sc[1]}), not the population standard deviation', construct='Gaussian scale')
    u = prog.cls('copulas.univariate.uniform.UniformUnivariate').methods['_fit']
    xp = u.params[1]
    ds = params_dicts(u)
    if ds:
        s, d = ds[0]
        loc = _stat(prog, u, d.get('loc'), xp)
        rep.check('D2.closed', u, s, loc is not None and loc[0] in ('min', 'amin'), 'loc = min(X)', f'Uniform loc is {loc}, not the minimum', construct='Uniform loc')
        sc = _res(u, d.get('scale'))
        good = False
        if isinstance(sc, ast.BinOp) and isinstance(sc.op, ast.Sub):
            a, b = _stat(prog, u, sc.left, xp), _stat(prog, u, sc.right, xp)
            good = a is not None and b is not None and a[0] in ('max', 'amax') and b[0] in ('min', 'amin')
        elif isinstance(sc, ast.Call) and call_name(sc) == 'ptp':
            good = True
        rep.check('D2.closed', u, s, good, 'scale = max(X) - min(X)', 'Uniform scale is not the range max - min', construct='Uniform scale')


def d3(ctx, rep):
    prog = ctx.prog
    tg = prog.cls('copulas.univariate.truncated_gaussian.TruncatedGaussian')
    fit = tg.methods['_fit']
    init = tg.methods['__init__']
    opt = {}
    for s in walk_no_nested(init.node):
        if isinstance(s, ast.Assign) and is_self_attr(s.targets[0], init.self_name) and isinstance(s.value, ast.Name) and s.value.id in init.params:
            opt[s.value.id] = s.targets[0].attr
    from ..idioms import private_closure
    closure = private_closure(ctx, fit, tg)
    for pname, attr in sorted(opt.items()):
        if pname == 'random_state':
            continue
        readers = [g for g in closure if any(is_self_attr(x, g.self_name, attr) and isinstance(x.ctx, ast.Load) for x in walk_no_nested(g.node))]
        if not readers:
            rep.bad('D3.bounds', fit, fit.node.name, f'the user option self.{attr} is never read by _fit: a supplied bound is ignored', construct=f'self.{attr} honoured')
            continue
        ok = True
        why = ''
        anchor = None
        for g in readers:
            # locals initialised from self.<attr>
            locs = [s for s in walk_no_nested(g.node) if isinstance(s, ast.Assign) and isinstance(s.targets[0], ast.Name)
                    and is_self_attr(s.value, g.self_name, attr)]
            direct = [x for x in walk_no_nested(g.node) if is_self_attr(x, g.self_name, attr) and isinstance(x.ctx, ast.Load)]
            anchor = anchor or (locs[0] if locs else direct[0])
            for loc in locs:
                var = loc.targets[0].id
                for s in walk_no_nested(g.node):
                    if isinstance(s, ast.Assign) and isinstance(s.targets[0], ast.Name) and s.targets[0].id == var and s is not loc:
                        gs = guard_chain(s, g.node)
                        guarded = any(is_none_test(t) is not None and ((isinstance(is_none_test(t)[0], ast.Name) and is_none_test(t)[0].id == var)
                                                                       or is_self_attr(is_none_test(t)[0], g.self_name, attr))
                                      and is_none_test(t)[1] == pol for t, pol in gs)
                        if not guarded:
                            ok = False
                            why = f'`{short(s, 50)}` replaces the user-supplied {pname} unconditionally'
            for s in walk_no_nested(g.node):
                if isinstance(s, ast.Assign) and any(is_self_attr(t, g.self_name, attr) for t in s.targets):
                    gs = guard_chain(s, g.node)
                    guarded = any(is_none_test(t) is not None and is_self_attr(is_none_test(t)[0], g.self_name, attr) and is_none_test(t)[1] == pol for t, pol in gs)
                    if not guarded:
                        ok = False
                        why = f'`{short(s, 50)}` overwrites the user-supplied {pname}'
            # a numeric bound must be selected by None-ness, never by truthiness: 0 is a legitimate bound
            aliases = {loc.targets[0].id for loc in locs}
            for x in walk_no_nested(g.node):
                is_opt = (is_self_attr(x, g.self_name, attr) or (isinstance(x, ast.Name) and x.id in aliases)) and isinstance(getattr(x, 'ctx', None), ast.Load)
                if not is_opt:
                    continue
                par = x._parent
                truthy = isinstance(par, ast.BoolOp) or (isinstance(par, ast.UnaryOp) and isinstance(par.op, ast.Not)) \
                    or (isinstance(par, (ast.If, ast.IfExp, ast.While)) and par.test is x)
                if truthy:
                    ok = False
                    why = f'`{short(par, 60)}` selects the {pname} bound by truthiness: a user-supplied bound of 0 is treated as absent'
        rep.check('D3.bounds', readers[0], anchor, ok, f'{pname}: data-driven value only when the option is None', why,
                  construct=f'self.{attr} honoured')
    # the standardised bounds a, b are computed from the corresponding (user or data-driven) bound
    from ..kinds import DepKind
    from ..absint import Frame as _F
    dk = DepKind(ctx)
    fr = _F(fit, {}, tg)
    ds = params_dicts(fit)
    if ds:
        s, d = ds[0]
        for key, attr, other in (('a', 'min', 'max'), ('b', 'max', 'min')):
            if key not in d:
                continue
            deps = dk.value(d[key], fr)
            if not isinstance(deps, frozenset) or '?' in deps:
                rep.undecided('D3.bounds', fit, s, f"what the standardised bound '{key}' is computed from is not derivable", construct=f"standardised '{key}'")
            else:
                # dependence sets over-approximate: "does not depend on its own bound" is definite, "also depends on the other bound" is only possible
                if f'self.{attr}' not in deps:
                    rep.bad('D3.bounds', fit, s, f"the standardised bound '{key}' is not computed from the {attr} bound (it depends on {sorted(deps)})", construct=f"standardised '{key}'")
                elif f'self.{other}' in deps:
                    rep.undecided('D3.bounds', fit, s, f"'{key}' may depend on the {other} bound as well (both limits travel together through a helper or a record)",
                                  construct=f"standardised '{key}'")
                else:
                    rep.ok('D3.bounds', fit, s, f"'{key}' depends on the {attr} bound (and not on the {other} bound)", construct=f"standardised '{key}'")


def _kde_dataset_arg(prog, fn, recv):
    """The expression (in terms of fn's locals) the kernel estimate `recv` is built on: the first argument of a direct
    gaussian_kde(...) construction, or the argument a one-return project helper passes on to it; None when not recognised."""
    if not (isinstance(recv, ast.Call) and recv.args):
        return None
    nm = prog.resolve(fn.module, recv.func)
    if nm == 'scipy.stats.gaussian_kde':
        return recv.args[0]
    g = prog.functions.get(nm or '')
    if g is None and isinstance(recv.func, ast.Attribute) and isinstance(recv.func.value, ast.Name) and fn.cls is not None \
            and recv.func.value.id in (fn.self_name, 'cls', fn.cls.name):
        g = fn.cls.lookup(recv.func.attr)
    if g is None:
        return None
    rets = [r for r in walk_no_nested(g.node) if isinstance(r, ast.Return) and r.value is not None]
    if len(rets) != 1 or not (isinstance(rets[0].value, ast.Call) and prog.resolve(g.module, rets[0].value.func) == 'scipy.stats.gaussian_kde'
                              and rets[0].value.args and isinstance(rets[0].value.args[0], ast.Name)):
        return None
    params = list(g.params)
    if g.cls is not None and g.kind in ('method', 'classmethod') and isinstance(recv.func, ast.Attribute):
        params = params[1:]
    want = rets[0].value.args[0].id
    if any(isinstance(a, ast.Assign) and any(isinstance(t, ast.Name) and t.id == want for t in a.targets) for a in walk_no_nested(g.node)):
        return None
    if want in params and params.index(want) < len(recv.args):
        return recv.args[params.index(want)]
    return None


def d4(ctx, rep):
    prog = ctx.prog
    kde = prog.cls(KDE)
    n = 0
    fns = list(kde.methods.values()) + [f for f in prog.functions.values() if f.module is kde.module and f.cls is None and f.outer is None]
    for m in fns:
        for c in walk_no_nested(m.node):
            if isinstance(c, ast.Call) and prog.resolve(m.module, c.func) == 'scipy.stats.gaussian_kde':
                n += 1
                bw, w = kwarg(c, 'bw_method', 1), kwarg(c, 'weights', 2)
                opt = lambda e, a: isinstance(e, ast.Attribute) and e.attr == a and isinstance(e.value, ast.Name) \
                    and (e.value.id == m.self_name or e.value.id in m.params)
                if bw is None or w is None:
                    rep.bad('D4.kde', m, c, 'a kernel estimate is built without the configured bw_method / weights: the requested bandwidth rule is ignored')
                elif opt(bw, 'bw_method') and opt(w, 'weights'):
                    rep.ok('D4.kde', m, c, 'gaussian_kde(..., bw_method=<model>.bw_method, weights=<model>.weights)')
                elif (isinstance(bw, ast.Attribute) and bw.attr != 'bw_method') or (isinstance(w, ast.Attribute) and w.attr != 'weights') \
                        or isinstance(bw, ast.Constant) or isinstance(w, ast.Constant):
                    rep.bad('D4.kde', m, c, 'a kernel estimate is built without the configured bw_method / weights: the requested bandwidth rule is ignored')
                else:
                    rep.undecided('D4.kde', m, c, 'where the bandwidth rule / weights of this kernel estimate come from is not derived')
    if n == 0:
        rep.undecided('D4.kde', kde.methods.get('_fit') or next(iter(kde.methods.values())), 'GaussianKDE', 'no gaussian_kde(...) construction found in the module of GaussianKDE')
    gm = kde.methods['_get_model']
    calls = [c for c in walk_no_nested(gm.node) if isinstance(c, ast.Call) and prog.resolve(gm.module, c.func) == 'scipy.stats.gaussian_kde']
    if calls:
        a0 = _res(gm, calls[0].args[0]) if calls[0].args else None
        good = isinstance(a0, ast.Subscript) and is_self_attr(a0.value, gm.self_name, '_params') and const_value(a0.slice) == 'dataset'
        optional = None
        if not good and isinstance(a0, ast.Name) and a0.id in gm.params and isinstance(gm.defaults.get(a0.id), ast.Constant) and gm.defaults[a0.id].value is None:
            # `def _get_model(self, dataset=None): if dataset is None: dataset = self._params['dataset']`: the stored dataset unless a caller hands in another
            from ..idioms import assignments
            asg = [a for a in assignments(gm.node, a0.id) if isinstance(a, ast.Assign)]
            if len(asg) == 1 and isinstance(asg[0].value, ast.Subscript) and is_self_attr(asg[0].value.value, gm.self_name, '_params') and const_value(asg[0].value.slice) == 'dataset' \
                    and any(is_none_test(t) is not None and isinstance(is_none_test(t)[0], ast.Name) and is_none_test(t)[0].id == a0.id and is_none_test(t)[1] == pol
                            for t, pol in guard_chain(asg[0], gm.node)):
                passing = [c for m in kde.methods.values() for c in walk_no_nested(m.node) if isinstance(c, ast.Call) and is_self_attr(c.func, m.self_name, gm.name)
                           and (c.args or c.keywords)]
                optional = passing
        if optional is not None and not optional:
            rep.ok('D4.kde', gm, calls[0], "the model is built from self._params['dataset'] (no caller hands in another dataset)", construct='model dataset')
        elif optional:
            rep.undecided('D4.kde', gm, optional[0], f"`{short(optional[0], 50)}` hands its own dataset to the model builder; whether it is the stored one is decided at the call", construct='model dataset')
        else:
            rep.check('D4.kde', gm, calls[0], good, "the model is built from self._params['dataset']", 'the final model is not built from the stored dataset',
                      construct='model dataset')
    fit = kde.methods['_fit']
    xp = fit.params[1]
    ds = params_dicts(fit)
    # the estimator kept as self._model and the dataset recorded in _params describe the same points
    for st in [a for a in walk_no_nested(fit.node) if isinstance(a, ast.Assign) and any(is_self_attr(t, fit.self_name, '_model') for t in a.targets)]:
        v = _res(fit, st.value)
        cons = 'fitted estimator and stored dataset agree'
        # the estimator that is kept owns its points: scipy's gaussian_kde keeps `atleast_2d(asarray(dataset))`, a view of an ndarray
        # argument, so an estimator built on the caller's array (through non-copying conversions only) changes when the caller
        # modifies that array later, while the stored dataset, the bounds and the bandwidth stay as they were at fit time
        if isinstance(v, ast.Call) and (v.args or v.keywords):
            handed = list(v.args) + [k.value for k in v.keywords]
            for h_ in handed:
                e_ = h_
                steps_ = 0
                while steps_ < 6:
                    steps_ += 1
                    if isinstance(e_, ast.Call) and call_name(e_) in ('asarray', 'asanyarray', 'ravel', 'reshape', 'atleast_1d', 'atleast_2d', 'squeeze', 'view', 'to_numpy') \
                            and (e_.args or isinstance(e_.func, ast.Attribute)):
                        e_ = e_.args[0] if (e_.args and not (isinstance(e_.func, ast.Attribute) and isinstance(e_.func.value, ast.Name) and e_.func.value.id == xp)) else e_.func.value
                    elif isinstance(e_, ast.Attribute) and e_.attr in ('values', 'T'):
                        e_ = e_.value
                    elif isinstance(e_, ast.Name) and e_.id != xp:
                        d_ = single_def(fit.node, e_.id)
                        if not isinstance(d_, ast.AST):
                            break
                        e_ = d_
                    else:
                        break
                rebinds = [a for a in fit.node.body if isinstance(a, ast.Assign) and a.lineno < st.lineno and any(isinstance(t, ast.Name) and t.id == xp for t in a.targets)]
                if isinstance(e_, ast.Name) and e_.id == xp and not rebinds:
                    rep.bad('D4.kde', fit, st, f'self._model is built on `{short(h_, 40)}`, the caller\'s own array (no copy on the way): scipy keeps a view of it, so the fitted '
                            'density follows later changes of that array while the stored dataset and the bandwidth do not', construct='fitted estimator owns its points')
        if isinstance(v, ast.Call) and is_self_attr(v.func, fit.self_name, '_get_model') and not v.args and not v.keywords:
            rep.ok('D4.kde', fit, st, 'self._model = self._get_model(): built from the stored dataset', construct=cons)
            continue
        src = _kde_dataset_arg(prog, fit, v) if isinstance(v, ast.Call) else None
        if src is None or not ds:
            rep.undecided('D4.kde', fit, st, 'what self._model is built on is not derived', construct=cons)
            continue
        # where was that estimator built, and was the data name re-bound between that point and the store of the dataset?
        built_at = st.value.lineno if not isinstance(st.value, ast.Name) else next((a.lineno for a in walk_no_nested(fit.node) if isinstance(a, ast.Assign)
                                                                                   and any(isinstance(t, ast.Name) and t.id == st.value.id for t in a.targets)), st.lineno)
        stored_at = ds[0][0].lineno
        names = {x.id for x in ast.walk(src) if isinstance(x, ast.Name)}
        rebound = [a for a in walk_no_nested(fit.node) if isinstance(a, ast.Assign) and min(built_at, stored_at) < a.lineno <= max(built_at, stored_at)
                   and any(isinstance(t, ast.Name) and t.id in names for t in a.targets)]
        if rebound:
            rep.bad('D4.kde', fit, st, f'self._model is estimated on `{short(src, 30)}` as it was at line {built_at}, but the dataset recorded at line {stored_at} is taken after '
                    f'`{short(rebound[0], 50)}`: density/CDF use one sample, bounds and from_dict(to_dict(m)) another', construct=cons)
        else:
            rep.ok('D4.kde', fit, st, 'self._model is estimated on the data that is recorded as the dataset', construct=cons)

    def derives(e, seen=()):
        """True: the value is the training data (or a resample of a kernel estimate built from it); False: it is
        something else that was recognised; None: not derivable."""
        if isinstance(e, ast.Name):
            if e.id == xp and not any(isinstance(a, ast.Assign) and any(isinstance(t, ast.Name) and t.id == xp for t in a.targets)
                                      for a in walk_no_nested(fit.node)):
                return True
            if e.id in seen:
                return None
            defs = [a.value for a in walk_no_nested(fit.node) if isinstance(a, ast.Assign) and any(isinstance(t, ast.Name) and t.id == e.id for t in a.targets)]
            if e.id == xp:
                rs = [derives_rhs(d, seen + (e.id,)) for d in defs]
                return True if all(r is True for r in rs) else (False if any(r is False for r in rs) else None)
            if not defs:
                return None
            rs = [derives(d, seen + (e.id,)) for d in defs]
            return True if all(r is True for r in rs) else (False if any(r is False for r in rs) else None)
        return derives_rhs(e, seen)

    def derives_rhs(e, seen):
        if isinstance(e, ast.Name):
            return True if e.id == xp else derives(e, seen)
        if isinstance(e, ast.Call) and isinstance(e.func, ast.Attribute) and e.func.attr in ('tolist', 'copy', 'ravel', 'flatten', 'astype', 'to_numpy') :
            return derives_rhs(e.func.value, seen)
        if isinstance(e, ast.Call) and isinstance(e.func, ast.Attribute) and e.func.attr == 'resample' and isinstance(e.func.value, ast.Call) \
                and e.func.value.args:
            return derives_rhs(e.func.value.args[0], seen)
        if isinstance(e, ast.Call) and call_name(e) in ('array', 'asarray') and e.args:
            return derives_rhs(e.args[0], seen)
        if isinstance(e, ast.Subscript):
            return derives_rhs(e.value, seen)
        if isinstance(e, ast.Call) and call_name(e) in ('unique', 'sort', 'sorted', 'round', 'around', 'clip', 'abs', 'floor', 'ceil', 'percentile',
                                                        'quantile', 'mean', 'median', 'linspace', 'arange', 'histogram'):
            return False  # reorders the points (weights no longer line up), changes their multiplicity or replaces them
        if isinstance(e, (ast.Constant, ast.List, ast.Tuple, ast.BinOp)):
            return False
        return None

    if ds:
        s, d = ds[0]
        v = d.get('dataset')
        r = derives_rhs(v, ()) if v is not None else None
        if r is None:
            rep.undecided('D4.kde', fit, s, 'what the stored dataset is computed from is not derived', construct='stored dataset')
        else:
            rep.check('D4.kde', fit, s, r, 'dataset = the training data (or its resample)', 'the stored dataset is not the training data', construct='stored dataset')
    # resample branch: guarded by sample_size and of that size
    for s in walk_no_nested(fit.node):
        if isinstance(s, ast.Assign) and isinstance(s.targets[0], ast.Name) and any(isinstance(c, ast.Call) and call_name(c) == 'resample' for c in ast.walk(s.value)):
            rs = [c for c in ast.walk(s.value) if isinstance(c, ast.Call) and call_name(c) == 'resample']
            gs = guard_chain(s, fit.node)
            guarded = any(is_self_attr(_res(fit, t) if isinstance(t, ast.Name) else t, fit.self_name, '_sample_size') and pol for t, pol in gs)
            recv = _res(fit, rs[0].func.value) if rs and isinstance(rs[0].func, ast.Attribute) else None
            src_expr = _kde_dataset_arg(prog, fit, recv)
            src_res = derives_rhs(src_expr, ()) if src_expr is not None else None
            src_known = src_res is not None
            src_ok = src_res is True
            size_arg = rs[0].args[0] if rs and rs[0].args else (kwarg(rs[0], 'size') if rs else None)
            size_ok = size_arg is not None and is_self_attr(_res(fit, size_arg), fit.self_name, '_sample_size')
            if not src_known or size_arg is None:
                rep.undecided('D4.kde', fit, s, 'the estimator that is resampled / the requested size is not recognised', construct='resample branch')
            else:
                rep.check('D4.kde', fit, s, guarded and size_ok and src_ok, 'resample of size sample_size of the KDE of the training data, only when sample_size is set',
                          'the optional resampling is not (sample_size points of the KDE of the training data, only when requested)', construct='resample branch')
