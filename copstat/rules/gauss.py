"""Shared analyses of copulas/multivariate/gaussian.py used by C01, C02, C12, C13."""

import ast

from ..absint import BOT, TOP, AbsInt, Frame, Tup
from ..idioms import enum_paths, guard_chain, is_none_test, stmt_of
from ..kinds import ANY, LenKind, OrderKind, SpaceKind, fmt_tag
from ..model import AnalysisError, PrivateAnchorMissing, call_name, const_value, is_self_attr, kwarg, short, walk_no_nested

GM = 'copulas.multivariate.gaussian.GaussianMultivariate'


def gm_method(ctx, name):
    return ctx.prog.method(GM, name)


# --------------------------------------------------------------------------- order analysis
def order_analysis(ctx):
    """Run the axis-order provenance on every path of the Gaussian-copula methods.
    Returns dict(method name -> dict(mismatches, undecided, checked))."""
    if 'gauss_order' in ctx.memo:
        return ctx.memo['gauss_order']
    prog = ctx.prog
    cls = prog.cls(GM)
    out = {}
    for name in ('_transform_to_normal', '_get_correlation', '_get_conditional_distribution', '_get_normal_samples',
                 'probability_density', 'cumulative_distribution', 'from_dict'):
        fn = cls.lookup(name)
        if fn is None:
            continue
        ok = OrderKind(ctx)
        params = {}
        if name == 'from_dict':
            # the dict written by to_dict: 'columns' is the training order, matrices are in that order
            ok_from_dict(ctx, ok, fn)
        else:
            for path in enum_paths(fn.body()):
                fr = Frame(fn, dict(params), cls, path=path)
                for s_ in path.stmts + ([path.end] if path.end is not None else []):
                    node = getattr(s_, 'node', s_)
                    if hasattr(s_, 'node'):
                        continue
                    for e in _exprs_of(node):
                        ok.value(e, fr)
        out[name] = {'mismatches': _dedupe(ok.mismatches), 'undecided': _dedupe(ok.undecided),
                     'checked': _dedupe(ok.checked)}
    ctx.memo['gauss_order'] = out
    return out


def ok_from_dict(ctx, ok, fn):
    class FD(OrderKind):
        def subscript(self2, node, base, fr):
            k = const_value(node.slice)
            if isinstance(base, tuple) and base and base[0] == 'container' and isinstance(k, str):
                if k == 'columns':
                    return ('ord', ('cols',))
                if k == 'correlation':
                    return ('mat', ('cols',), ('cols',))
                if k == 'univariates':
                    return ('ord', ('cols',))
            return OrderKind.subscript(self2, node, base, fr)
    fd = FD(ctx)
    for path in enum_paths(fn.body()):
        fr = Frame(fn, {}, fn.cls, path=path)
        for s_ in path.stmts + ([path.end] if path.end is not None else []):
            if hasattr(s_, 'node'):
                continue
            for e in _exprs_of(s_):
                fd.value(e, fr)
    ok.mismatches.extend(fd.mismatches)
    ok.undecided.extend(fd.undecided)
    ok.checked.extend(fd.checked)


def _exprs_of(stmt):
    if isinstance(stmt, (ast.Assign, ast.AugAssign, ast.AnnAssign, ast.Return, ast.Expr)):
        return [stmt.value] if getattr(stmt, 'value', None) is not None else []
    return []


def _dedupe(items):
    seen, out = set(), []
    for node, fn, msg in items:
        k = (id(node), msg)
        if k not in seen:
            seen.add(k)
            out.append((node, fn, msg))
    return out


def report_order(ctx, rep, rule, methods, floor=None):
    res = order_analysis(ctx)
    n = 0
    for name in methods:
        r = res.get(name)
        if r is None:
            raise (PrivateAnchorMissing if name.startswith('_') else AnalysisError)(f'GaussianMultivariate.{name}')
        for node, fn, msg in r['checked']:
            n += 1
            rep.ok(rule, fn, node, msg)
        for node, fn, msg in r['mismatches']:
            n += 1
            rep.bad(rule, fn, node, msg)
        bad_nodes = {id(x[0]) for x in r['mismatches']} | {id(x[0]) for x in r['checked']}
        for node, fn, msg in r['undecided']:
            if id(node) in bad_nodes:
                continue
            n += 1
            rep.undecided(rule, fn, node, msg)
    # no floor on the number of pairings: it is a property of how the code is laid out, not of what it computes
    if n == 0:
        fn0 = ctx.prog.cls(GM).lookup(methods[0])
        rep.undecided(rule, fn0, fn0.node.name, 'no positional pairing of ordered values was recognised in ' + ', '.join(methods), construct='positional pairings')
    return n


def report_marginal_index(ctx, rep, rule, methods):
    """`self.univariates[i]`: the position must be a position in self.columns (the two lists are filled in parallel).  Positive
    evidence of a mismatch: i enumerates a filtered copy / a slice of the columns, or another table's columns."""
    from ..idioms import single_def
    cls = ctx.prog.cls(GM)
    for name in methods:
        fn = cls.lookup(name)
        if fn is None:
            continue
        sn = fn.self_name

        def is_columns(e):
            return is_self_attr(e, sn, 'columns') or (isinstance(e, ast.Call) and call_name(e) in ('list', 'tuple') and e.args and is_columns(e.args[0]))

        def seq_verdict(seq, depth=0):
            """'same' / ('differs', why) / None for a sequence whose positions index the marginals"""
            if is_columns(seq):
                return 'same'
            if isinstance(seq, ast.Name) and depth < 4:
                d = single_def(fn.node, seq.id)
                return seq_verdict(d, depth + 1) if isinstance(d, ast.AST) else None
            if isinstance(seq, ast.ListComp) and len(seq.generators) == 1 and is_columns(seq.generators[0].iter) and isinstance(seq.elt, ast.Name) \
                    and isinstance(seq.generators[0].target, ast.Name) and seq.elt.id == seq.generators[0].target.id:
                return ('differs', f'`{short(seq, 60)}` skips columns, so later positions shift') if seq.generators[0].ifs else 'same'
            if isinstance(seq, ast.Subscript) and is_columns(seq.value) and isinstance(seq.slice, ast.Slice) and seq.slice.lower is not None:
                return ('differs', f'`{short(seq, 60)}` starts after the first column')
            if isinstance(seq, ast.Attribute) and seq.attr in ('columns', 'index') and isinstance(seq.value, ast.Name) and seq.value.id in fn.params:
                return ('differs', f'`{short(seq, 60)}` is the order of the argument, not the training order')
            return None
        for sub in walk_no_nested(fn.node):
            if not (isinstance(sub, ast.Subscript) and is_self_attr(sub.value, sn, 'univariates')) or isinstance(sub.slice, ast.Slice):
                continue
            idx = sub.slice
            verdict = None
            if isinstance(idx, ast.Call) and call_name(idx) == 'index' and isinstance(idx.func, ast.Attribute) and is_columns(idx.func.value):
                verdict = 'same'
            elif isinstance(idx, ast.Call) and call_name(idx) == 'get_loc' and isinstance(idx.func, ast.Attribute) and is_columns(idx.func.value):
                verdict = 'same'
            elif isinstance(idx, ast.Name):
                for lp in walk_no_nested(fn.node):
                    gens = [(lp.target, lp.iter)] if isinstance(lp, ast.For) else [(g.target, g.iter) for g in lp.generators] if isinstance(lp, (ast.ListComp, ast.GeneratorExp, ast.DictComp, ast.SetComp)) else []
                    for tgt, it in gens:
                        if isinstance(it, ast.Call) and call_name(it) == 'enumerate' and it.args and isinstance(tgt, ast.Tuple) and tgt.elts \
                                and isinstance(tgt.elts[0], ast.Name) and tgt.elts[0].id == idx.id:
                            verdict = seq_verdict(it.args[0])
                        elif isinstance(it, ast.Call) and call_name(it) == 'range' and len(it.args) == 1 and isinstance(tgt, ast.Name) and tgt.id == idx.id \
                                and isinstance(it.args[0], ast.Call) and call_name(it.args[0]) == 'len' and it.args[0].args:
                            verdict = seq_verdict(it.args[0].args[0])
                if verdict is None:
                    d = single_def(fn.node, idx.id)
                    if isinstance(d, ast.Call) and call_name(d) in ('index', 'get_loc') and isinstance(d.func, ast.Attribute) and is_columns(d.func.value):
                        verdict = 'same'
            cons = f'{name}: position of the marginal'
            if verdict == 'same':
                rep.ok(rule, fn, sub, f'`{short(sub, 50)}`: a position in self.columns', construct=cons)
            elif isinstance(verdict, tuple):
                rep.bad(rule, fn, sub, f'`{short(sub, 50)}` pairs a column with the marginal at its position in another sequence: {verdict[1]}; the column is scored with another column\'s marginal',
                        construct=cons)
            else:
                rep.undecided(rule, fn, sub, f'`{short(sub, 50)}`: what the position counts was not derived', construct=cons)


# --------------------------------------------------------------------------- space kinds
def space_analysis(ctx):
    """Kind-check every path of the Gaussian-copula methods; returns (SpaceKind, facts)."""
    if 'gauss_space' in ctx.memo:
        return ctx.memo['gauss_space']
    prog = ctx.prog
    cls = prog.cls(GM)
    sk = SpaceKind(ctx, hierarchy='uni')
    sk.self_kinds.update({'correlation': 'CORR'})
    sk.param_kinds.update({
        (f'{GM}._transform_to_normal', 'X'): 'X', (f'{GM}.probability_density', 'X'): 'X',
        (f'{GM}.cumulative_distribution', 'X'): 'X', (f'{GM}._get_correlation', 'X'): 'X',
        (f'{GM}.sample', 'num_rows'): 'N', (f'{GM}._get_normal_samples', 'num_rows'): 'N',
        (f'{GM}.sample', 'conditions'): 'X', (f'{GM}._get_normal_samples', 'conditions'): 'X',
        (f'{GM}._get_conditional_distribution', 'conditions'): 'Z',
    })
    facts = {}  # (method, call node id) -> list of (path, kinds of args)
    for name in sorted(cls.methods):
        fn = cls.methods[name]
        if name in ('__init__', '__repr__', 'to_dict', 'from_dict', 'fit', '_fit_columns', '_fit_column', '_validate_input',
                    '_fit_with_fallback_distribution', '_get_distribution_for_column'):
            continue
        for path in enum_paths(fn.body()):
            fr = Frame(fn, {}, cls, path=path)
            for s_ in path.stmts + ([path.end] if path.end is not None else []):
                if hasattr(s_, 'node'):
                    continue
                for e in _exprs_of(s_):
                    sk.value(e, fr)
                    for c in walk_no_nested(e):
                        if isinstance(c, ast.Call):
                            facts.setdefault((name, id(c)), []).append((path, c, [sk.value(a, fr) for a in c.args],
                                                                       {k.arg: sk.value(k.value, fr) for k in c.keywords if k.arg}))
    sk.mismatches = _dedupe(sk.mismatches)
    ctx.memo['gauss_space'] = (sk, facts)
    return sk, facts


def report_space_all(ctx, rep, rule):
    sk, facts = space_analysis(ctx)
    n = 0
    for node, fn, msg in sk.mismatches:
        n += 1
        if msg.startswith('?'):
            rep.undecided(rule, fn, node, msg[1:])
        else:
            rep.bad(rule, fn, node, msg)
    return n


def report_space(ctx, rep, rule, methods):
    sk, facts = space_analysis(ctx)
    prog = ctx.prog
    fns = {prog.method(GM, m).qualname for m in methods}
    n = 0
    for node, fn, msg in sk.mismatches:
        if fn.qualname in fns:
            n += 1
            if msg.startswith('?'):
                rep.undecided(rule, fn, node, msg[1:])
            else:
                rep.bad(rule, fn, node, msg)
    return n


# ------------------------------------------------------------------ column provenance in sample()
class ColProv(AbsInt):
    """Which training column a value belongs to inside the column loop of sample():
    ('key', L) the loop's column name, ('uni', L) its marginal, ('draw', L | 'positional') the normal draw selected for a
    column, ('x', Lu, Ld) a marginal quantile of column Lu applied to the draw of column Ld, ('given', L) the
    conditioning value of column L."""

    def __init__(self, ctx):
        super().__init__(ctx)
        self.hierarchy = 'uni'

    def const(self, node, fr):
        return 'k'

    def param(self, name, fr):
        if name in fr.params:
            return fr.params[name]
        if name == 'conditions':
            return 'COND'
        return TOP

    def self_attr(self, attr, node, fr):
        return {'columns': 'COLS', 'univariates': 'UNIS'}.get(attr, TOP)

    def join_distinct(self, a, b):
        return TOP

    def iter_value(self, it, fr):
        v = super().iter_value(it, fr)
        return v

    def iter_elem(self, val, node, fr):
        if isinstance(val, Tup) and val.kind == 'zip' and len(val.elems) == 2 and val.elems[0] == 'COLS' and val.elems[1] == 'UNIS':
            return Tup([('key', id(node)), ('uni', id(node))])
        if val == 'COLS':
            return ('key', id(node))
        return TOP

    def project_call_override(self, g, node, fr):
        if g.name == '_get_normal_samples':
            return 'DRAWS'
        return None

    def subscript(self, node, base, fr):
        if base == 'DRAWS':
            k = self.value(node.slice, fr)
            if isinstance(k, tuple) and k and k[0] == 'key':
                return ('draw', k[1])
            return ('draw', 'positional')
        if base == 'COND':
            k = self.value(node.slice, fr)
            if isinstance(k, tuple) and k and k[0] == 'key':
                return ('given', k[1])
            return TOP
        if isinstance(base, tuple) and base and base[0] == 'draw':
            return base
        return TOP

    def attribute(self, node, base, fr):
        if base == 'DRAWS' and node.attr in ('values', 'loc', 'iloc', 'T'):
            return 'DRAWS'
        return TOP

    def external_call(self, name, node, fr):
        a = node.args
        if name in ('scipy.stats.norm.cdf', 'scipy.special.ndtr', 'scipy.stats.norm.pdf', 'numpy.asarray', 'numpy.array', 'numpy.ravel', 'numpy.clip') and a:
            return self.value(a[0], fr)
        if name == 'numpy.full' and len(a) >= 2:
            return self.value(a[1], fr)
        if name == 'numpy.repeat' and a:
            return self.value(a[0], fr)
        return TOP

    def method_call(self, meth, node, recv, fr):
        if meth in ('to_numpy', 'copy', 'astype', 'clip', 'ravel') and (recv == 'DRAWS' or (isinstance(recv, tuple) and recv and recv[0] in ('draw', 'given'))):
            return recv
        if meth in ('percent_point', 'ppf') and isinstance(recv, tuple) and recv and recv[0] == 'uni':
            a = self.value(node.args[0], fr) if node.args else TOP
            d = a[1] if isinstance(a, tuple) and a and a[0] == 'draw' else ('?' if a is TOP else 'other')
            return ('x', recv[1], d)
        return None

    def call(self, node, fr):
        f = node.func
        if isinstance(f, ast.Attribute) and f.attr in ('percent_point', 'ppf'):
            recv = self.value(f.value, fr)
            r = self.method_call(f.attr, node, recv, fr)
            if r is not None:
                return r
        return super().call(node, fr)


def sample_column_stores(ctx):
    """[(store stmt, key value, stored value, reach formula inside the loop, loop)] for sample()'s output dict."""
    from ..boolcond import Conds
    from .c01 import _output_stores
    prog = ctx.prog
    fn = gm_method(ctx, 'sample')
    dname, ret, stores = _output_stores(fn)
    cp = ColProv(ctx)
    cls = prog.cls(GM)
    out = []
    for st in stores:
        loop = None
        p = st._parent
        while p is not None and p is not fn.node:
            if isinstance(p, ast.For):
                loop = p
                break
            p = p._parent
        fr = Frame(fn, {}, cls)
        k = cp.value(st.targets[0].slice, fr)
        # a store shared by several branches through a local (`values = ...` in each branch, one `output[c] = values` after them):
        # one virtual store per definition of the local, reached when that definition is
        defs = []
        if loop is not None and isinstance(st.value, ast.Name):
            defs = [a for a in ast.walk(loop) if isinstance(a, ast.Assign) and len(a.targets) == 1 and isinstance(a.targets[0], ast.Name)
                    and a.targets[0].id == st.value.id and a.lineno < st.lineno]
        if len(defs) >= 2:
            for d in defs:
                shim = ast.copy_location(ast.Assign(targets=st.targets, value=d.value), d)
                shim._parent = getattr(d, '_parent', None)
                cd = Conds(prog, fn)
                out.append((shim, k, cp.value(d.value, fr), cd.reach(d, stmts=loop.body), loop))
            continue
        v = cp.value(st.value, fr)
        reach = None
        if loop is not None:
            cd = Conds(prog, fn)
            reach = cd.reach(st, stmts=loop.body)
        out.append((st, k, v, reach, loop))
    return fn, out


# ---------------------------------------------------------------- provenance in the fit pipeline
class FitProv(AbsInt):
    """('key', L) the name of the column visited by loop L over X.items(); ('col', L) its data; ('dist', L) the
    distribution looked up for ('key', L); ('fit', Lcol, Ldist, Lname) the model returned by _fit_column;
    ('list', elt, filtered?) a list with one element per iteration."""
    MAX_DEPTH = 4

    def __init__(self, ctx):
        super().__init__(ctx)
        self.filtered = []

    def const(self, node, fr):
        return 'k'

    def param(self, name, fr):
        if name in fr.params:
            return fr.params[name]
        return ('param', name)

    def join_distinct(self, a, b):
        return TOP

    def iter_value(self, it, fr):
        if isinstance(it, ast.Call) and isinstance(it.func, ast.Attribute) and it.func.attr == 'items' and not it.args:
            v = self.value(it.func.value, fr)
            return ('items', v)
        return super().iter_value(it, fr)

    def iter_elem(self, val, node, fr):
        if isinstance(val, tuple) and val and val[0] == 'items':
            return Tup([('key', id(node)), ('col', id(node))])
        if isinstance(val, tuple) and val and val[0] == 'list':
            return val[1]
        if isinstance(val, Tup) and val.kind == 'zip':
            return Tup([self.iter_elem(e, node, fr) for e in val.elems])
        return TOP

    def unpack(self, val, index, total, node, fr):
        if isinstance(val, Tup) and len(val.elems) == total:
            return val.elems[index]
        return TOP

    def sequence(self, node, vals, fr):
        return Tup(vals)

    def comprehension(self, node, fr):
        if isinstance(node, ast.ListComp) and len(node.generators) == 1:
            elt = self.value(node.elt, fr)
            return ('list', elt, bool(node.generators[0].ifs))
        return TOP

    def project_call_override(self, g, node, fr):
        from .c20 import get_alias
        b = get_alias(self.ctx).bind(fr.fn, node, g)
        if g.name == '_get_distribution_for_column':
            a = [self.value(x, fr) for x in b.get(g.params[1], [])]
            if a and isinstance(a[0], tuple) and a[0][0] == 'key':
                return ('dist', a[0][1])
            return TOP
        if g.name == '_fit_column':
            def one(p):
                v = [self.value(x, fr) for x in b.get(p, [])]
                return v[0] if v else TOP
            c, d, n = one('column'), one('distribution'), one('column_name')
            tag = lambda v, k: v[1] if isinstance(v, tuple) and v and v[0] == k else None
            return ('fit', tag(c, 'col'), tag(d, 'dist'), tag(n, 'key'))
        if g.name == '_validate_input':
            return self.value(node.args[0], fr) if node.args else TOP
        return None

    def name(self, node, fr):
        acc = self._appended(node.id, fr)
        if acc is not None:
            return acc
        return super().name(node, fr)

    def _appended(self, nm, fr):
        binds = fr.bindings.get(nm, [])
        if not binds or not all(b.kind == 'assign' and isinstance(b.value, ast.List) and not b.value.elts for b in binds):
            return None
        apps = [n for n in walk_no_nested(fr.fn.node) if isinstance(n, ast.Call) and isinstance(n.func, ast.Attribute)
                and n.func.attr == 'append' and isinstance(n.func.value, ast.Name) and n.func.value.id == nm]
        if len(apps) != 1:
            return TOP if apps else None
        st = apps[0]._parent
        lp = st._parent
        conditional = not (isinstance(lp, ast.For) and st in lp.body) or any(isinstance(x, (ast.Continue, ast.Break)) for x in ast.walk(lp))
        return ('list', self.value(apps[0].args[0], fr), conditional)


def fit_pipeline(ctx):
    """(value of self.columns, value of self.univariates) after fit, in the FitProv domain."""
    from ..idioms import attr_stores
    prog = ctx.prog
    fit = gm_method(ctx, 'fit')
    cls = prog.cls(GM)
    fp = FitProv(ctx)
    fr = Frame(fit, {}, cls)
    out = {}
    for attr in ('columns', 'univariates'):
        sts = attr_stores(fit, attr)
        if len(sts) != 1:
            out[attr] = (None, TOP)
            continue
        st, v = sts[0]
        if isinstance(v, tuple) and v and v[0] == 'unpack':
            val = fp.value(v[1], fr)
            val = val.elems[v[2]] if isinstance(val, Tup) and v[2] < len(val.elems) else TOP
        else:
            val = fp.value(v, fr) if v is not None else TOP
        out[attr] = (st, val)
    return fit, out
