"""Shared analyses of copulas/multivariate/gaussian.py used by C01, C02, C12, C13."""

import ast

from ..absint import BOT, TOP, AbsInt, Frame, Tup
from ..idioms import enum_paths, guard_chain, is_none_test, stmt_of
from ..kinds import ANY, LenKind, OrderKind, SpaceKind, fmt_tag
from ..model import AnalysisError, call_name, const_value, is_self_attr, kwarg, short, walk_no_nested

GM = 'copulas.multivariate.gaussian.GaussianMultivariate'


def gm_method(ctx, name):
    return ctx.prog.method(GM, name)


# --------------------------------------------------------------------------- order analysis
def order_analysis(ctx):
    """Run the axis-order provenance on every path of the Gaussian-copula methods.
    Returns dict(method name -> dict(mismatches, undecided, checked))."""
    if 'gauss_order' in ctx.memo:
        return ctx.memo['gauss_order']
    prog = ctx.prog
    cls = prog.cls(GM)
    out = {}
    for name in ('_transform_to_normal', '_get_correlation', '_get_conditional_distribution', '_get_normal_samples',
                 'probability_density', 'cumulative_distribution', 'from_dict'):
        fn = cls.lookup(name)
        if fn is None:
            continue
        ok = OrderKind(ctx)
        params = {}
        if name == 'from_dict':
            # the dict written by to_dict: 'columns' is the training order, matrices are in that order
            ok_from_dict(ctx, ok, fn)
        else:
            for path in enum_paths(fn.body()):
                fr = Frame(fn, dict(params), cls, path=path)
                for s_ in path.stmts + ([path.end] if path.end is not None else []):
                    node = getattr(s_, 'node', s_)
                    if hasattr(s_, 'node'):
                        continue
                    for e in _exprs_of(node):
                        ok.value(e, fr)
        out[name] = {'mismatches': _dedupe(ok.mismatches), 'undecided': _dedupe(ok.undecided),
                     'checked': _dedupe(ok.checked)}
    ctx.memo['gauss_order'] = out
    return out


def ok_from_dict(ctx, ok, fn):
    class FD(OrderKind):
        def subscript(self2, node, base, fr):
            k = const_value(node.slice)
            if isinstance(base, tuple) and base and base[0] == 'container' and isinstance(k, str):
                if k == 'columns':
                    return ('ord', ('cols',))
                if k == 'correlation':
                    return ('mat', ('cols',), ('cols',))
                if k == 'univariates':
                    return ('ord', ('cols',))
            return OrderKind.subscript(self2, node, base, fr)
    fd = FD(ctx)
    for path in enum_paths(fn.body()):
        fr = Frame(fn, {}, fn.cls, path=path)
        for s_ in path.stmts + ([path.end] if path.end is not None else []):
            if hasattr(s_, 'node'):
                continue
            for e in _exprs_of(s_):
                fd.value(e, fr)
    ok.mismatches.extend(fd.mismatches)
    ok.undecided.extend(fd.undecided)
    ok.checked.extend(fd.checked)


def _exprs_of(stmt):
    if isinstance(stmt, (ast.Assign, ast.AugAssign, ast.AnnAssign, ast.Return, ast.Expr)):
        return [stmt.value] if getattr(stmt, 'value', None) is not None else []
    return []


def _dedupe(items):
    seen, out = set(), []
    for node, fn, msg in items:
        k = (id(node), msg)
        if k not in seen:
            seen.add(k)
            out.append((node, fn, msg))
    return out


def report_order(ctx, rep, rule, methods, floor=None):
    res = order_analysis(ctx)
    n = 0
    for name in methods:
        r = res.get(name)
        if r is None:
            raise AnalysisError(f'anchor vanished: GaussianMultivariate.{name}')
        for node, fn, msg in r['checked']:
            n += 1
            rep.ok(rule, fn, node, msg)
        for node, fn, msg in r['mismatches']:
            n += 1
            rep.bad(rule, fn, node, msg)
        bad_nodes = {id(x[0]) for x in r['mismatches']} | {id(x[0]) for x in r['checked']}
        for node, fn, msg in r['undecided']:
            if id(node) in bad_nodes:
                continue
            n += 1
            rep.undecided(rule, fn, node, msg)
    if floor:
        rep.floor(rule, 'positional pairings analysed', n, floor)
    return n


# --------------------------------------------------------------------------- space kinds
def space_analysis(ctx):
    """Kind-check every path of the Gaussian-copula methods; returns (SpaceKind, facts)."""
    if 'gauss_space' in ctx.memo:
        return ctx.memo['gauss_space']
    prog = ctx.prog
    cls = prog.cls(GM)
    sk = SpaceKind(ctx, hierarchy='uni')
    sk.self_kinds.update({'correlation': 'CORR'})
    sk.param_kinds.update({
        (f'{GM}._transform_to_normal', 'X'): 'X', (f'{GM}.probability_density', 'X'): 'X',
        (f'{GM}.cumulative_distribution', 'X'): 'X', (f'{GM}._get_correlation', 'X'): 'X',
        (f'{GM}.sample', 'num_rows'): 'N', (f'{GM}._get_normal_samples', 'num_rows'): 'N',
        (f'{GM}.sample', 'conditions'): 'X', (f'{GM}._get_normal_samples', 'conditions'): 'X',
        (f'{GM}._get_conditional_distribution', 'conditions'): 'Z',
    })
    facts = {}  # (method, call node id) -> list of (path, kinds of args)
    for name in ('_transform_to_normal', '_get_correlation', '_get_normal_samples', 'sample', 'probability_density',
                 'cumulative_distribution'):
        fn = cls.lookup(name)
        if fn is None:
            continue
        for path in enum_paths(fn.body()):
            fr = Frame(fn, {}, cls, path=path)
            for s_ in path.stmts + ([path.end] if path.end is not None else []):
                if hasattr(s_, 'node'):
                    continue
                for e in _exprs_of(s_):
                    sk.value(e, fr)
                    for c in walk_no_nested(e):
                        if isinstance(c, ast.Call):
                            facts.setdefault((name, id(c)), []).append((path, c, [sk.value(a, fr) for a in c.args],
                                                                       {k.arg: sk.value(k.value, fr) for k in c.keywords if k.arg}))
    sk.mismatches = _dedupe(sk.mismatches)
    ctx.memo['gauss_space'] = (sk, facts)
    return sk, facts


def report_space(ctx, rep, rule, methods):
    sk, facts = space_analysis(ctx)
    prog = ctx.prog
    fns = {prog.method(GM, m).qualname for m in methods}
    n = 0
    for node, fn, msg in sk.mismatches:
        if fn.qualname in fns:
            n += 1
            if msg.startswith('?'):
                rep.undecided(rule, fn, node, msg[1:])
            else:
                rep.bad(rule, fn, node, msg)
    return n
