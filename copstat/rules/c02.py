"""C02 - fitted Gaussian-copula correlation is valid and correctly computed (PARTIAL)."""

import ast

from .. import contracts as K
from ..absint import BOT, TOP, AbsInt, Frame
from ..cfg import CFG
from ..idioms import enum_paths, stmt_of
from ..model import call_name, const_value, is_self_attr, kwarg, short, walk_no_nested
from . import gauss


class Stages(AbsInt):
    """Which sanitisation stages a value has passed, in order.  A value is a frozenset of alternatives, each a tuple of
    stage names; evaluation of a function is path by path, and a path taken under the condition-number guard carries
    the marker 'G+' (guard true) or 'G-' (guard false)."""
    MAX_DEPTH = 3

    def const(self, node, fr):
        return TOP

    def param(self, name, fr):
        return fr.params.get(name, frozenset({()}))

    def join(self, a, b):
        if isinstance(a, frozenset) and isinstance(b, frozenset):
            return a | b
        return super().join(a, b)

    def join_distinct(self, a, b):
        return TOP

    @staticmethod
    def each(v, f):
        return frozenset(f(alt) for alt in v) if isinstance(v, frozenset) else TOP

    def method_call(self, meth, node, recv, fr):
        if meth == 'corr' and isinstance(recv, frozenset):
            # DataFrame.corr() with its defaults is the Pearson matrix of all rows; method= / min_periods= / numeric_only= change what is computed
            opts = [k.arg for k in node.keywords if k.arg in ('method', 'min_periods') and not (k.arg == 'method' and isinstance(k.value, ast.Constant) and k.value.value == 'pearson')
                    and not (k.arg == 'min_periods' and isinstance(k.value, ast.Constant) and k.value.value in (None, 1))] + (['positional'] if node.args else [])
            if opts:
                return self.each(recv, lambda a: a + ('corr-nondefault',))
            return self.each(recv, lambda a: a + ('corr',))
        if meth == 'cov' and isinstance(recv, frozenset):
            return self.each(recv, lambda a: a + ('cov',))
        if meth in ('to_numpy', 'copy', 'astype') and isinstance(recv, frozenset):
            return recv
        return None

    def attribute(self, node, base, fr):
        return base if node.attr == 'values' and isinstance(base, frozenset) else TOP

    def global_name(self, dotted, node, fr):
        return ('const', dotted)

    def external_call(self, name, node, fr):
        if name == 'numpy.nan_to_num' and node.args:
            v = self.value(node.args[0], fr)
            nan = kwarg(node, 'nan', 2)
            zero = nan is None or const_value(nan) in (0, 0.0)
            return self.each(v, lambda a: a + (('nan0',) if zero else ('nan-nonzero',)))
        if name == 'pandas.DataFrame':
            d = kwarg(node, 'data', 0)
            return self.value(d, fr) if d is not None else TOP
        if name in ('numpy.corrcoef',) and node.args:
            return self.each(self.value(node.args[0], fr), lambda a: a + ('corr',))
        if name in ('numpy.cov',) and node.args:
            return self.each(self.value(node.args[0], fr), lambda a: a + ('cov',))
        if name in ('numpy.identity', 'numpy.eye'):
            return ('identity',)
        if name in ('numpy.array', 'numpy.asarray', 'numpy.atleast_2d', 'numpy.asanyarray', 'numpy.ascontiguousarray') and node.args:
            return self.value(node.args[0], fr)
        return TOP

    def project_call_override(self, g, node, fr):
        if g.name == '_transform_to_normal':
            return frozenset({('scores',)})
        return None

    def _scalar(self, node, val, fr):
        """Folded magnitude of a scalar operand of the ridge term, or None."""
        from ..constfold import fold
        return fold(self.prog, fr.fn.module, node, fr.fn.node)

    def binop(self, node, left, right, fr):
        if isinstance(node.op, (ast.Mult, ast.Div)):
            pairs = ((left, right, node.right), (right, left, node.left)) if isinstance(node.op, ast.Mult) else ((left, right, node.right),)
            for a, b, bn in pairs:
                if a == ('identity',) and not isinstance(b, frozenset):
                    v = self._scalar(bn, b, fr)
                    if v is not None and isinstance(node.op, ast.Div):
                        v = 1.0 / v if v else float('inf')
                    return ('ridge-term', v)
        if isinstance(node.op, (ast.Add, ast.Sub)):
            pairs = ((left, right), (right, left)) if isinstance(node.op, ast.Add) else ((left, right),)
            for a, b in pairs:
                if isinstance(b, tuple) and b and b[0] == 'ridge-term' and isinstance(a, frozenset):
                    v = b[1]
                    if v is not None and isinstance(node.op, ast.Sub):
                        v = -v
                    return self.each(a, lambda alt: alt + ('ridge:' + ('?' if v is None else repr(v)),))
                if b == ('identity',) and isinstance(a, frozenset):
                    return self.each(a, lambda alt: alt + ('ridge:' + repr(-1.0 if isinstance(node.op, ast.Sub) else 1.0),))
        return TOP

    def returns(self, fr):
        out = BOT
        fn = fr.fn
        for path in enum_paths(fn.body()):
            if not isinstance(path.end, ast.Return) or path.end.value is None:
                continue
            sub = Frame(fn, dict(fr.params), fr.concrete, fr.depth, path=path)
            val = self.value(path.end.value, sub)
            marks = ()
            for t, pol in path.conds:
                if isinstance(t, ast.expr) and _mentions_cond(self.prog, fn, _res(fn, t)):
                    kind, flip = _is_cond_guard(self.prog, fn, _res(fn, t))
                    p = pol != flip
                    marks += ({'good': 'G', 'bad': 'Gbad', 'unknown': 'Gunk'}[kind] + ('+' if p else '-'),)
            if isinstance(val, frozenset) and marks:
                val = self.each(val, lambda a: a + marks)
            out = self.join(out, val)
        return out


def _res(fn, e):
    from ..idioms import resolve
    if isinstance(e, ast.Compare):
        import copy
        e2 = copy.copy(e)
        e2.left = resolve(fn.node, e.left)
        e2.comparators = [resolve(fn.node, c) for c in e.comparators]
        return e2
    return resolve(fn.node, e)


def run(ctx, rep):
    rep.trust(*K.TRUSTED_BASE_COMMON, 'DataFrame.corr() yields NaN for constant columns; np.nan_to_num(nan=0.0) replaces them by 0',
              'norm.ppf(0) = -inf, norm.ppf(1) = +inf')
    rep.notes.append('C02 PARTIAL: decides the sanitisation chain (corr -> NaN to 0 -> ridge when ill-conditioned), that normal '
                     'scores come from clipped CDF values, the labelling of the matrix and the ordering of assignments in fit; '
                     'symmetry, range, positive semi-definiteness and equality with the Pearson coefficient are not decided.')
    prog = ctx.prog
    fn = gauss.gm_method(ctx, '_get_correlation')
    cls = prog.cls(gauss.GM)
    rep.rule('D1.chain', 'on every path the returned matrix is corr() of the normal scores passed through nan_to_num(nan=0)')
    rep.rule('D2.ridge', 'when np.linalg.cond(c) exceeds 1/eps the matrix receives + EPSILON * identity')
    rep.rule('D3.scores', 'normal scores are norm.ppf of CDF values clipped to [EPSILON, 1-EPSILON]')
    rep.rule('D4.labels', 'the matrix is labelled with the training columns in the order of its rows/columns')
    rep.rule('D5.order', 'fit assigns columns and univariates before computing the correlation of the same table')
    st = Stages(ctx)
    val = st.returns(Frame(fn, {}, cls))
    rets = [n for n in walk_no_nested(fn.node) if isinstance(n, ast.Return) and n.value is not None]
    anchor = rets[-1] if rets else fn.node.name
    if not isinstance(val, frozenset) or not val:
        rep.undecided('D1.chain', fn, anchor, 'stages of the returned matrix not derivable', construct='return stages')
    else:
        alts = sorted(val)
        for alt in alts:
            stages = [x for x in alt if not x.startswith('G')]
            ok = 'scores' in stages and 'corr' in stages and 'nan0' in stages \
                and stages.index('scores') < stages.index('corr') < stages.index('nan0')
            label = 'ridge' if any(x.startswith('ridge:') for x in alt) else 'plain'
            if 'corr-nondefault' in stages:
                rep.bad('D1.chain', fn, anchor, 'the correlation is computed with a non-default `method=` / `min_periods=`: it is no longer the Pearson correlation of the two score columns over all '
                        'rows (min_periods also blanks the diagonal of small tables)', construct=f'return stages ({label} path)')
                continue
            rep.check('D1.chain', fn, anchor, ok, f'stages {stages}',
                      f'the returned matrix passes {stages}: the NaN-to-zero step (constant columns) or the corr() of the normal scores is missing'
                      + (' (a covariance is not a correlation: the unit diagonal and the [-1, 1] range are lost unless every score column has variance 1)' if 'cov' in stages else ''),
                      construct=f'return stages ({label} path)')
        ridged = [a for a in alts if any(x.startswith('ridge:') for x in a)]
        plain = [a for a in alts if a not in ridged]
        guards = {x for a in alts for x in a if x.startswith('G')}
        if not guards:
            rep.bad('D2.ridge', fn, fn.node.name, 'no path guarded by a condition-number test: a singular correlation is never regularised',
                    construct='condition-number guard')
        elif any(g.startswith('Gbad') for g in guards):
            rep.bad('D2.ridge', fn, fn.node.name, 'the condition-number test has the wrong direction or threshold', construct='cond guard')
        elif any(g.startswith('Gunk') for g in guards):
            rep.undecided('D2.ridge', fn, fn.node.name, 'a test on np.linalg.cond(...) of a form that is not recognised', construct='cond guard')
        else:
            rep.ok('D2.ridge', fn, fn.node.name, 'ridge decision taken when cond(c) is LARGE (> 1/machine epsilon)', construct='cond guard')
            sizes = [x[6:] for a in ridged for x in a if x.startswith('ridge:')]
            placed = bool(ridged) and all('G+' in a for a in ridged) and all('G+' not in a for a in plain)
            if not placed:
                rep.bad('D2.ridge', fn, anchor, f'the ridge is not added on exactly the ill-conditioned path (alternatives {alts})', construct='ridge on the ill-conditioned path')
            elif any(x == '?' for x in sizes):
                rep.undecided('D2.ridge', fn, anchor, 'the size of the ridge added on the ill-conditioned path is not a foldable constant', construct='ridge on the ill-conditioned path')
            else:
                vals = [float(x) for x in sizes]
                good = all(1e-12 <= v <= 1e-6 for v in vals)
                rep.check('D2.ridge', fn, anchor, good, f'exactly the ill-conditioned path adds a ridge of {vals[0]:.3g} * identity',
                          f'the ill-conditioned path changes the diagonal by {vals} instead of a small positive ridge of order 1e-7: '
                          + ('the matrix is pushed away from positive definiteness' if any(v <= 0 for v in vals) else 'the unit diagonal is lost'),
                          construct='ridge on the ill-conditioned path')
    gauss.report_space(ctx, rep, 'D3.scores', ['_transform_to_normal', '_get_correlation'])
    sk, facts = gauss.space_analysis(ctx)
    tn = gauss.gm_method(ctx, '_transform_to_normal')
    ppf = [c for c in walk_no_nested(tn.node) if isinstance(c, ast.Call) and prog.resolve(tn.module, c.func) in (
        'scipy.stats.norm.ppf', 'scipy.special.ndtri')]
    if not ppf:
        rep.undecided('D3.scores', tn, tn.node.name, 'no norm.ppf call in _transform_to_normal itself (moved into a helper?): the kind of its argument is not derived here',
                      construct='norm.ppf argument')
    for c in ppf:
        ks = {repr(a[0]) for _p, _c, a, _k in facts.get(('_transform_to_normal', id(c)), []) if a}
        if ks == {"'P0'"}:
            rep.ok('D3.scores', tn, c, 'argument kind P0 = clip(univariate.cdf(column), EPSILON, 1 - EPSILON)')
        elif not ks & {"'P'"}:
            rep.undecided('D3.scores', tn, c, f'kind of the argument: {ks}')
    gauss.report_order(ctx, rep, 'D4.labels', ['_get_correlation'])
    # a block computed for a subset of the columns must not be written at leading positions of the full matrix
    from ..kinds import OrderKind, fmt_tag
    okd = OrderKind(ctx)
    frp = Frame(fn, {}, cls)
    for st_ in walk_no_nested(fn.node):
        if isinstance(st_, ast.Assign) and isinstance(st_.targets[0], ast.Subscript) and isinstance(st_.targets[0].slice, ast.Tuple):
            sl = st_.targets[0].slice.elts
            leading = all(isinstance(x, ast.Slice) and x.lower is None and x.upper is not None for x in sl)
            v = okd.value(st_.value, frp)
            if leading and isinstance(v, tuple) and v and v[0] == 'mat' and isinstance(v[1], tuple) and v[1][0] == 'filter' \
                    and not str(v[1][2]).startswith('fit.') and v[1][2] != '_get_correlation.X':
                rep.bad('D4.labels', fn, st_, f'a block whose rows/columns are {fmt_tag(v[1])} is written at the leading positions of the matrix: '
                        'unless the selected columns happen to come first, correlations are stored under the wrong columns')
    # D5: dominance in fit
    fit = gauss.gm_method(ctx, 'fit')
    cfg = CFG(fit.node)
    dom = cfg.dominators()
    from ..idioms import attr_stores, private_closure

    def reaches(call, name):
        """The call is `self.<name>(...)` or a private helper whose closure calls it; returns the argument expression
        of the table (first argument, passed through unchanged by the helper) or None."""
        if call_name(call) == name:
            return call.args[0] if call.args else None
        for t in ctx.cg.targets(fit, call, cls):
            if t.kind == 'proj' and t.fn.name.startswith('_') and t.fn is not fit:
                for g in private_closure(ctx, t.fn, cls):
                    inner = [x for x in walk_no_nested(g.node) if isinstance(x, ast.Call) and call_name(x) == name]
                    if inner:
                        a = inner[0].args[0] if inner[0].args else None
                        passthrough = g is t.fn and isinstance(a, ast.Name) and len(t.fn.params) > 1 and a.id == t.fn.params[1] and call.args
                        return call.args[0] if passthrough else False
        return None

    calls = [(c, reaches(c, '_get_correlation')) for c in walk_no_nested(fit.node) if isinstance(c, ast.Call)]
    calls = [(c, a) for c, a in calls if a is not None]
    for c, table in calls:
        cn = cfg.node_containing(c)
        for attr in ('columns', 'univariates'):
            stores = [st_ for st_, _v in attr_stores(fit, attr)]
            good = any(cfg.node_of(s) is not None and cfg.node_of(s).id in dom.get(cn.id, ()) for s in stores)
            if not stores:
                rep.undecided('D5.order', fit, c, f'no store to self.{attr} found in fit itself', construct=f'self.{attr} dominates _get_correlation')
                continue
            rep.check('D5.order', fit, c, good, f'self.{attr} is assigned before the correlation is computed',
                      f'_get_correlation reads self.{attr} (through _transform_to_normal) before fit assigns it: it uses the '
                      'state of a previous fit or None', construct=f'self.{attr} dominates _get_correlation')
        fc = [x for x in walk_no_nested(fit.node) if isinstance(x, ast.Call) and call_name(x) == '_fit_columns']
        if table is False or not fc or not fc[0].args:
            rep.undecided('D5.order', fit, c, 'which table reaches _get_correlation / _fit_columns is not derived', construct='same table')
        else:
            same = ast.dump(fc[0].args[0]) == ast.dump(table)
            rep.check('D5.order', fit, c, same, 'the correlation is computed on the table the marginals were fitted on',
                      'the correlation is computed on a different table than the marginals', construct='same table')
    if not calls:
        rep.undecided('D5.order', fit, fit.node.name, 'no call in fit that reaches _get_correlation was found', construct='self.columns dominates _get_correlation')


def _mentions_cond(prog, fn, test):
    return any(isinstance(x, ast.Call) and prog.resolve(fn.module, x.func) == 'numpy.linalg.cond' for x in ast.walk(test))


def _is_cond_guard(prog, fn, test):
    """Classifies a test that mentions np.linalg.cond: ('good', flip) for cond(x) > T with a folded threshold T <= 1e16
    (flip: the test is its negation, e.g. `not cond(x) > T` or `cond(x) <= T`), ('bad', flip) for T >= 1e17 (never or
    hardly ever exceeded), ('unknown', False) otherwise."""
    flip = False
    while isinstance(test, ast.UnaryOp) and isinstance(test.op, ast.Not):
        test, flip = test.operand, not flip
    if not isinstance(test, ast.Compare) or len(test.ops) != 1:
        return 'unknown', False
    l, r, op = test.left, test.comparators[0], test.ops[0]
    if not isinstance(op, (ast.Lt, ast.LtE, ast.Gt, ast.GtE)):
        return 'unknown', False
    is_cond = lambda e: isinstance(e, ast.Call) and prog.resolve(fn.module, e.func) == 'numpy.linalg.cond'
    if is_cond(r) and not is_cond(l):
        l, r = r, l
        op = {ast.Lt: ast.Gt, ast.LtE: ast.GtE, ast.Gt: ast.Lt, ast.GtE: ast.LtE}[type(op)]()
    if not is_cond(l):
        return 'unknown', False
    if isinstance(op, (ast.Lt, ast.LtE)):
        flip = not flip  # cond(x) <= BIG is the negation of the guard
    from ..constfold import fold
    v = fold(prog, fn.module, r, fn.node)
    if v is None or v != v:
        return 'unknown', False
    # every numerically singular matrix (cond > 1/eps ~ 4.5e15) must take the ridge path; a lower threshold only regularises more
    # often, which the property allows ("up to a ridge of order 1e-7"); a threshold beyond 1e17 leaves singular matrices alone
    if v <= 1e16:
        return 'good', flip
    if v >= 1e17:
        return 'bad', flip
    return 'unknown', False
