"""C02 - fitted Gaussian-copula correlation is valid and correctly computed (PARTIAL)."""

import ast

from .. import contracts as K
from ..absint import BOT, TOP, AbsInt, Frame
from ..cfg import CFG
from ..idioms import enum_paths, stmt_of
from ..model import call_name, const_value, is_self_attr, kwarg, short, walk_no_nested
from . import gauss


class Stages(AbsInt):
    """Which sanitisation stages a value has passed, in order: tuple of stage names."""

    def const(self, node, fr):
        return TOP

    def param(self, name, fr):
        return ()

    def join_distinct(self, a, b):
        return TOP

    def method_call(self, meth, node, recv, fr):
        if meth == 'corr' and isinstance(recv, tuple):
            return recv + ('corr',)
        if meth in ('to_numpy', 'copy', 'astype') and isinstance(recv, tuple):
            return recv
        return None

    def attribute(self, node, base, fr):
        return base if node.attr == 'values' and isinstance(base, tuple) else TOP

    def global_name(self, dotted, node, fr):
        return ('const', dotted)

    def external_call(self, name, node, fr):
        if name == 'numpy.nan_to_num' and node.args:
            v = self.value(node.args[0], fr)
            nan = kwarg(node, 'nan', 2)
            zero = nan is None or const_value(nan) in (0, 0.0)
            if isinstance(v, tuple):
                return v + (('nan0',) if zero else ('nan-nonzero',))
            return TOP
        if name == 'numpy.where' and len(node.args) == 3:
            return TOP
        if name == 'pandas.DataFrame':
            d = kwarg(node, 'data', 0)
            return self.value(d, fr) if d is not None else TOP
        if name in ('numpy.identity', 'numpy.eye'):
            return ('identity',)
        if name in ('numpy.array', 'numpy.asarray') and node.args:
            return self.value(node.args[0], fr)
        return TOP

    def project_call_override(self, g, node, fr):
        if g.name == '_transform_to_normal':
            return ('scores',)
        return None

    def binop(self, node, left, right, fr):
        if isinstance(node.op, ast.Mult):
            for a, b in ((left, right), (right, left)):
                if a == ('identity',) and isinstance(b, tuple) and b and b[0] == 'const':
                    return ('ridge-term', b[1])
                if a == ('identity',) and b is TOP:
                    return ('ridge-term', '?')
        if isinstance(node.op, ast.Add):
            for a, b in ((left, right), (right, left)):
                if isinstance(b, tuple) and b and b[0] == 'ridge-term' and isinstance(a, tuple):
                    return a + ('ridge:' + str(b[1]),)
        return TOP


def run(ctx, rep):
    rep.trust(*K.TRUSTED_BASE_COMMON, 'DataFrame.corr() yields NaN for constant columns; np.nan_to_num(nan=0.0) replaces them by 0',
              'norm.ppf(0) = -inf, norm.ppf(1) = +inf')
    rep.notes.append('C02 PARTIAL: decides the sanitisation chain (corr -> NaN to 0 -> ridge when ill-conditioned), that normal '
                     'scores come from clipped CDF values, the labelling of the matrix and the ordering of assignments in fit; '
                     'symmetry, range, positive semi-definiteness and equality with the Pearson coefficient are not decided.')
    prog = ctx.prog
    fn = gauss.gm_method(ctx, '_get_correlation')
    cls = prog.cls(gauss.GM)
    rep.rule('D1.chain', 'on every path the returned matrix is corr() of the normal scores passed through nan_to_num(nan=0)')
    rep.rule('D2.ridge', 'when np.linalg.cond(c) exceeds 1/eps the matrix receives + EPSILON * identity')
    rep.rule('D3.scores', 'normal scores are norm.ppf of CDF values clipped to [EPSILON, 1-EPSILON]')
    rep.rule('D4.labels', 'the matrix is labelled with the training columns in the order of its rows/columns')
    rep.rule('D5.order', 'fit assigns columns and univariates before computing the correlation of the same table')
    st = Stages(ctx)
    ridge_paths = plain_paths = 0
    for path in enum_paths(fn.body()):
        if not isinstance(path.end, ast.Return) or path.end.value is None:
            continue
        fr = Frame(fn, {}, cls, path=path)
        data = path.end.value
        v = st.value(data, fr)
        has_ridge_guard = any(_is_cond_guard(prog, fn, t) and pol for t, pol in path.conds if isinstance(t, ast.expr))
        if not isinstance(v, tuple):
            rep.undecided('D1.chain', fn, path.end, f'stages of the returned matrix not derivable on path {path!r}')
            continue
        stages = list(v)
        ok = 'scores' in stages and 'corr' in stages and 'nan0' in stages \
            and stages.index('scores') < stages.index('corr') < stages.index('nan0')
        rep.check('D1.chain', fn, path.end, ok, f'stages {stages}',
                  f'the returned matrix passes {stages}: the NaN-to-zero step (constant columns) or the corr() of the normal scores is missing',
                  construct=f'return stages ({"ridge" if has_ridge_guard else "plain"} path)')
        ridges = [s for s in stages if isinstance(s, str) and s.startswith('ridge:')]
        if has_ridge_guard:
            ridge_paths += 1
            good = len(ridges) == 1 and (ridges[0] == 'ridge:copulas.utils.EPSILON')
            rep.check('D2.ridge', fn, path.end, good, 'ill-conditioned path adds EPSILON * identity',
                      f'the ill-conditioned path does not add EPSILON * identity (stages {stages})',
                      construct='ridge on the ill-conditioned path')
        else:
            plain_paths += 1
    rep.check('D2.ridge', fn, fn.node.name, ridge_paths >= 1,
              'a path guarded by np.linalg.cond(c) > 1/eps exists', 'no path guarded by the condition-number test: a singular '
              'correlation is never regularised', construct='condition-number guard')
    # guard polarity and threshold
    for n in walk_no_nested(fn.node):
        if isinstance(n, ast.If) and _mentions_cond(prog, fn, n.test):
            rep.check('D2.ridge', fn, n.test, _is_cond_guard(prog, fn, n.test),
                      'ridge taken when cond(c) is LARGE (> 1/machine epsilon)',
                      'the condition-number test has the wrong direction or threshold', construct='cond guard')
    gauss.report_space(ctx, rep, 'D3.scores', ['_transform_to_normal', '_get_correlation'])
    sk, facts = gauss.space_analysis(ctx)
    tn = gauss.gm_method(ctx, '_transform_to_normal')
    ppf = [c for c in walk_no_nested(tn.node) if isinstance(c, ast.Call) and prog.resolve(tn.module, c.func) in (
        'scipy.stats.norm.ppf', 'scipy.special.ndtri')]
    rep.floor('D3.scores', 'norm.ppf calls in the transform', len(ppf), 1)
    for c in ppf:
        ks = {repr(a[0]) for _p, _c, a, _k in facts.get(('_transform_to_normal', id(c)), []) if a}
        if ks == {"'P0'"}:
            rep.ok('D3.scores', tn, c, 'argument kind P0 = clip(univariate.cdf(column), EPSILON, 1 - EPSILON)')
        elif not ks & {"'P'"}:
            rep.undecided('D3.scores', tn, c, f'kind of the argument: {ks}')
    gauss.report_order(ctx, rep, 'D4.labels', ['_get_correlation'], floor=2)
    # D5: dominance in fit
    fit = gauss.gm_method(ctx, 'fit')
    cfg = CFG(fit.node)
    dom = cfg.dominators()
    calls = [c for c in walk_no_nested(fit.node) if isinstance(c, ast.Call) and call_name(c) == '_get_correlation']
    for c in calls:
        cn = cfg.node_containing(c)
        for attr in ('columns', 'univariates'):
            stores = [n for n in walk_no_nested(fit.node) if isinstance(n, ast.Assign) and any(
                is_self_attr(t, fit.self_name, attr) for t in n.targets)]
            good = any(cfg.node_of(s) is not None and cfg.node_of(s).id in dom.get(cn.id, ()) for s in stores)
            rep.check('D5.order', fit, c, good, f'self.{attr} is assigned before the correlation is computed',
                      f'_get_correlation reads self.{attr} (through _transform_to_normal) before fit assigns it: it uses the '
                      'state of a previous fit or None', construct=f'self.{attr} dominates _get_correlation')
        fc = [x for x in walk_no_nested(fit.node) if isinstance(x, ast.Call) and call_name(x) == '_fit_columns']
        same = bool(fc) and fc[0].args and c.args and ast.dump(fc[0].args[0]) == ast.dump(c.args[0])
        rep.check('D5.order', fit, c, same, 'the correlation is computed on the table the marginals were fitted on',
                  'the correlation is computed on a different table than the marginals', construct='same table')
    rep.floor('D5.order', '_get_correlation calls in fit', len(calls), 1)


def _mentions_cond(prog, fn, test):
    return any(isinstance(x, ast.Call) and prog.resolve(fn.module, x.func) == 'numpy.linalg.cond' for x in ast.walk(test))


def _is_cond_guard(prog, fn, test):
    """np.linalg.cond(x) > BIG  (or BIG < cond(x)) with BIG = 1/eps or a literal >= 1e8."""
    if not isinstance(test, ast.Compare) or len(test.ops) != 1:
        return False
    l, r, op = test.left, test.comparators[0], test.ops[0]
    if isinstance(op, (ast.Lt, ast.LtE)):
        l, r = r, l
    elif not isinstance(op, (ast.Gt, ast.GtE)):
        return False
    if not (isinstance(l, ast.Call) and prog.resolve(fn.module, l.func) == 'numpy.linalg.cond'):
        return False
    v = const_value(r)
    if isinstance(v, (int, float)):
        return v >= 1e8
    if isinstance(r, ast.BinOp) and isinstance(r.op, ast.Div) and const_value(r.left) in (1, 1.0):
        d = prog.resolve(fn.module, r.right) or ''
        dv = const_value(r.right)
        return d.endswith('epsilon') or d.endswith('.eps') or d == 'copulas.utils.EPSILON' or (
            isinstance(dv, float) and 0 < dv <= 1e-8)
    return False
