"""C11 - select_copula returns a calibrated candidate (PARTIAL)."""

import ast

from .. import contracts as K
from ..absint import BOT, TOP, AbsInt, Frame, Tup
from ..cfg import CFG
from ..idioms import stmt_of
from ..model import call_name, const_value, is_self_attr, kwarg, short, walk_no_nested
from .c15 import get_rng

SEL = 'copulas.bivariate.select_copula'


class ScoreKind(AbsInt):
    """Tracks (list identity, polarity) of per-candidate score sequences.
    value: ('seq', listtag, pol) pol in 'L' (lower is better), 'H' (higher is better), '?';
           ('idx', listtag, how) an index selected by argmax/argmin; ('cands', tag) the candidate list."""

    def __init__(self, ctx):
        super().__init__(ctx)
        self.problems = []
        self.facts = []

    def const(self, node, fr):
        return 'k'

    def param(self, name, fr):
        return fr.params.get(name, TOP)

    def join_distinct(self, a, b):
        return TOP

    def name(self, node, fr):
        v = super().name(node, fr)
        binds = fr.bindings.get(node.id, [])
        if len(binds) == 1 and binds[0].kind == 'assign' and isinstance(binds[0].value, ast.List):
            apps = [n for n in walk_no_nested(fr.fn.node) if isinstance(n, ast.Call) and isinstance(n.func, ast.Attribute)
                    and isinstance(n.func.value, ast.Name) and n.func.value.id == node.id]
            if all(a.func.attr == 'append' for a in apps):
                return ('cands', f'{fr.fn.name}.{node.id}')
        return v

    def comprehension(self, node, fr):
        if isinstance(node, ast.ListComp) and len(node.generators) == 1 and not node.generators[0].ifs:
            it = node.generators[0].iter
            if isinstance(it, ast.Call) and call_name(it) == 'zip':
                tags = [self.value(a, fr) for a in it.args]
                base = tags[0]
                for t in tags[1:]:
                    if self._tag(t) != self._tag(base):
                        self.problems.append((node, fr.fn, 'zip of sequences that are not co-ordered per candidate'))
                src = base
            else:
                src = self.value(it, fr)
            tag = self._tag(src)
            if tag is None:
                return TOP
            pol = '?'
            e = node.elt
            # np.sum((a - b) ** 2) / np.abs(a - b).sum(): a distance, lower is better
            if isinstance(e, ast.Call) and call_name(e) in ('sum', 'mean', 'norm'):
                inner = e.args[0] if e.args else (e.func.value if isinstance(e.func, ast.Attribute) else None)
                if inner is not None and any(isinstance(x, ast.BinOp) and isinstance(x.op, ast.Sub) for x in ast.walk(inner)):
                    if any((isinstance(x, ast.BinOp) and isinstance(x.op, ast.Pow) and const_value(x.right) == 2)
                           or (isinstance(x, ast.Call) and call_name(x) in ('abs', 'square', 'absolute')) for x in ast.walk(inner)):
                        pol = 'L'
            return ('seq', tag, pol)
        return TOP

    @staticmethod
    def _tag(v):
        if isinstance(v, tuple) and v and v[0] in ('seq', 'cands'):
            return v[1]
        return None

    def external_call(self, name, node, fr):
        a = node.args
        if name == 'pandas.Series' and a:
            return self.value(a[0], fr)
        if name in ('numpy.array', 'numpy.asarray') and a:
            return self.value(a[0], fr)
        if name in ('numpy.argsort', 'numpy.lexsort') and a:
            v = self.value(a[0], fr)
            if isinstance(v, tuple) and v[0] == 'seq':
                # argsort is the sorting permutation, not the rank of each candidate: entry i says which candidate is i-th
                return ('perm', v[1], node, v[2])
            if isinstance(v, tuple) and v[0] == 'perm':
                return ('seq', v[1], v[3])  # argsort of argsort: the (ascending) rank of each candidate
            return TOP
        if name in ('numpy.argmax', 'numpy.argmin') and a:
            v = self.value(a[0], fr)
            if isinstance(v, tuple) and v[0] == 'seq':
                want = 'H' if name.endswith('argmax') else 'L'
                self.facts.append((node, fr.fn, f'{name.split(".")[-1]} over a sequence whose polarity is {v[2]}'))
                if v[2] in ('L', 'H') and v[2] != want:
                    self.problems.append((node, fr.fn, f'{name.split(".")[-1]} selects the WORST candidate: the scores are '
                                          f'{"lower" if v[2] == "L" else "higher"}-is-better'))
                return ('idx', v[1], v[2])
            return TOP
        return TOP

    def method_call(self, meth, node, recv, fr):
        if isinstance(recv, tuple) and recv and recv[0] == 'seq':
            if meth == 'rank':
                asc = kwarg(node, 'ascending')
                ascending = True if asc is None else const_value(asc)
                pol = recv[2]
                if ascending is False and pol in ('L', 'H'):
                    pol = 'H' if pol == 'L' else 'L'
                elif ascending not in (True, False):
                    pol = '?'
                return ('seq', recv[1], pol)
            if meth in ('to_numpy', 'copy', 'astype', 'tolist', 'reset_index'):
                return recv
            if meth in ('argmax', 'idxmax', 'argmin', 'idxmin'):
                want = 'H' if 'max' in meth else 'L'
                if recv[2] in ('L', 'H') and recv[2] != want:
                    self.problems.append((node, fr.fn, f'{meth} selects the WORST candidate'))
                return ('idx', recv[1], recv[2])
        return None

    def attribute(self, node, base, fr):
        return base if node.attr == 'values' else TOP

    def binop(self, node, l, r, fr):
        for x in (l, r):
            if isinstance(x, tuple) and x and x[0] == 'perm':
                # a sorting permutation combined arithmetically as if it were a per-candidate score
                if not any(p[0] is x[2] for p in self.problems):
                    self.problems.append((x[2], fr.fn, 'np.argsort gives the order in which the candidates sort, not the rank of each candidate: used as a '
                                          'per-candidate score it attributes the scores to the wrong candidates whenever the ordering is not its own inverse'))
                return ('seq', x[1], '?')
        if isinstance(l, tuple) and isinstance(r, tuple) and l[0] == r[0] == 'seq':
            if l[1] != r[1]:
                self.problems.append((node, fr.fn, 'scores of different candidate lists are combined'))
            if isinstance(node.op, ast.Add):
                pol = l[2] if l[2] == r[2] else '?'
                if l[2] != r[2] and '?' not in (l[2], r[2]):
                    self.problems.append((node, fr.fn, 'scores of opposite polarity are added'))
                return ('seq', l[1], pol)
            return ('seq', l[1], '?')
        if isinstance(l, tuple) and l[0] == 'seq' and r == 'k':
            return l
        if isinstance(r, tuple) and r[0] == 'seq' and l == 'k':
            if isinstance(node.op, ast.Sub):
                return ('seq', r[1], {'L': 'H', 'H': 'L'}.get(r[2], '?'))  # const - score reverses the order
            return r
        return TOP

    def unaryop(self, node, v, fr):
        if isinstance(v, tuple) and v[0] == 'seq' and isinstance(node.op, ast.USub):
            return ('seq', v[1], {'L': 'H', 'H': 'L'}.get(v[2], '?'))
        return v

    def subscript(self, node, base, fr):
        if isinstance(base, tuple) and base and base[0] == 'cands':
            i = self.value(node.slice, fr)
            if isinstance(i, tuple) and i[0] == 'idx':
                if i[1] != base[1]:
                    self.problems.append((node, fr.fn, 'the selected index was computed over a different list than the one it selects from'))
                self.facts.append((node, fr.fn, f'index over {i[1]} selects from {base[1]}'))
                return ('selected', base[1])
            return TOP
        i = self.value(node.slice, fr)
        if isinstance(i, tuple) and i and i[0] == 'idx':
            self.problems.append((node, fr.fn, f'the index computed over {i[1]} selects from a different sequence ({short(node.value, 40)})'))
        return TOP

    def project_call_override(self, g, node, fr):
        if g is self.roles.get('candidates') and node.args:
            v = self.value(node.args[0], fr)
            tag = self._tag(v)
            if tag is not None:
                # structural check of the helper: one append to each result list per candidate, in order
                return Tup([('seq', tag, '?'), ('seq', tag, '?')])
        return None

    def unpack(self, val, index, total, node, fr):
        if isinstance(val, Tup) and len(val.elems) == total:
            return val.elems[index]
        return TOP


def get_binding(ctx, caller, call, callee):
    from .c20 import get_alias
    return get_alias(ctx).bind(caller, call, callee)


def helper_roles(ctx, fn):
    """{'candidates': FuncInfo | None, 'empirical': FuncInfo | None}: the two module-level helpers of select_copula, found by
    what select_copula does with them (the one that receives the candidate list and returns a pair of curve lists; the one
    that receives X and returns four arrays), not by their private names."""
    if 'c11.roles' in ctx.memo:
        return ctx.memo['c11.roles']
    prog = ctx.prog
    roles = {'candidates': None, 'empirical': None}
    xp = fn.params[0] if fn.params else None
    for s_ in walk_no_nested(fn.node):
        if isinstance(s_, ast.Assign) and isinstance(s_.value, ast.Call) and isinstance(s_.targets[0], (ast.Tuple, ast.List)):
            g = prog.functions.get(prog.resolve(fn.module, s_.value.func) or '')
            if g is None or g.cls is not None:
                continue
            n = len(s_.targets[0].elts)
            a = s_.value.args
            if n == 4 and a and isinstance(a[0], ast.Name) and a[0].id == xp:
                roles['empirical'] = g
            elif n == 2 and len(a) >= 2:
                roles['candidates'] = g
    ctx.memo['c11.roles'] = roles
    return roles


class SideKind(AbsInt):
    """Which tail (left / right / a concatenation layout) a curve belongs to."""

    def __init__(self, ctx):
        super().__init__(ctx)
        self.problems = []
        self.checked = 0

    def const(self, node, fr):
        return 'k'

    def join_distinct(self, a, b):
        return TOP

    def project_call_override(self, g, node, fr):
        if g is self.roles.get('empirical'):
            return Tup([('g', 'left'), ('c', 'left'), ('g', 'right'), ('c', 'right')])
        if g is self.roles.get('candidates'):
            return Tup([('clist', 'left'), ('clist', 'right')])
        return None

    def unpack(self, val, index, total, node, fr):
        if isinstance(val, Tup) and len(val.elems) == total:
            return val.elems[index]
        return TOP

    def iter_elem(self, val, node, fr):
        if isinstance(val, Tup) and val.kind == 'zip':
            return Tup([self.iter_elem(e, node, fr) for e in val.elems])
        if isinstance(val, tuple) and val and val[0] == 'clist':
            return ('c', val[1])
        return TOP

    def sequence(self, node, vals, fr):
        return Tup(vals)

    def external_call(self, name, node, fr):
        a = node.args
        if name in ('numpy.concatenate', 'numpy.hstack', 'numpy.append') and a:
            v = self.value(a[0], fr) if name != 'numpy.append' else Tup([self.value(x, fr) for x in a[:2]])
            if isinstance(v, Tup) and all(isinstance(e, tuple) and e and e[0] == 'c' for e in v.elems):
                return ('c', ('cat',) + tuple(e[1] for e in v.elems))
            return TOP
        if name in ('numpy.sum', 'numpy.abs', 'numpy.square', 'numpy.power', 'numpy.asarray', 'numpy.array', 'numpy.mean', 'numpy.sqrt') and a:
            return self.value(a[0], fr)
        return TOP

    def binop(self, node, l, r, fr):
        if isinstance(l, tuple) and isinstance(r, tuple) and l and r and l[0] == r[0] == 'c':
            self.checked += 1
            if l[1] != r[1]:
                self.problems.append((node, fr.fn, f'a curve laid out as {l[1]} is compared element by element with one laid out as {r[1]}'))
            return l
        for x in (l, r):
            if isinstance(x, tuple) and x and x[0] == 'c':
                return x
        return TOP

    def comprehension(self, node, fr):
        if isinstance(node, ast.ListComp):
            v = self.value(node.elt, fr)
            return ('clist', v[1]) if isinstance(v, tuple) and v and v[0] == 'c' else TOP
        return TOP


def run(ctx, rep):
    prog = ctx.prog
    rep.trust(*K.TRUSTED_BASE_COMMON, 'Series.rank(ascending=False) gives the largest rank to the smallest value; np.argmax returns the position of the maximum')
    rep.notes.append('C11 PARTIAL: decides the typestate of every candidate (fitted Frank, or a fresh Clayton/Gumbel calibrated from '
                     'the shared tau inside a ValueError envelope), the early return for non-positive tau, index agreement and '
                     'polarity of the scoring pipeline, determinism of the closure and the deprecated forwarder. Recovery of '
                     'the generating family is statistical and not decided.')
    for rid, text in (('D1.state', 'every candidate is Frank fitted on X, or a fresh Clayton/Gumbel with tau := frank.tau then _compute_theta() inside try/except ValueError'),
                      ('D2.early', '`if frank.tau <= 0: return frank` is evaluated before any other candidate is built'),
                      ('D3.index', 'candidates, tail curves, distances and scores are co-ordered; the arg-extremum indexes the candidate list'),
                      ('D4.polarity', 'distance (lower is better) -> rank(ascending=False) -> sum -> argmax'),
                      ('D5.determ', 'no random / clock source is reachable from select_copula'),
                      ('D6.forward', 'the deprecated Bivariate.select_copula forwards X unchanged to select_copula')):
        rep.rule(rid, text)
    fn = prog.func(SEL)
    xp = fn.params[0]
    # frank
    fr_assign = [s for s in walk_no_nested(fn.node) if isinstance(s, ast.Assign) and isinstance(s.value, ast.Call)
                 and prog.resolve(fn.module, s.value.func) == 'copulas.bivariate.frank.Frank' and isinstance(s.targets[0], ast.Name)]
    if not fr_assign:
        rep.undecided('D1.state', fn, fn.node.name, 'Frank candidate not found', construct='frank')
        return
    fv = fr_assign[0].targets[0].id
    fits = [c for c in walk_no_nested(fn.node) if isinstance(c, ast.Call) and isinstance(c.func, ast.Attribute) and c.func.attr == 'fit'
            and isinstance(c.func.value, ast.Name) and c.func.value.id == fv and c.args and isinstance(c.args[0], ast.Name) and c.args[0].id == xp]
    cfg = CFG(fn.node)
    dom = cfg.dominators()
    rep.check('D1.state', fn, fits[0] if fits else fr_assign[0], bool(fits), f'{fv} = Frank(); {fv}.fit(X)', 'the Frank candidate is not fitted on X',
              construct='frank fitted on X')
    if fits:
        from ..idioms import row_subsets_reaching
        for st, tn, bn, how in row_subsets_reaching(fn.node, {xp}, before=fits[0]):
            if tn == xp:
                rep.bad('D1.state', fn, st, f'{tn} is re-bound to {how} of {bn} before the Frank candidate is fitted: tau, theta and the comparison come from a subset of the sample',
                        construct='frank fitted on all rows of X')
    # early return
    early = None
    for n in walk_no_nested(fn.node):
        if isinstance(n, ast.If) and isinstance(n.test, ast.Compare) and len(n.test.ops) == 1 \
                and isinstance(n.test.left, ast.Attribute) and n.test.left.attr == 'tau' and isinstance(n.test.left.value, ast.Name) \
                and n.test.left.value.id == fv and const_value(n.test.comparators[0]) == 0:
            early = n
    if early is None:
        rep.bad('D2.early', fn, fn.node.name, 'no early return for non-positive tau', construct='tau <= 0 guard')
    else:
        op = early.test.ops[0]
        rets = [s for s in early.body if isinstance(s, ast.Return)]
        rep.check('D2.early', fn, early.test, isinstance(op, ast.LtE), 'tau <= 0 returns Frank',
                  'the guard is not `tau <= 0`: tau == 0 (or negative tau) reaches candidates that cannot be calibrated / scored',
                  construct='tau <= 0 guard')
        rep.check('D2.early', fn, rets[0] if rets else early, bool(rets) and isinstance(rets[0].value, ast.Name) and rets[0].value.id == fv,
                  'returns the fitted Frank', 'the early return does not return the fitted Frank', construct='early return value')
        loops = [n for n in walk_no_nested(fn.node) if isinstance(n, ast.For)]
        en = cfg.node_of(early)
        ok = bool(fits) and cfg.node_containing(fits[0]).id in dom.get(en.id, ()) and all(
            en.id in dom.get(cfg.node_of(lp).id, ()) for lp in loops if cfg.node_of(lp) is not None)
        rep.check('D2.early', fn, early, ok, 'the guard follows frank.fit and dominates candidate construction',
                  'candidates are constructed before the tau <= 0 guard', construct='guard position')
    # candidate typestate
    cand_lists = [s for s in walk_no_nested(fn.node) if isinstance(s, ast.Assign) and isinstance(s.value, ast.List)
                  and len(s.value.elts) == 1 and isinstance(s.value.elts[0], ast.Name) and s.value.elts[0].id == fv]
    if not cand_lists:
        rep.undecided('D1.state', fn, fn.node.name, 'candidate list not recognised', construct='candidate list')
        return
    cl = cand_lists[0].targets[0].id
    apps = [c for c in walk_no_nested(fn.node) if isinstance(c, ast.Call) and isinstance(c.func, ast.Attribute) and c.func.attr == 'append'
            and isinstance(c.func.value, ast.Name) and c.func.value.id == cl]
    grown = [c for c in walk_no_nested(fn.node) if (isinstance(c, ast.Call) and isinstance(c.func, ast.Attribute) and c.func.attr in ('extend', 'insert') and isinstance(c.func.value, ast.Name)
                                                      and c.func.value.id == cl) or (isinstance(c, ast.AugAssign) and isinstance(c.target, ast.Name) and c.target.id == cl)
             or (isinstance(c, ast.Assign) and any(isinstance(t, ast.Name) and t.id == cl for t in c.targets) and c is not cand_lists[0])]
    if not apps and grown:
        rep.undecided('D1.state', fn, grown[0], f'the candidate list is grown by `{short(grown[0], 60)}`: how the other families are created and calibrated is not derived', construct='candidate families')
        return
    if not apps:
        rep.bad('D1.state', fn, cand_lists[0], 'no candidate besides the fitted Frank is ever appended: Clayton and Gumbel are never offered', construct='candidate families')
    constructed = set()
    helper_made = False
    for a in apps:
        st = stmt_of(a)
        cv = a.args[0].id if a.args and isinstance(a.args[0], ast.Name) else None
        tr = st._parent
        if not (isinstance(tr, ast.Try) and st in tr.body):
            # a candidate produced by a project helper (which may hold the try itself) is not followed here
            defs_cv = [x.value for x in walk_no_nested(fn.node) if isinstance(x, ast.Assign) and any(isinstance(t, ast.Name) and t.id == cv for t in x.targets)] if cv else []
            if defs_cv and all(isinstance(d, ast.Call) and (prog.resolve(fn.module, d.func) or '') in prog.functions for d in defs_cv):
                rep.undecided('D1.state', fn, a, f'the appended candidate comes from `{short(defs_cv[0], 50)}`: how it is created and calibrated there is not derived', construct='append in try')
                helper_made = True
                continue
            rep.bad('D1.state', fn, a, 'a candidate is appended outside the try that skips refused calibrations', construct='append in try')
            continue
        body = tr.body
        idx = body.index(st)
        pre = body[:idx]
        made = [s for s in pre if isinstance(s, ast.Assign) and isinstance(s.targets[0], ast.Name) and s.targets[0].id == cv
                and isinstance(s.value, ast.Call)]
        fresh = False
        if made:
            f = made[0].value.func
            if isinstance(f, ast.Name):
                # loop variable ranging over [Clayton, Gumbel]
                lp = tr._parent
                if isinstance(lp, ast.For) and isinstance(lp.target, ast.Name) and lp.target.id == f.id \
                        and isinstance(lp.iter, (ast.List, ast.Tuple)):
                    cl_names = [prog.resolve(fn.module, e) for e in lp.iter.elts]
                    fresh = set(cl_names) == {'copulas.bivariate.clayton.Clayton', 'copulas.bivariate.gumbel.Gumbel'}
                else:
                    fresh = prog.resolve(fn.module, f) in prog.classes
        if made and not fresh:
            q = prog.resolve(fn.module, made[0].value.func)
            fresh = q in prog.classes
            constructed.add(q)
        elif made and isinstance(made[0].value.func, ast.Name):
            q = prog.resolve(fn.module, made[0].value.func)
            if q in prog.classes:
                constructed.add(q)
            else:
                constructed.update({'copulas.bivariate.clayton.Clayton', 'copulas.bivariate.gumbel.Gumbel'} if fresh else set())
        rep.check('D1.state', fn, made[0] if made else a, fresh, 'fresh copula instance',
                  'a candidate is not a fresh copula instance', construct='fresh candidates')
        tau_set = [s for s in pre if isinstance(s, ast.Assign) and isinstance(s.targets[0], ast.Attribute) and s.targets[0].attr == 'tau'
                   and isinstance(s.targets[0].value, ast.Name) and s.targets[0].value.id == cv
                   and isinstance(s.value, ast.Attribute) and s.value.attr == 'tau' and isinstance(s.value.value, ast.Name) and s.value.value.id == fv]
        from .c10 import calibrator
        comp = [s for s in pre if isinstance(s, ast.Expr) and isinstance(s.value, ast.Call) and call_name(s.value) == calibrator(ctx).name
                and isinstance(s.value.func.value, ast.Name) and s.value.func.value.id == cv]
        ordered = bool(made and tau_set and comp) and body.index(made[0]) < body.index(tau_set[0]) < body.index(comp[0]) < idx
        rep.check('D1.state', fn, st, ordered, 'tau := frank.tau, then _compute_theta(), then append',
                  'a candidate is appended without tau := frank.tau followed by _compute_theta()', construct='calibrated before append')
        hs = tr.handlers
        okh = len(hs) >= 1 and all(isinstance(h.type, ast.Name) and h.type.id == 'ValueError' for h in hs) and not any(
            isinstance(x, (ast.Raise, ast.Return, ast.Break)) for h in hs for x in ast.walk(h))
        rep.check('D1.state', fn, hs[0] if hs else tr, okh, 'a refused calibration (ValueError) skips the candidate',
                  'the envelope does not skip exactly the refused calibrations (ValueError)', construct='ValueError envelope')
    want_cls = {'copulas.bivariate.clayton.Clayton', 'copulas.bivariate.gumbel.Gumbel'}
    if helper_made and not want_cls <= constructed:
        return
    rep.check('D1.state', fn, cand_lists[0], want_cls <= constructed, 'Clayton and Gumbel are both offered as candidates',
              f'the candidate families besides Frank are {sorted(c.split(".")[-1] for c in constructed)}: Clayton and Gumbel must both be offered',
              construct='candidate families')
    # the returned value is a candidate selected by the scoring pipeline
    sk = ScoreKind(ctx)
    sk.roles = helper_roles(ctx, fn)
    fr = Frame(fn, {})
    rets = [n for n in walk_no_nested(fn.node) if isinstance(n, ast.Return) and n.value is not None and not (
        early is not None and n in early.body)]
    for r in rets:
        v = sk.value(r.value, fr)
        if isinstance(v, tuple) and v[0] == 'selected':
            rep.ok('D3.index', fn, r, f'returns {short(r.value)}: index over the candidate list')
        else:
            rep.undecided('D3.index', fn, r, f'selection not derivable ({v})')
    for node, f, msg in sk.problems:
        rule = 'D4.polarity' if ('WORST' in msg or 'polarity' in msg) else 'D3.index'
        rep.bad(rule, f, node, msg)
    pol_seen = [x for x in sk.facts if 'polarity' in x[2]]
    for node, f, msg in pol_seen:
        if not any(p[0] is node for p in sk.problems):
            if 'polarity is ?' in msg:
                rep.undecided('D4.polarity', f, node, msg)
            else:
                rep.ok('D4.polarity', f, node, msg)
    if not pol_seen:
        rep.undecided('D4.polarity', fn, fn.node.name, 'arg-extremum over scores not recognised', construct='arg-extremum')
    # helper co-ordering
    helper = helper_roles(ctx, fn)['candidates']
    if helper is not None:
        lp = [n for n in walk_no_nested(helper.node) if isinstance(n, ast.For)]
        rets2 = [n for n in walk_no_nested(helper.node) if isinstance(n, ast.Return) and isinstance(n.value, ast.Tuple)]
        ok = None
        if len(lp) == 1 and rets2 and isinstance(lp[0].iter, ast.Name) and lp[0].iter.id == helper.params[0]:
            names = [e.id for e in rets2[0].value.elts if isinstance(e, ast.Name)]
            cnt = {n: 0 for n in names}
            for s in lp[0].body:
                if isinstance(s, ast.Expr) and isinstance(s.value, ast.Call) and call_name(s.value) == 'append' \
                        and isinstance(s.value.func.value, ast.Name) and s.value.func.value.id in cnt:
                    cnt[s.value.func.value.id] += 1
                    # each curve is computed from this iteration's copula
                    def mentions_candidate(e_, depth=0):
                        """the appended value is computed from this iteration's copula, possibly through locals of the loop body"""
                        for x in ast.walk(e_):
                            if isinstance(x, ast.Name) and x.id == lp[0].target.id:
                                return True
                            if isinstance(x, ast.Name) and depth < 3:
                                for a_ in lp[0].body:
                                    if isinstance(a_, ast.Assign) and any(isinstance(t_, ast.Name) and t_.id == x.id for t_ in a_.targets) and mentions_candidate(a_.value, depth + 1):
                                        return True
                        return False
                    if not mentions_candidate(s.value):
                        cnt[s.value.func.value.id] += 100
            ok = bool(names) and all(v == 1 for v in cnt.values()) and not any(isinstance(x, (ast.Continue, ast.Break)) for x in ast.walk(lp[0]))
        # each curve is the candidate's CDF on the diagonal of the grid it is compared on: C(z, z) is evaluated at the z the curve is
        # handed over with (left curve: divided by left_tail ** 2; right curve: _compute_tail(C(z, z), z))
        from ..idioms import single_def as _sd

        def grids_of(e_, depth=0):
            """names of the grids the CDF values in e_ were evaluated on: cdf(column_stack((z, z))) -> {z}; None when not derived"""
            if depth > 12:
                return None
            if isinstance(e_, ast.Name):
                defs = [a_.value for a_ in walk_no_nested(helper.node) if isinstance(a_, ast.Assign) and any(isinstance(t_, ast.Name) and t_.id == e_.id for t_ in a_.targets)]
                if not defs:
                    return None
                out = set()
                for d_ in defs:
                    g_ = grids_of(d_, depth + 1)
                    if g_ is None:
                        return None
                    out |= g_
                return out
            if isinstance(e_, ast.IfExp):
                a_, b_ = grids_of(e_.body, depth + 1), grids_of(e_.orelse, depth + 1)
                return None if a_ is None or b_ is None else a_ | b_
            if isinstance(e_, ast.Call) and call_name(e_) in ('cumulative_distribution', 'cdf') and e_.args:
                return grids_of(e_.args[0], depth + 1)
            if isinstance(e_, ast.Call) and call_name(e_) == 'column_stack' and e_.args and isinstance(e_.args[0], (ast.Tuple, ast.List)):
                names_ = {x.id for x in e_.args[0].elts if isinstance(x, ast.Name)}
                return names_ if len(names_) == 1 and len(e_.args[0].elts) == 2 else None
            return None
        def grid_param(g):
            """the parameter of the tail helper that plays the grid: the one under `(1 - p) ** 2` / `power(1 - p, 2)`; None when not derived"""
            def base_param(e_, depth=0):
                while isinstance(e_, ast.Call) and call_name(e_) in ('asarray', 'array', 'float', 'asfarray', 'ravel') and e_.args:
                    e_ = e_.args[0]
                if isinstance(e_, ast.Name):
                    if e_.id in g.params:
                        return e_.id
                    d_ = _sd(g.node, e_.id)
                    if isinstance(d_, ast.AST) and depth < 4:
                        return base_param(d_, depth + 1)
                return None
            found = set()
            for x in walk_no_nested(g.node):
                sq = None
                if isinstance(x, ast.BinOp) and isinstance(x.op, ast.Pow) and const_value(x.right) == 2:
                    sq = x.left
                elif isinstance(x, ast.Call) and call_name(x) in ('power',) and len(x.args) == 2 and const_value(x.args[1]) == 2:
                    sq = x.args[0]
                elif isinstance(x, ast.Call) and call_name(x) == 'square' and x.args:
                    sq = x.args[0]
                if isinstance(sq, ast.BinOp) and isinstance(sq.op, ast.Sub) and const_value(sq.left) in (1, 1.0):
                    bp = base_param(sq.right)
                    if bp:
                        found.add(bp)
            return found.pop() if len(found) == 1 else None
        for c_ in walk_no_nested(helper.node):
            g_fn = prog.functions.get(prog.resolve(helper.module, c_.func) or '') if isinstance(c_, ast.Call) else None
            if g_fn is not None and g_fn.cls is None and len(g_fn.params) == 2 and len(c_.args) + len(c_.keywords) == 2:
                gp = grid_param(g_fn)
                if gp is None:
                    continue
                bound = get_binding(ctx, helper, c_, g_fn)
                cp = [q_ for q_ in g_fn.params if q_ != gp][0]
                if not bound.get(gp) or not bound.get(cp):
                    continue
                grid_arg, curve_arg = bound[gp][0], bound[cp][0]
                if not (isinstance(grid_arg, ast.Name) and grid_arg.id in helper.params):
                    if isinstance(curve_arg, ast.Name) and curve_arg.id in helper.params and grids_of(grid_arg) is not None:
                        rep.bad('D3.index', helper, c_, f'`{short(c_, 70)}`: the CDF values are bound to `{gp}`, which `{g_fn.node.name}` uses as the grid, and the grid '
                                f'`{curve_arg.id}` to `{cp}`, which it uses as C(z, z): the upper-tail function is evaluated with its arguments exchanged',
                                construct='curve and grid agree')
                    continue
                g_ = grids_of(curve_arg)
                z_ = grid_arg.id
                if g_ is None:
                    continue
                if g_ != {z_}:
                    rep.bad('D3.index', helper, c_, f'`{short(c_, 70)}`: the curve handed over with the grid `{z_}` holds CDF values evaluated on the diagonal of '
                            f'{sorted(g_)} (on some path): the tail function is computed from values of another grid', construct='curve and grid agree')
                else:
                    rep.ok('D3.index', helper, c_, f'C(z, z) and z = {z_} agree', construct='curve and grid agree')
        # the same check when the upper-tail formula stands in the helper itself: `(1 - 2 * G + C) / (1 - G) ** 2` with G a grid parameter
        for x in walk_no_nested(helper.node):
            den = x.right if isinstance(x, ast.BinOp) and isinstance(x.op, ast.Div) else None
            sq = None
            if isinstance(den, ast.BinOp) and isinstance(den.op, ast.Pow) and const_value(den.right) == 2:
                sq = den.left
            elif isinstance(den, ast.Call) and call_name(den) == 'power' and len(den.args) == 2 and const_value(den.args[1]) == 2:
                sq = den.args[0]
            elif isinstance(den, ast.Call) and call_name(den) == 'square' and den.args:
                sq = den.args[0]
            if not (isinstance(sq, ast.BinOp) and isinstance(sq.op, ast.Sub) and const_value(sq.left) in (1, 1.0)):
                continue
            g_e = sq.right
            while isinstance(g_e, ast.Call) and call_name(g_e) in ('asarray', 'array') and g_e.args:
                g_e = g_e.args[0]
            if not (isinstance(g_e, ast.Name) and g_e.id in helper.params):
                continue
            curves = [n_ for n_ in ast.walk(x.left) if isinstance(n_, ast.Name) and n_.id != g_e.id and n_.id not in helper.params]
            for cn in curves:
                g_ = grids_of(cn)
                if g_ is None:
                    continue
                if g_ != {g_e.id}:
                    rep.bad('D3.index', helper, x, f'`{short(x, 70)}`: the upper-tail function on the grid `{g_e.id}` uses CDF values evaluated on the diagonal of {sorted(g_)} '
                            '(on some path): the tail function is computed from values of another grid', construct='curve and grid agree')
                else:
                    rep.ok('D3.index', helper, x, f'C(z, z) and z = {g_e.id} agree', construct='curve and grid agree')
        if ok is None:
            rep.undecided('D3.index', helper, helper.node.name, 'how the tail curves of the candidates are produced was not recognised', construct='co-ordered curves')
        else:
            rep.check('D3.index', helper, helper.node.name, ok, 'one curve per candidate per list, in candidate order',
                      'the tail curves are not produced one per candidate in candidate order', construct='co-ordered curves')
    # tail layout of the compared curves
    sd = SideKind(ctx)
    sd.roles = helper_roles(ctx, fn)
    sfr = Frame(fn, {})
    for st_ in walk_no_nested(fn.node):
        if isinstance(st_, ast.Assign):
            sd.value(st_.value, sfr)
    for node, f, msg in sd.problems:
        rep.bad('D3.index', f, node, msg + ': the combined score compares the lower tail of one with the upper tail of the other')
    if sd.checked:
        if not sd.problems:
            rep.ok('D3.index', fn, fn.node.name, f'{sd.checked} curve differences compare curves of the same tail layout', construct='tail layout of differences')
    else:
        rep.undecided('D3.index', fn, fn.node.name, 'no curve difference recognised', construct='tail layout of differences')
    ce = helper_roles(ctx, fn)['empirical']
    if ce is not None:
        rets_ = [n for n in walk_no_nested(ce.node) if isinstance(n, ast.Return) and isinstance(n.value, ast.Tuple)]
        names_ = [getattr(e, 'id', '') for e in rets_[0].value.elts] if rets_ else []

        split = None
        for a0 in walk_no_nested(ce.node):
            if isinstance(a0, ast.Assign) and isinstance(a0.value, ast.Call) and call_name(a0.value) == 'split_matrix' and isinstance(a0.targets[0], (ast.Tuple, ast.List)):
                split = [e_.id for e_ in a0.targets[0].elts if isinstance(e_, ast.Name)]

        def tail_of(listname):
            """'left' (lower tail: built from `<=` comparisons of the data with the grid) / 'right' (`>=`) / '?', from what is
            appended to the list and under which guard - not from its name."""
            found = set()
            for c_ in walk_no_nested(ce.node):
                if not (isinstance(c_, ast.Call) and call_name(c_) in ('append', 'extend') and isinstance(c_.func, ast.Attribute)
                        and isinstance(c_.func.value, ast.Name) and c_.func.value.id == listname):
                    continue
                exprs = list(c_.args)
                p_ = c_
                while p_ is not None and p_ is not ce.node:
                    p_ = getattr(p_, '_parent', None)
                    if isinstance(p_, ast.If):
                        exprs.append(p_.test)
                seen, todo = set(), [x.id for e_ in exprs for x in ast.walk(e_) if isinstance(x, ast.Name)]
                while todo:
                    nm_ = todo.pop()
                    if nm_ in seen or nm_ == listname:
                        continue
                    seen.add(nm_)
                    for a_ in walk_no_nested(ce.node):
                        if isinstance(a_, ast.Assign) and any(isinstance(t_, ast.Name) and t_.id == nm_ for t_ in a_.targets):
                            # oriented: the data column on the left of the comparison (`base[k] >= U` is `U <= base[k]`)
                            data_names = set(split) if split else set()
                            ops = set()
                            for x in ast.walk(a_.value):
                                if isinstance(x, ast.Compare) and len(x.ops) == 1:
                                    o_ = type(x.ops[0])
                                    right_is_data = any(isinstance(y, ast.Name) and y.id in data_names for y in ast.walk(x.comparators[0]))
                                    left_is_data = any(isinstance(y, ast.Name) and y.id in data_names for y in ast.walk(x.left))
                                    if right_is_data and not left_is_data:
                                        o_ = {ast.Lt: ast.Gt, ast.Gt: ast.Lt, ast.LtE: ast.GtE, ast.GtE: ast.LtE}.get(o_, o_)
                                    ops.add(o_)
                                elif isinstance(x, ast.Compare):
                                    ops.update(type(o_) for o_ in x.ops)
                            if ops and ops <= {ast.LtE, ast.Lt}:
                                found.add('left')
                            elif ops and ops <= {ast.GtE, ast.Gt}:
                                found.add('right')
                            elif not ops:
                                todo.extend(x.id for x in ast.walk(a_.value) if isinstance(x, ast.Name))
            return found.pop() if len(found) == 1 else '?'
        sides = [tail_of(n_) if n_ else '?' for n_ in names_]
        if sides == ['left', 'left', 'right', 'right']:
            rep.ok('D3.index', ce, rets_[0], 'returns (left grid, left curve, right grid, right curve)', construct='empirical tail order')
        elif len(sides) == 4 and '?' not in sides:
            rep.bad('D3.index', ce, rets_[0], f'the empirical tails are returned as {names_}', construct='empirical tail order')
        else:
            rep.undecided('D3.index', ce, rets_[0] if rets_ else ce.node.name, 'which tail each returned array belongs to cannot be told from the code', construct='empirical tail order')
    # D5 determinism
    rng = get_rng(ctx)
    clo = ctx.cg.closure([fn])
    sites = [(q, s) for q in clo for s in rng.sites.get(q, ()) if not clo[q].name.startswith('sample') and clo[q].name not in ('_sample_row',)]
    # by-name resolution pulls in unrelated `fit` methods; keep the bivariate package only
    sites = [(q, s) for q, s in sites if clo[q].module.name.startswith('copulas.bivariate')]
    if sites:
        for q, s in sites:
            rep.bad('D5.determ', clo[q], s.call, f'{s.what}: the selected family is not a function of X alone')
    else:
        rep.ok('D5.determ', fn, fn.node.name, f'{len([q for q in clo if clo[q].module.name.startswith("copulas.bivariate")])} functions of the bivariate package reachable, no entropy source',
               construct='closure of select_copula')
    # D6
    dep = prog.method('copulas.bivariate.base.Bivariate', 'select_copula', inherited=False)
    rets3 = [n for n in walk_no_nested(dep.node) if isinstance(n, ast.Return)]
    ok = len(rets3) == 1 and isinstance(rets3[0].value, ast.Call) and prog.resolve(dep.module, rets3[0].value.func) == SEL \
        and len(rets3[0].value.args) == 1 and isinstance(rets3[0].value.args[0], ast.Name) and rets3[0].value.args[0].id == dep.params[1]
    rep.check('D6.forward', dep, rets3[0] if rets3 else dep.node.name, ok, 'return select_copula(X)',
              'the deprecated entry point does not forward X unchanged')
