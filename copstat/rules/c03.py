"""C03 - every fitted univariate obeys the laws of a distribution function (PARTIAL: delegation, keys, degenerate state, KDE quantile wiring)."""

import ast

from .. import contracts as K
from ..idioms import single_def
from ..model import AnalysisError, call_name, const_value, is_self_attr, kwarg, short, walk_no_nested

SCIPY = 'copulas.univariate.base.ScipyModel'
UNI = 'copulas.univariate.base.Univariate'
KDE = 'copulas.univariate.gaussian_kde.GaussianKDE'
DELEGATION = {'probability_density': 'pdf', 'log_probability_density': 'logpdf', 'cumulative_distribution': 'cdf',
              'percent_point': 'ppf', 'sample': 'rvs'}
KDE_DELEGATION = {'probability_density': 'evaluate', 'log_probability_density': 'logpdf', 'sample': 'resample'}
ALIASES = {'pdf': 'probability_density', 'cdf': 'cumulative_distribution', 'ppf': 'percent_point'}


def model_class_calls(fn):
    """[(call, scipy function name)] for self.MODEL_CLASS.<f>(...)."""
    out = []
    for c in walk_no_nested(fn.node):
        if isinstance(c, ast.Call) and isinstance(c.func, ast.Attribute) and is_self_attr(c.func.value, fn.self_name, 'MODEL_CLASS'):
            out.append((c, c.func.attr))
    return out


def dyn_delegations(fn, attr, env=None, depth=0, concrete=None):
    """Calls `<self>.<attr>.<name>(...)` reached from fn, including the reflective form
    `getattr(<self>.<attr>, <param>)(...)` inside private helpers of the class when the name arrives as a string constant:
    [(call node, function name or None when the name is not a constant, function in which the call is written)].
    `<self>.<attr>` may also be reached through a local alias or a zero-argument private accessor returning it."""
    env = env or {}
    out = []
    sn = fn.self_name
    cls = concrete or fn.cls

    def is_base(e):
        if is_self_attr(e, sn, attr):
            return True
        if isinstance(e, ast.Name):
            d = single_def(fn.node, e.id)
            return isinstance(d, ast.AST) and is_base(d)
        if isinstance(e, ast.Call) and is_self_attr(e.func, sn) and not e.args and not e.keywords and cls is not None:
            g = cls.lookup(e.func.attr)
            if g is not None and g.name.startswith('_'):
                rets = [r for r in walk_no_nested(g.node) if isinstance(r, ast.Return) and r.value is not None]
                return bool(rets) and all(is_self_attr(r.value, g.self_name, attr) for r in rets)
        return False

    def const_of(e):
        if isinstance(e, ast.Constant) and isinstance(e.value, str):
            return e.value
        if isinstance(e, ast.Name) and e.id in env:
            return env[e.id]
        return None

    for c in walk_no_nested(fn.node):
        if not isinstance(c, ast.Call):
            continue
        f = c.func
        if isinstance(f, ast.Attribute) and is_base(f.value):
            out.append((c, f.attr, fn))
            continue
        g_ = f
        if isinstance(f, ast.Name):
            d = single_def(fn.node, f.id)
            g_ = d if isinstance(d, ast.AST) else f
        if isinstance(g_, ast.Call) and isinstance(g_.func, ast.Name) and g_.func.id == 'getattr' and len(g_.args) == 2 and is_base(g_.args[0]):
            out.append((c, const_of(g_.args[1]), fn))
            continue
        if isinstance(f, ast.Attribute) and is_self_attr(f, sn) and cls is not None and depth < 3:
            h = cls.lookup(f.attr)
            if h is not None and h.name.startswith('_') and not h.name.startswith('__') and h is not fn and h.kind == 'method':
                sub = {}
                for p_, a in zip(h.params[1:], c.args):
                    v = const_of(a)
                    if v is not None:
                        sub[p_] = v
                if sub:
                    out += dyn_delegations(h, attr, sub, depth + 1, cls)
    return out


def params_dicts(fn):
    """[(assign stmt, {key: value expr})] for `self._params = {...}` in fn."""
    out = []
    for s in walk_no_nested(fn.node):
        if isinstance(s, ast.Assign) and any(is_self_attr(t, fn.self_name, '_params') for t in s.targets):
            if isinstance(s.value, ast.Dict):
                out.append((s, {const_value(k): v for k, v in zip(s.value.keys, s.value.values)}))
            elif isinstance(s.value, ast.Call) and isinstance(s.value.func, ast.Name) and s.value.func.id == 'dict' and not s.value.args \
                    and all(k.arg for k in s.value.keywords):
                out.append((s, {k.arg: k.value for k in s.value.keywords}))
    return out


def run(ctx, rep):
    prog = ctx.prog
    rep.trust(*K.TRUSTED_BASE_COMMON, 'scipy.stats rv_continuous objects accept pdf/logpdf/cdf/ppf/rvs(x, *shapes, loc=, scale=)',
              'scipy.stats.gaussian_kde is a class: evaluate/logpdf/resample are instance methods', 'SciPy <dist>.fit returns (shapes..., loc, scale)')
    rep.notes.append('C03 PARTIAL: decides, per concrete family, that each method delegates to the SciPy function of the same kind with '
                     'the stored parameters (and that a family whose MODEL_CLASS is not a distribution object overrides every delegating '
                     'method - the rule that exposed fixed defect F15), that parameter keys agree between _fit, _fit_constant and SciPy, '
                     'the degenerate-distribution state machine, and the wiring of the KDE quantile search. Monotonicity, limits, '
                     'pdf = CDF\', inverse identities and the KDE CDF formula are floating-point facts and not decided.')
    for rid, text in (('D1.delegate', 'each distribution method delegates to the SciPy function of the same kind with **self._params (per concrete family)'),
                      ('D1.alias', 'pdf / cdf / ppf forward to the long names; the selecting wrapper forwards each method to the same method of the selected instance'),
                      ('D2.keys', 'keys(_fit) = keys(_fit_constant) = SciPy parameter names of MODEL_CLASS; unpacked fit results are stored under the right names'),
                      ('D3.degenerate', 'a constant fit replaces exactly cdf/ppf/pdf/sample by the point-mass versions; the point-mass CDF is the right-continuous unit step; _is_constant / _extract_constant agree with _fit_constant'),
                      ('D4.quantile', 'KDE percent_point: root function cdf(x) - U[valid], brackets sized by the same mask, result scattered by the same mask, 0/1 map to -inf/+inf')):
        rep.rule(rid, text)
    rep.guarded('D1.d1', d1, ctx, rep)
    rep.guarded('D2.d2', d2, ctx, rep)
    rep.guarded('D3.d3', d3, ctx, rep)
    rep.guarded('D4.d4', d4, ctx, rep)
    rep.guarded('D5.d5_lanes', d5_lanes, ctx, rep)
    rep.guarded('D6.d6_blocks', d6_blocks, ctx, rep)
    rep.guarded('D7.d7_kernel', d7_kernel, ctx, rep)


def d1(ctx, rep):
    prog = ctx.prog
    base = prog.cls(SCIPY)
    # the delegation table of ScipyModel itself
    for meth, want in DELEGATION.items():
        m = base.methods.get(meth)
        if m is None:
            raise AnalysisError(f'anchor vanished: ScipyModel.{meth}')
        calls = model_class_calls(m)
        rets = [n for n in walk_no_nested(m.node) if isinstance(n, ast.Return) and n.value is not None]
        dyn = dyn_delegations(m, 'MODEL_CLASS', concrete=base)
        names = [f for _c, f, _g in dyn]
        if not dyn or any(f is None for f in names):
            rep.undecided('D1.delegate', m, m.node.name, f'{meth}: the SciPy function it evaluates is not derived (no direct or constant-named call of MODEL_CLASS.<f>)',
                          construct=f'ScipyModel.{meth} callee')
        else:
            rep.check('D1.delegate', m, dyn[0][0], all(f == want for f in names), f'{meth} -> MODEL_CLASS.{want}',
                      f'{meth} delegates to MODEL_CLASS.{names} instead of .{want}', construct=f'ScipyModel.{meth} callee')
        if not calls:
            continue
        for c, f in calls:
            star = any(k.arg is None and is_self_attr(k.value, m.self_name, '_params') for k in c.keywords)
            rep.check('D1.delegate', m, c, star, 'passes **self._params', 'the stored parameters are not passed to the SciPy function',
                      construct=f'ScipyModel.{meth} parameters')
            if want == 'rvs':
                sz = kwarg(c, 'size')
                rep.check('D1.delegate', m, c, isinstance(sz, ast.Name) and sz.id == m.params[1], 'size = n_samples',
                          'the number of samples requested is not passed as size=', construct='ScipyModel.sample size')
            else:
                a0 = c.args[0] if c.args else None
                rep.check('D1.delegate', m, c, isinstance(a0, ast.Name) and a0.id == m.params[1], 'evaluates at its argument',
                          'the SciPy function is not evaluated at the method\'s argument', construct=f'ScipyModel.{meth} argument')
        ret_ok = any(any(x is calls[0][0] for x in ast.walk(_resolve_local(m, r.value))) for r in rets) if calls else False
        rep.check('D1.delegate', m, rets[0] if rets else m.node.name, ret_ok, 'returns the SciPy result', 'the SciPy result is not returned',
                  construct=f'ScipyModel.{meth} return')
    # per concrete family: the inherited delegation must be applicable
    n = 0
    for c in base.subclasses():
        if c.is_abstract():
            continue
        n += 1
        mc = c.lookup_attr('MODEL_CLASS')
        dotted = prog.resolve(mc[0].module, mc[1]) if mc else None
        is_dist = dotted in K.SCIPY_DIST_PARAMS
        for meth, want in DELEGATION.items():
            m = c.lookup(meth)
            uses_model_class = bool(model_class_calls(m)) or bool(dyn_delegations(m, 'MODEL_CLASS', concrete=c))
            if uses_model_class and not is_dist:
                rep.bad('D1.delegate', m, (model_class_calls(m) or [(m.node.name,)])[0][0], f'{c.name} inherits {m.short}, which calls MODEL_CLASS.{want}(x, **params), but '
                        f'{c.name}.MODEL_CLASS is {dotted} (not a distribution object with that calling convention): TypeError for every '
                        'fitted model', construct=f'{c.name}.{meth}: self.MODEL_CLASS.{want}(X, **self._params)')
            elif uses_model_class:
                rep.ok('D1.delegate', m, m.node.name, f'{c.name}.{meth} -> {dotted}.{want}', construct=f'{c.name}.{meth}')
            else:
                # an override: must delegate to the fitted model object of the same kind
                wantk = KDE_DELEGATION.get(meth)
                calls = [x for x in walk_no_nested(m.node) if isinstance(x, ast.Call) and isinstance(x.func, ast.Attribute)
                         and is_self_attr(x.func.value, m.self_name, '_model')]
                dynm = dyn_delegations(m, '_model', concrete=c)
                if wantk is not None and not calls and dynm and all(f is not None for _x, f, _g in dynm):
                    calls = [x for x, _f, _g in dynm if isinstance(x.func, ast.Attribute)]
                    if len(calls) != len(dynm):
                        calls = []
                sup = [x for x in walk_no_nested(m.node) if isinstance(x, ast.Call) and isinstance(x.func, ast.Attribute) and x.func.attr == meth
                       and isinstance(x.func.value, ast.Call) and isinstance(x.func.value.func, ast.Name) and x.func.value.func.id == 'super']
                if sup and not is_dist:
                    parents = [k for k in c.mro()[1:] if meth in k.methods]
                    pm = parents[0].methods[meth] if parents else None
                    if pm is not None and (model_class_calls(pm) or dyn_delegations(pm, 'MODEL_CLASS', concrete=c)):
                        rep.bad('D1.delegate', m, sup[0], f'{c.name}.{meth} falls back to {pm.short}, which calls MODEL_CLASS.{want}(x, **params), but '
                                f'{c.name}.MODEL_CLASS is {dotted} (not a distribution object with that calling convention): TypeError for every '
                                'fitted model', construct=f'{c.name}.{meth}: self.MODEL_CLASS.{want}(X, **self._params)')
                        continue
                if wantk is not None and not calls:
                    rep.undecided('D1.delegate', m, m.node.name, f'{c.name}.{meth}: no direct call on the fitted model object was found', construct=f'{c.name}.{meth}')
                    continue
                if wantk is None:
                    rep.ok('D1.delegate', m, m.node.name, f'{c.name}.{meth} is implemented by the family itself', construct=f'{c.name}.{meth}')
                else:
                    good = bool(calls) and all(x.func.attr == wantk for x in calls)
                    rep.check('D1.delegate', m, calls[0] if calls else m.node.name, good, f'{c.name}.{meth} -> self._model.{wantk}',
                              f'{c.name}.{meth} calls self._model.{[x.func.attr for x in calls]} instead of .{wantk}', construct=f'{c.name}.{meth}')
                    if good and wantk == 'resample':
                        par = calls[0]._parent
                        first = isinstance(par, ast.Subscript) and const_value(par.slice) == 0
                        if isinstance(par, ast.Assign) and isinstance(par.targets[0], ast.Name):
                            uses = [u for u in walk_no_nested(m.node) if isinstance(u, ast.Name) and u.id == par.targets[0].id and isinstance(u.ctx, ast.Load)]
                            first = bool(uses) and all(isinstance(u._parent, ast.Subscript) and const_value(u._parent.slice) == 0 for u in uses)
                        sz = kwarg(calls[0], 'size', 0)
                        rep.check('D1.delegate', m, calls[0], first and isinstance(sz, ast.Name) and sz.id == m.params[1],
                                  'resample(size=n_samples)[0]', 'the KDE sample is not the first row of resample(size=n_samples)',
                                  construct=f'{c.name}.sample shape')
    rep.floor('D1.delegate', 'concrete univariate families', n, 8)
    # aliases in the three hierarchies
    for clsq in (UNI, 'copulas.bivariate.base.Bivariate', 'copulas.multivariate.base.Multivariate'):
        cls = prog.cls(clsq)
        for short_, long_ in ALIASES.items():
            m = cls.methods.get(short_)
            if m is None:
                continue
            rets = [n for n in walk_no_nested(m.node) if isinstance(n, ast.Return) and n.value is not None]
            good = len(rets) == 1 and isinstance(rets[0].value, ast.Call) and is_self_attr(rets[0].value.func, m.self_name, long_) \
                and [getattr(a, 'id', None) for a in rets[0].value.args] == m.params[1:]
            rep.check('D1.alias', m, rets[0] if rets else m.node.name, good, f'{short_} -> {long_}', f'{cls.name}.{short_} does not forward to {long_} with its arguments')
    uni = prog.cls(UNI)
    for meth in ('probability_density', 'log_probability_density', 'cumulative_distribution', 'percent_point', 'sample'):
        m = uni.methods[meth]
        dyn = dyn_delegations(m, '_instance', concrete=uni)
        names = [f for _x, f, _g in dyn]
        if not dyn or any(f is None for f in names):
            rep.undecided('D1.alias', m, m.node.name, f'wrapper.{meth}: the method of the selected instance it forwards to is not derived')
            continue
        direct = [x for x, _f, g in dyn if g is m and isinstance(x.func, ast.Attribute)]
        good = all(f == meth for f in names) and all([getattr(a, 'id', None) for a in x.args] == m.params[1:] for x in direct)
        rep.check('D1.alias', m, dyn[0][0], good, f'wrapper.{meth} -> _instance.{meth}',
                  f'the selecting wrapper forwards {meth} to _instance.{names}')


def d2(ctx, rep):
    prog = ctx.prog
    base = prog.cls(SCIPY)
    for c in base.subclasses():
        if c.is_abstract():
            continue
        mc = c.lookup_attr('MODEL_CLASS')
        dotted = prog.resolve(mc[0].module, mc[1]) if mc else None
        want = K.SCIPY_DIST_PARAMS.get(dotted)
        fit, fitc = c.need('_fit'), c.need('_fit_constant')
        from ..dictkeys import Env, const_tuple, evaluate, stored_params
        if want is None:
            # KDE: both branches must fill the same keys
            k1 = [d.keys for _s, d in stored_params(ctx, fit, c)]
            k2 = [d.keys for _s, d in stored_params(ctx, fitc, c)]
            if not k1 or not k2 or any(k is None for k in k1 + k2):
                rep.undecided('D2.keys', fit, fit.node.name, f'{c.name}: keys stored by _fit / _fit_constant not derivable', construct=f'{c.name} keys')
            else:
                rep.check('D2.keys', fit, fit.node.name, all(x == k1[0] for x in k1 + k2),
                          f'{c.name}: _fit and _fit_constant fill the same keys {sorted(k1[0])}',
                          f'{c.name}: _fit fills {[sorted(k) for k in k1]}, _fit_constant fills {[sorted(k) for k in k2]}', construct=f'{c.name} keys')
            continue
        for f, nm in ((fit, '_fit'), (fitc, '_fit_constant')):
            ds = stored_params(ctx, f, c)
            if not ds:
                # StudentT._fit_constant = _fit + item store
                calls_fit = any(isinstance(x, ast.Call) and is_self_attr(x.func, f.self_name, '_fit') for x in walk_no_nested(f.node))
                stores = [s for s in walk_no_nested(f.node) if isinstance(s, ast.Assign) and isinstance(s.targets[0], ast.Subscript)
                          and is_self_attr(s.targets[0].value, f.self_name, '_params')]
                keys_ok = all(const_value(s.targets[0].slice) in want for s in stores)
                if calls_fit:
                    rep.check('D2.keys', f, f.node.name, keys_ok, f'{c.name}.{nm} = _fit plus stores into existing keys',
                              f'{c.name}.{nm} stores a key that {dotted} does not take', construct=f'{c.name}.{nm} keys')
                else:
                    rep.undecided('D2.keys', f, f.node.name, f'{c.name}.{nm}: no store into self._params found', construct=f'{c.name}.{nm} keys')
                continue
            for s, d in ds:
                if d.keys is None:
                    rep.undecided('D2.keys', f, s, f'{c.name}.{nm}: keys of the stored dict not derivable', construct=f'{c.name}.{nm} keys')
                    continue
                rep.check('D2.keys', f, s, set(d.keys) == set(want), f'{c.name}.{nm} keys = {want}',
                          f'{c.name}.{nm} fills {sorted(map(str, d.keys))}, {dotted} takes {want}', construct=f'{c.name}.{nm} keys')
                # dict(zip(NAMES, <dist>.fit(...))): the names label the positions of the fit result
                zsrc = d.zipped
                if isinstance(zsrc, ast.Name):
                    from ..idioms import single_def as _sdz
                    z_ = _sdz(f.node, zsrc.id)
                    zsrc = z_ if isinstance(z_, ast.AST) else None      # e.g. the starred rest of an unpacked fit result: positions not derived here
                if d.zipped is not None and d.order is not None and isinstance(zsrc, ast.Call) and call_name(zsrc) == 'fit':
                    rep.check('D2.keys', f, s, tuple(d.order) == tuple(want), f'names {d.order} label the positions of {dotted.split(".")[-1]}.fit()',
                              f'the fit result of {dotted.split(".")[-1]} ({want}) is labelled {d.order}: parameters are stored under the wrong names',
                              construct=f"{c.name}.{nm} positions")
                # unpack order of <dist>.fit(...)
                if isinstance(s.value, ast.Dict):
                    for k_, v in zip(s.value.keys, s.value.values):
                        key = const_value(k_) if k_ is not None else None
                        if isinstance(v, ast.Name) and isinstance(key, str):
                            src = _unpack_source(prog, f, v.id, dotted)
                            if src is not None:
                                pos, total = src
                                if total == len(want):
                                    rep.check('D2.keys', f, s, want[pos] == key, f"'{key}' <- position {pos} of {dotted.split('.')[-1]}.fit ({want[pos]})",
                                              f"'{key}' receives position {pos} of {dotted.split('.')[-1]}.fit(), which is {want[pos]}",
                                              construct=f"{c.name}.{nm} '{key}'")


def _unpack_source(prog, fn, name, dotted):
    """(position, total) if `name` is unpacked from <dist>.fit(...) of the family's distribution."""
    last = None
    for s in walk_no_nested(fn.node):
        if isinstance(s, ast.Assign) and isinstance(s.targets[0], ast.Tuple) and isinstance(s.value, ast.Call) \
                and prog.resolve(fn.module, s.value.func) == dotted + '.fit':
            for i, e in enumerate(s.targets[0].elts):
                if isinstance(e, ast.Name) and e.id == name:
                    last = (i, len(s.targets[0].elts))
    return last


def d3(ctx, rep):
    prog = ctx.prog
    uni = prog.cls(UNI)
    rc = uni.methods['_replace_constant_methods']
    pairs = {}
    for s in walk_no_nested(rc.node):
        if isinstance(s, ast.Assign) and is_self_attr(s.targets[0], rc.self_name) and is_self_attr(s.value, rc.self_name):
            pairs[s.targets[0].attr] = (s.value.attr, s)
    want = {'cumulative_distribution', 'percent_point', 'probability_density', 'sample'}
    rep.check('D3.degenerate', rc, rc.node.name, set(pairs) == want, f'replaces exactly {sorted(want)}',
              f'replaces {sorted(pairs)}: {sorted(want - set(pairs))} keep answering from stale/invalid parameters', construct='replaced methods')
    for k, (v, s) in pairs.items():
        others = {'_constant_' + o for o in want if o != k}
        if v == '_constant_' + k:
            rep.ok('D3.degenerate', rc, s, f'{k} -> _constant_{k}')
        elif v in others:
            rep.bad('D3.degenerate', rc, s, f'{k} is replaced by {v}: a method of a different kind')
        else:
            rep.undecided('D3.degenerate', rc, s, f'{k} is replaced by {v}: which kind of method that is cannot be told from its name')
    # the undo removes exactly the same four
    un = uni.methods.get('_unset_constant_value')
    if un is not None:
        from ..lifecycle import _dict_pop
        removed = {_dict_pop(n, un.self_name) for n in walk_no_nested(un.node) if _dict_pop(n, un.self_name)}
        rep.check('D3.degenerate', un, un.node.name, removed == set(pairs), 'the undo removes the same overrides',
                  f'the undo removes {sorted(removed)}, the constant fit installs {sorted(pairs)}', construct='undo of the overrides')
    cdf = uni.methods['_constant_cumulative_distribution']
    step = [c for c in walk_no_nested(cdf.node) if isinstance(c, ast.Compare) and len(c.ops) == 1
            and any(is_self_attr(x, cdf.self_name, '_constant_value') for x in ast.walk(c))]
    # ones(shape) / ones_like(X, dtype=float); an integer-typed ones_like would still hold 0 and 1 exactly
    ones = any(isinstance(c, ast.Call) and call_name(c) in ('ones', 'ones_like') for c in walk_no_nested(cdf.node))
    zeros = any(isinstance(c, ast.Call) and call_name(c) in ('zeros', 'zeros_like') for c in walk_no_nested(cdf.node))
    zero_store = [s for s in walk_no_nested(cdf.node) if isinstance(s, ast.Assign) and isinstance(s.targets[0], ast.Subscript) and const_value(s.value) == 0]
    one_store = [s for s in walk_no_nested(cdf.node) if isinstance(s, ast.Assign) and isinstance(s.targets[0], ast.Subscript) and const_value(s.value) == 1]
    recognised = bool(step) and isinstance(step[0].left, ast.Name) and step[0].left.id == cdf.params[1] and (
        (ones and zero_store and not zeros) or (zeros and one_store and not ones))
    if not recognised:
        rep.undecided('D3.degenerate', cdf, cdf.node.name, 'the form "ones, then 0 where X < c" (or its mirror image) was not found: the step is not derived',
                      construct='unit step')
    else:
        op = type(step[0].ops[0])
        good = (op is ast.Lt) if ones else (op is ast.GtE)
        rep.check('D3.degenerate', cdf, step[0], good, 'CDF = 1 except 0 where X < c (right-continuous unit step at c)',
                  'the point-mass CDF is not the right-continuous unit step (0 strictly below c, 1 at and above c)', construct='unit step')
    for nm, expect in (('_constant_percent_point', 'full'), ('_constant_sample', 'full')):
        m = uni.methods[nm]
        rets = [n for n in walk_no_nested(m.node) if isinstance(n, ast.Return)]
        rv = _resolve_local(m, rets[0].value) if len(rets) == 1 and rets[0].value is not None else None
        # a private helper with a single return stands for its returned expression
        owner = m
        if isinstance(rv, ast.Call) and is_self_attr(rv.func, m.self_name):
            h = uni.lookup(rv.func.attr)
            hr = [n for n in walk_no_nested(h.node) if isinstance(n, ast.Return) and n.value is not None] if h is not None and h.name.startswith('_') else []
            if len(hr) == 1:
                rv, owner = _resolve_local(h, hr[0].value), h
        if isinstance(rv, ast.Call) and call_name(rv) in ('full', 'full_like', 'repeat', 'tile') and len(rv.args) >= 2:
            good = is_self_attr(rv.args[1], owner.self_name, '_constant_value') or (call_name(rv) in ('repeat', 'tile') and is_self_attr(rv.args[0], owner.self_name, '_constant_value'))
            rep.check('D3.degenerate', m, rets[0], good, f'{nm} returns the constant', f'{nm} does not return the constant value')
            if good and call_name(rv) == 'full_like' and kwarg(rv, 'dtype', 2) is None:
                rep.bad('D3.degenerate', m, rets[0], f'`{short(rv, 60)}` casts the constant to the dtype of `{short(rv.args[0], 20)}` (np.full_like without dtype): for integer or '
                        'low-precision arguments the returned value is not the constant the model was fitted on', construct=f'{nm}: the constant keeps its own type')
        else:
            rep.undecided('D3.degenerate', m, rets[0] if rets else m.node.name, f'{nm}: the returned expression is not an array filled with one value')
    # per family: _is_constant holds on the dict of _fit_constant, _extract_constant returns the constant's key
    base = prog.cls(SCIPY)
    for c in base.subclasses():
        if c.is_abstract():
            continue
        fc, isc, exc = c.need('_fit_constant'), c.need('_is_constant'), c.need('_extract_constant')
        from ..dictkeys import Env, deref, stored_params
        ds = stored_params(ctx, fc, c)
        dk = ds[0][1] if ds else None
        fit_values = None
        if not ds and any(isinstance(x, ast.Call) and is_self_attr(x.func, fc.self_name, '_fit') for x in walk_no_nested(fc.node)):
            fds = stored_params(ctx, c.need('_fit'), c)
            dk = fds[0][1] if fds else None
            fit_values = dict(dk.values or {}) if dk is not None else None
            if dk is not None and dk.keys is not None:
                dk = type(dk)(dk.keys, dk.order, None, {})  # values come from the optimiser: not constants
        keys = set(dk.keys) if dk is not None and dk.keys is not None else None
        d = dict(dk.values or {}) if keys is not None else {}
        env0 = Env(fc, c)
        for s in walk_no_nested(fc.node):
            if isinstance(s, ast.Assign) and isinstance(s.targets[0], ast.Subscript) and is_self_attr(s.targets[0].value, fc.self_name, '_params'):
                k_ = const_value(s.targets[0].slice)
                if keys is not None and isinstance(k_, str):
                    keys.add(k_)
                    d[k_] = (env0, s.value)
        val = lambda k: deref(ctx, *d[k])[1] if k in d else None
        rets = [n for n in walk_no_nested(isc.node) if isinstance(n, ast.Return) and n.value is not None]
        verdict = None
        pred, negated = (rets[0].value if len(rets) == 1 else None), False
        while isinstance(pred, ast.UnaryOp) and isinstance(pred.op, ast.Not):
            pred, negated = pred.operand, not negated
        if isinstance(pred, ast.Compare) and len(pred.ops) == 1 and isinstance(pred.ops[0], ast.NotEq):
            negated = not negated
        if keys is not None and len(rets) == 1 and isinstance(pred, ast.Compare) and len(pred.ops) == 1 and isinstance(pred.ops[0], (ast.Eq, ast.NotEq)):
            l, r = pred.left, pred.comparators[0]
            kl, kr = _param_key(l, isc), _param_key(r, isc)
            if kl and kr:
                verdict = (ast.dump(val(kl)) == ast.dump(val(kr))) if (kl in d and kr in d) else (False if (kl not in keys or kr not in keys) else None)
            elif kl and const_value(r) in (0, 0.0):
                verdict = _is_zero_for_constant(ctx, d[kl]) if kl in d else (False if kl not in keys else None)
            elif isinstance(l, ast.Call) and call_name(l) == 'len' and const_value(r) == 1:
                k = [x for x in ast.walk(l) if _param_key(x, isc)]
                kk = _param_key(k[0], isc) if k else None
                verdict = (_is_repeated_single(val(kk)) if kk in d else (False if kk not in keys else None)) if kk else None
        if verdict is not None and negated:
            verdict = not verdict
        if verdict is None:
            rep.undecided('D3.degenerate', isc, rets[0] if rets else isc.node.name, f'{c.name}: relation between _is_constant and _fit_constant not derivable',
                          construct=f'{c.name}._is_constant')
        else:
            rep.check('D3.degenerate', isc, rets[0], verdict, f'{c.name}: _is_constant holds on what _fit_constant stores',
                      f'{c.name}: _is_constant does not hold on the parameters _fit_constant stores: a constant model is rebuilt '
                      'as an ordinary (invalid) one by from_dict', construct=f'{c.name}._is_constant')
        erets = [n for n in walk_no_nested(exc.node) if isinstance(n, ast.Return) and n.value is not None]
        if len(erets) == 1:
            e = erets[0].value
            k = _param_key(e, exc) or (_param_key(e.value, exc) if isinstance(e, ast.Subscript) else None)
            if k and k in d:
                isconst = _is_the_constant(val(k))
                if isconst is None:
                    rep.undecided('D3.degenerate', exc, erets[0], f"{c.name}: whether _fit_constant stores the constant under '{k}' is not derivable",
                                  construct=f'{c.name}._extract_constant')
                else:
                    rep.check('D3.degenerate', exc, erets[0], isconst, f"{c.name}: the constant is stored under '{k}' and read back from it",
                              f"{c.name}: _extract_constant reads '{k}', where _fit_constant does not store the constant", construct=f'{c.name}._extract_constant')
            elif k and keys is not None and k not in keys:
                rep.bad('D3.degenerate', exc, erets[0], f"{c.name}: _extract_constant reads '{k}', which _fit_constant does not fill", construct=f'{c.name}._extract_constant')
            elif k and fit_values is not None and k in fit_values:
                # _fit_constant leaves the value the ordinary _fit computed: is that an element of SciPy's fit result?
                fitm = c.need('_fit')
                env_, ve = fit_values[k]
                src = None
                if isinstance(ve, ast.Name):
                    for a_ in walk_no_nested(fitm.node):
                        if isinstance(a_, ast.Assign) and isinstance(a_.targets[0], (ast.Tuple, ast.List)) and any(isinstance(y, ast.Name) and y.id == ve.id for y in a_.targets[0].elts) \
                                and isinstance(a_.value, ast.Call) and call_name(a_.value) == 'fit':
                            src = a_
                if src is not None:
                    rep.bad('D3.degenerate', exc, erets[0], f"{c.name}: _fit_constant keeps under '{k}' the estimate of `{short(src.value, 40)}` on constant data (an optimiser's output, "
                            "arbitrary for degenerate input) and _extract_constant reads it back: from_dict(to_dict(m)) is a point mass at a different value", construct=f'{c.name}._extract_constant')
                else:
                    rep.undecided('D3.degenerate', exc, erets[0], f"{c.name}: what _fit_constant stores under '{k}' is not derivable", construct=f'{c.name}._extract_constant')
            elif k:
                rep.undecided('D3.degenerate', exc, erets[0], f"{c.name}: what _fit_constant stores under '{k}' is not derivable", construct=f'{c.name}._extract_constant')


def d5_lanes(ctx, rep):
    """Vectorised methods keep one output entry per input entry, in the input's order (no unbalanced permutation)."""
    from ..absint import TOP, Frame
    from ..idioms import private_closure
    from ..lanekind import LaneKind, word_text
    prog = ctx.prog
    rep.rule('D5.lanes', 'vectorised distribution methods return their values in the order of their argument: a permutation applied to the '
             'points (argsort / sort) is undone before the values are returned or written back through a mask')
    REORDERING = ('argsort', 'sort', 'sorted', 'unique', 'permutation', 'shuffle', 'lexsort', 'flip')
    n = 0
    seen = set()
    for root in (UNI, SCIPY):
        for c in prog.cls(root).subclasses(strict=False):
            for meth in ('cumulative_distribution', 'percent_point', 'probability_density', 'log_probability_density'):
                m = c.lookup(meth)
                if m is None or m.qualname in seen or len(m.params) < 2:
                    continue
                seen.add(m.qualname)
                clo = private_closure(ctx, m, c)
                if not any(isinstance(x, ast.Call) and call_name(x) in REORDERING for g in clo for x in ast.walk(g.node)):
                    continue
                n += 1
                dp = m.params[1]
                masks = set()
                changed = True
                while changed:
                    changed = False
                    for s_ in walk_no_nested(m.node):
                        if isinstance(s_, ast.Assign) and isinstance(s_.targets[0], ast.Name) and s_.targets[0].id not in masks \
                                and isinstance(s_.value, (ast.Compare, ast.BinOp, ast.UnaryOp)) \
                                and any(isinstance(x, ast.Name) and (x.id == dp or x.id in masks) for x in ast.walk(s_.value)) \
                                and any(isinstance(x, (ast.Compare, ast.Invert, ast.BitOr, ast.BitAnd)) for x in ast.walk(s_.value)):
                            masks.add(s_.targets[0].id)
                            changed = True
                lk = LaneKind(ctx, dp, masks)
                fr = Frame(m, {}, c)
                verdicts = []
                for s_ in walk_no_nested(m.node):
                    if isinstance(s_, ast.Assign) and isinstance(s_.targets[0], ast.Subscript) and isinstance(s_.targets[0].slice, ast.Name) \
                            and s_.targets[0].slice.id in masks:
                        v = lk.value(s_.value, fr)
                        mk = s_.targets[0].slice.id
                        if v == 'uniform':
                            continue
                        if isinstance(v, tuple) and v and v[0] == 'lanes':
                            if v[2]:
                                verdicts.append(('bad', s_, f'the values written back through `{mk}` are in the {word_text(lk, v)}: each value lands on another point\'s position'))
                            elif v[1] == 'mask:' + mk:
                                verdicts.append(('ok', s_, f'values written through `{mk}` are in the order of the points selected by `{mk}`'))
                            else:
                                verdicts.append(('und', s_, f'values of {v[1]} written through `{mk}`'))
                        else:
                            verdicts.append(('und', s_, f'the order of the values written through `{mk}` is not derived'))
                for r in [x for x in walk_no_nested(m.node) if isinstance(x, ast.Return) and x.value is not None]:
                    v = lk.value(r.value, fr)
                    if isinstance(v, tuple) and v and v[0] == 'lanes' and v[2]:
                        verdicts.append(('bad', r, f'the returned values are in the {word_text(lk, v)}, not in the order of `{dp}`'))
                    elif isinstance(v, tuple) and v and v[0] == 'lanes':
                        verdicts.append(('ok', r, f'returned in the order of `{dp}`'))
                if not verdicts:
                    rep.undecided('D5.lanes', m, m.node.name, f'{c.name}.{meth} reorders values (sort / argsort) and the order of its result is not derived',
                                  construct=f'{m.short}: lane order')
                for kind, node, msg in verdicts:
                    if kind == 'bad':
                        rep.bad('D5.lanes', m, node, msg, construct=f'{m.short}: lane order')
                    elif kind == 'ok':
                        rep.ok('D5.lanes', m, node, msg, construct=f'{m.short}: lane order')
                    else:
                        rep.undecided('D5.lanes', m, node, msg, construct=f'{m.short}: lane order')
    if n == 0:
        rep.ok('D5.lanes', prog.cls(UNI).methods['percent_point'], 'vectorised methods', 'no vectorised distribution method reorders its points (no sort / argsort in their closures)',
               construct='lane order')


def d6_blocks(ctx, rep):
    """A result buffer of a vectorised method that is filled block by block must be filled completely."""
    from ..exprnf import NF
    from ..idioms import private_closure
    prog = ctx.prog
    rep.rule('D6.blocks', 'a result buffer of a vectorised distribution method that is filled block by block (slices driven by a loop index) '
             'is covered completely: the trip count is ceil(n / block), or a remainder block follows the loop')
    n_sites = 0
    seen = set()
    for root in (UNI, SCIPY):
        for c in prog.cls(root).subclasses(strict=False):
            for meth in ('cumulative_distribution', 'percent_point', 'probability_density', 'log_probability_density', 'sample'):
                m0 = c.lookup(meth)
                if m0 is None:
                    continue
                for m in private_closure(ctx, m0, c):
                    if m.qualname in seen:
                        continue
                    seen.add(m.qualname)
                    nf = NF(prog, m)
                    for lp in [x for x in walk_no_nested(m.node) if isinstance(x, ast.For) and isinstance(x.target, ast.Name)]:
                        it = lp.iter
                        if not (isinstance(it, ast.Call) and call_name(it) == 'range' and it.args):
                            continue
                        iv = lp.target.id
                        for st in [x for x in ast.walk(lp) if isinstance(x, ast.Assign) and isinstance(x.targets[0], ast.Subscript)
                                   and isinstance(x.targets[0].value, ast.Name)]:
                            buf = st.targets[0].value.id
                            sl = st.targets[0].slice
                            if isinstance(sl, ast.Name):
                                d = single_def(m.node, sl.id) if single_def(m.node, sl.id) is not None else None
                                if d is None:
                                    defs = [a.value for a in ast.walk(lp) if isinstance(a, ast.Assign) and isinstance(a.targets[0], ast.Name) and a.targets[0].id == sl.id]
                                    d = defs[0] if len(defs) == 1 else None
                                sl = d
                            lo = hi = None
                            if isinstance(sl, ast.Slice):
                                lo, hi = sl.lower, sl.upper
                            elif isinstance(sl, ast.Call) and call_name(sl) == 'slice' and len(sl.args) == 2:
                                lo, hi = sl.args
                            if lo is None or hi is None or not any(isinstance(x, ast.Name) and x.id == iv for x in ast.walk(lo)):
                                continue
                            # the buffer must be allocated in this function with a length and be returned
                            alloc = single_def(m.node, buf)
                            if not (isinstance(alloc, ast.Call) and call_name(alloc) in ('zeros', 'empty', 'full', 'ones', 'zeros_like', 'empty_like')):
                                continue
                            if not any(isinstance(r, ast.Return) and r.value is not None and any(isinstance(x, ast.Name) and x.id == buf for x in ast.walk(r.value))
                                       for r in walk_no_nested(m.node)):
                                continue
                            n_sites += 1
                            size = alloc.args[0] if alloc.args else None
                            verdict, why = _block_coverage(nf, it, iv, lo, hi, size, m, lp, buf)
                            cons = f'{m.short}: blocks of `{buf}`'
                            if verdict is True:
                                rep.ok('D6.blocks', m, st, why, construct=cons)
                            elif verdict is False:
                                rep.bad('D6.blocks', m, st, why, construct=cons)
                            else:
                                rep.undecided('D6.blocks', m, st, why, construct=cons)
    # chunked *reads* anywhere in the package: [f(x[i * K:(i + 1) * K]) for i in range(E)] must visit every entry of x
    for m in sorted(prog.functions.values(), key=lambda f: f.qualname):
        nf = None
        gens = []
        for x in ast.walk(m.node):
            if isinstance(x, (ast.ListComp, ast.GeneratorExp)) and len(x.generators) == 1 and isinstance(x.generators[0].target, ast.Name):
                gens.append((x.generators[0].target.id, x.generators[0].iter, x.elt, x))
            elif isinstance(x, ast.For) and isinstance(x.target, ast.Name):
                gens.append((x.target.id, x.iter, x, x))
        for iv, it, body, node in gens:
            if not (isinstance(it, ast.Call) and call_name(it) == 'range' and it.args):
                continue
            for sub in ast.walk(body):
                if not (isinstance(sub, ast.Subscript) and isinstance(sub.ctx, ast.Load) and isinstance(sub.value, ast.Name) and isinstance(sub.slice, ast.Slice)
                        and sub.slice.lower is not None and sub.slice.upper is not None and sub.slice.step is None):
                    continue
                if not any(isinstance(y, ast.Name) and y.id == iv for y in ast.walk(sub.slice.lower)):
                    continue
                src = sub.value.id
                if (m.qualname, src, node.lineno) in seen:
                    continue
                seen.add((m.qualname, src, node.lineno))
                nf = nf or NF(prog, m)
                rest = any(isinstance(y, ast.Subscript) and isinstance(y.value, ast.Name) and y.value.id == src and isinstance(y.slice, ast.Slice)
                           and y.slice.upper is None and y.slice.lower is not None and y is not sub for y in ast.walk(m.node))
                verdict, why = _block_coverage(nf, it, iv, sub.slice.lower, sub.slice.upper, None, m, node, src, remainder_present=rest)
                if verdict is None:
                    continue     # not a block walk this rule models
                n_sites += 1
                cons = f'{m.short}: chunks of `{src}`'
                if verdict:
                    rep.ok('D6.blocks', m, sub, why.replace('cover the buffer', f'cover `{src}`'), construct=cons)
                else:
                    rep.bad('D6.blocks', m, sub, why.replace('nothing fills the rest', 'nothing visits the rest').replace(f'the last entries of `{src}` keep their initial value',
                            f'the last entries of `{src}` are silently dropped from the result'), construct=cons)
    if n_sites == 0:
        rep.ok('D6.blocks', prog.cls(UNI).methods['percent_point'], 'vectorised methods', 'no vectorised distribution method fills its result block by block',
               construct='block coverage')


def _block_coverage(nf, it, iv, lo, hi, size, m, lp, buf, remainder_present=None):
    """(True | False | None, text) for blocks [lo(i), hi(i)) with i in range(...) over a buffer of length `size`."""
    def N(src):
        return nf.nf(ast.parse(src, mode='eval').body)

    def same(a, b):
        return a is not None and b is not None and nf.nf(a) == nf.nf(b)
    args = it.args
    size_len = size
    if isinstance(size, ast.Attribute) and size.attr == 'shape':
        size_len = None
    # form A: for i in range(0, n, K): buf[i:i + K]
    if len(args) == 3 and nf.nf(args[0]) == N('0') and isinstance(lo, ast.Name) and lo.id == iv:
        step = args[2]
        ok_hi = isinstance(hi, ast.BinOp) and isinstance(hi.op, ast.Add) and nf.nf(hi) == nf.nf(ast.BinOp(left=ast.Name(id=iv, ctx=ast.Load()), op=ast.Add(), right=step))
        if ok_hi and (size_len is None or same(args[1], size_len) or True):
            return True, 'blocks [i, i + step) for i in range(0, n, step) cover the buffer'
        return None, 'block bounds not recognised'
    # form B: for i in range(E): buf[i * K:(i + 1) * K]
    if len(args) == 1 and isinstance(lo, ast.BinOp) and isinstance(lo.op, ast.Mult):
        k = lo.right if (isinstance(lo.left, ast.Name) and lo.left.id == iv) else (lo.left if isinstance(lo.right, ast.Name) and lo.right.id == iv else None)
        if k is None:
            return None, 'block bounds not recognised'
        ksrc = ast.unparse(k)
        if nf.nf(hi) != N(f'({iv} + 1) * ({ksrc})'):
            return None, 'block bounds not recognised'
        E = args[0]
        if isinstance(E, ast.Name):
            d = single_def(m.node, E.id)
            E = d if isinstance(d, ast.AST) else E
        Etxt = ast.unparse(E)
        # floor: n // K   (with n = len(x) or x.shape[0] or a name)
        if isinstance(E, ast.BinOp) and isinstance(E.op, ast.FloorDiv) and nf.nf(E.right) == nf.nf(k) \
                and not (isinstance(E.left, ast.BinOp) and isinstance(E.left.op, (ast.Add, ast.Sub))) and not isinstance(E.left, ast.UnaryOp):
            # a remainder block after the loop: buf[E * K:] = ... or buf[done:] = ...
            after = [x for x in walk_no_nested(m.node) if isinstance(x, ast.Assign) and isinstance(x.targets[0], ast.Subscript)
                     and isinstance(x.targets[0].value, ast.Name) and x.targets[0].value.id == buf and x.lineno > lp.end_lineno
                     and isinstance(x.targets[0].slice, ast.Slice) and x.targets[0].slice.upper is None]
            if after or remainder_present:
                return True, f'{Etxt} full blocks and a remainder block after the loop'
            return False, (f'the loop runs {Etxt} times over blocks of {ksrc} entries and nothing fills the rest: when the number of points is not a multiple of '
                           f'{ksrc}, the last entries of `{buf}` keep their initial value')
        ceil_forms = [f'-(-(NN) // ({ksrc}))', f'((NN) + ({ksrc}) - 1) // ({ksrc})', f'int(np.ceil((NN) / ({ksrc})))', f'math.ceil((NN) / ({ksrc}))',
                      f'int(math.ceil((NN) / ({ksrc})))', f'np.ceil((NN) / ({ksrc})).astype(int)']
        cands = []
        for x in ast.walk(E):
            if isinstance(x, ast.Call) and call_name(x) == 'len':
                cands.append(ast.unparse(x))
            if isinstance(x, ast.Subscript) and isinstance(x.value, ast.Attribute) and x.value.attr == 'shape':
                cands.append(ast.unparse(x))
            if isinstance(x, ast.Name):
                cands.append(x.id)
        for nn in cands:
            for f in ceil_forms:
                try:
                    if nf.nf(E) == N(f.replace('NN', nn)):
                        return True, f'ceil(n / {ksrc}) blocks of {ksrc} entries cover the buffer (numpy clips the last slice)'
                except SyntaxError:
                    pass
        return None, f'trip count `{Etxt}` of the block loop not recognised'
    return None, 'block loop form not recognised'


def _param_key(e, fn):
    if isinstance(e, ast.Subscript) and is_self_attr(e.value, fn.self_name, '_params'):
        return const_value(e.slice)
    return None


def _resolve_local(fn, e):
    if isinstance(e, ast.Name):
        d = single_def(fn.node, e.id)
        if isinstance(d, ast.AST):
            return d
    return e


def _is_zero_for_constant(ctx, bound):
    from ..dictkeys import deref
    env, e = deref(ctx, *bound)
    if const_value(e) in (0, 0.0):
        return True
    # max(X) - min(X) of the same X is zero on constant data
    if isinstance(e, ast.BinOp) and isinstance(e.op, ast.Sub):
        l, r = deref(ctx, env, e.left)[1], deref(ctx, env, e.right)[1]
        if isinstance(l, ast.Call) and isinstance(r, ast.Call) and {call_name(l), call_name(r)} == {'max', 'min'} \
                and [ast.dump(a) for a in l.args] == [ast.dump(a) for a in r.args]:
            return True
    # definitely not zero: another numeric literal; anything else (a parameter of a helper, a computed value) is not derived
    c_ = const_value(e)
    if isinstance(c_, (int, float)) and not isinstance(c_, bool):
        return False
    if isinstance(e, ast.Name) and env is not None:
        # a parameter of the helper that builds the dict: its default, when the call does not pass it
        fn_ = getattr(env, 'fn', None)
        dflt = getattr(fn_, 'defaults', {}).get(e.id) if fn_ is not None else None
        if dflt is not None and const_value(dflt) in (0, 0.0):
            return None
    return None


def _is_the_constant(e):
    if isinstance(e, ast.Subscript) and isinstance(e.value, ast.Call) and call_name(e.value) == 'unique' and const_value(e.slice) == 0:
        return True
    if isinstance(e, ast.Call) and call_name(e) in ('min', 'max', 'median', 'amin', 'amax') and e.args and isinstance(e.args[0], ast.Name):
        return True
    if isinstance(e, ast.Call) and call_name(e) in ('mean', 'average', 'sum', 'nanmean'):
        return False   # the floating-point mean of n copies of c is not c itself (np.mean([0.1] * 20) == 0.10000000000000002)
    if isinstance(e, ast.BinOp) and isinstance(e.op, ast.Mult) and isinstance(e.left, ast.List) and len(e.left.elts) == 1:
        inner = e.left.elts[0]
        return True if isinstance(inner, ast.Name) else _is_the_constant(inner)
    if isinstance(e, (ast.Constant,)):
        return False
    if isinstance(e, ast.BinOp):
        return False
    return None


def _is_repeated_single(e):
    return isinstance(e, ast.BinOp) and isinstance(e.op, ast.Mult) and isinstance(e.left, ast.List) and len(e.left.elts) == 1


def _accepts_valid_probabilities(ctx, rep, m, up):
    """No raise of percent_point is reachable for a flat array of probabilities inside [0, 1] (a negated or one-sided range
    guard refuses exactly the inputs the property quantifies over)."""
    import re
    from ..boolcond import Conds, atoms_of, satisfiable, show, substitute
    prog = ctx.prog
    cd = Conds(prog, m)
    _normal, rs, _rets = cd.exits()
    if not rs:
        rep.ok('D4.quantile', m, m.node.name, 'percent_point has no refusal path of its own', construct='valid probabilities accepted')
        return
    u = re.escape(up)
    env = {}
    for st_, c_ in rs:
        for k in atoms_of(c_):
            t = k.replace(' ', '')
            if re.search(rf'{u}(\[[^\]]*\])?>=?1(\.0)?(?![0-9.e-])', t) or re.search(rf'lt\[1(\.0)?\|.*{u}.*max', t) or re.search(rf'{u}(\[[^\]]*\])?<=?0(\.0)?(?![0-9.e-])', t) \
                    or re.search(rf'lt\[.*{u}.*min.*\|0(\.0)?\]', t):
                env[k] = False      # no probability above 1 / below 0
            elif re.search(rf'lt\[1\|len\({u}\.shape\)\]', t) or re.search(rf'lt\[1\|{u}\.ndim\]', t):
                env[k] = False      # a flat array
            elif re.search(rf'lt\[(len\({u}\.shape\)|{u}\.ndim)\|1\]', t):
                env[k] = False      # ndim < 1: not for an array
            elif re.search(rf'eq\[1\|(len\({u}\.shape\)|{u}\.ndim)\]', t):
                env[k] = True
    for st_, c_ in rs:
        left = substitute(c_, env)
        if left is False or not satisfiable(left):
            continue
        free = sorted(atoms_of(left)) if left is not True else []
        if not free:
            rep.bad('D4.quantile', m, st_, f'`{short(st_, 60)}` is raised for a flat array of probabilities inside [0, 1] (condition `{show(c_)[:80]}`): '
                    'valid probabilities are refused', construct='valid probabilities accepted')
            return
        rep.undecided('D4.quantile', m, st_, f'whether `{short(st_, 50)}` can be raised for valid probabilities depends on {free[:2]}', construct='valid probabilities accepted')
        return
    rep.ok('D4.quantile', m, m.node.name, 'no refusal is reachable for a flat array of probabilities inside [0, 1]', construct='valid probabilities accepted')


def d4(ctx, rep):
    from ..idioms import resolve
    prog = ctx.prog
    kde = prog.cls(KDE)
    m = kde.methods['percent_point']
    up = m.params[1]
    _accepts_valid_probabilities(ctx, rep, m, up)
    eps = lambda x: prog.resolve(m.module, x) == 'copulas.utils.EPSILON'
    one_minus_eps = lambda x: isinstance(x, ast.BinOp) and isinstance(x.op, ast.Sub) and const_value(x.left) in (1, 1.0) and eps(x.right)
    # masks are recognised by what they compute, not by their names
    one = zero = valid = None
    assigns = [s for s in walk_no_nested(m.node) if isinstance(s, ast.Assign) and isinstance(s.targets[0], ast.Name)]
    for s in assigns:
        v = s.value
        if isinstance(v, ast.Compare) and len(v.ops) == 1 and isinstance(v.left, ast.Name) and v.left.id == up:
            if one_minus_eps(v.comparators[0]) or const_value(v.comparators[0]) in (1, 1.0):
                one = (s.targets[0].id, s)
            elif eps(v.comparators[0]) or const_value(v.comparators[0]) in (0, 0.0):
                zero = (s.targets[0].id, s)
    for s in assigns:
        v = s.value
        if isinstance(v, ast.UnaryOp) and isinstance(v.op, ast.Invert) and one and zero:
            valid = (s.targets[0].id, s)
    if not (one and zero and valid):
        # positive evidence: an end mask built with np.isclose and its default relative tolerance (1e-5 times the reference value)
        loose = [s_ for s_ in assigns if isinstance(s_.value, ast.Call) and call_name(s_.value) in ('isclose',) and s_.value.args
                 and isinstance(s_.value.args[0], ast.Name) and s_.value.args[0].id == up
                 and (kwarg(s_.value, 'rtol', 2) is None or const_value(kwarg(s_.value, 'rtol', 2)) not in (0, 0.0))
                 and len(s_.value.args) > 1 and const_value(s_.value.args[1]) not in (0, 0.0)]
        if loose:
            rep.bad('D4.quantile', m, loose[0], f'`{short(loose[0], 70)}`: np.isclose adds rtol * |reference| = 1e-5 to the tolerance, so every probability within 1e-5 of '
                    f'{short(loose[0].value.args[1])} is treated as the end point and mapped to an infinite quantile', construct='masks')
        else:
            rep.undecided('D4.quantile', m, m.node.name, 'end / valid masks not recognised', construct='masks')
        return
    o, z, va = one[1].value, zero[1].value, valid[1].value
    rep.check('D4.quantile', m, one[1], isinstance(o.ops[0], ast.GtE) and one_minus_eps(o.comparators[0]), 'upper mask = U >= 1 - EPSILON', 'upper mask is not U >= 1 - EPSILON',
              construct='upper mask')
    rep.check('D4.quantile', m, zero[1], isinstance(z.ops[0], ast.LtE) and eps(z.comparators[0]), 'lower mask = U <= EPSILON', 'lower mask is not U <= EPSILON',
              construct='lower mask')
    good = isinstance(va.operand, ast.BinOp) and isinstance(va.operand.op, ast.BitOr) \
        and {getattr(va.operand.left, 'id', None), getattr(va.operand.right, 'id', None)} == {one[0], zero[0]}
    rep.check('D4.quantile', m, valid[1], good, 'valid mask = ~(lower mask | upper mask)', 'the valid mask is not the complement of the two end masks', construct='valid mask')
    vname = valid[0]
    # +-inf
    for (mask, _s), sign, label in ((one, 1, 'upper mask'), (zero, -1, 'lower mask')):
        st = [s for s in walk_no_nested(m.node) if isinstance(s, ast.Assign) and isinstance(s.targets[0], ast.Subscript)
              and isinstance(s.targets[0].slice, ast.Name) and s.targets[0].slice.id == mask]
        if not st:
            rep.undecided('D4.quantile', m, m.node.name, f'value stored for the {label} not found', construct=f'{label} value')
            continue
        txt = ast.unparse(st[0].value).replace(' ', '')
        good = ('inf' in txt) and (('-' in txt) == (sign < 0))
        rep.check('D4.quantile', m, st[0], good, f'{label} -> {"+" if sign > 0 else "-"}inf',
                  f'probabilities selected by the {label} are not mapped to {"+" if sign > 0 else "-"}inf', construct=f'{label} value')

    def is_valid_targets(e):
        """The targets are the probabilities selected by the valid mask (in any order: the order is D5.lanes' business)."""
        e0 = resolve(m.node, e)
        if isinstance(e0, ast.Subscript) and isinstance(e0.value, ast.Name) and e0.value.id == up and isinstance(e0.slice, ast.Name) and e0.slice.id == vname:
            return True
        from ..absint import Frame
        from ..lanekind import LaneKind
        lk = LaneKind(ctx, up, {vname})
        v = lk.value(e, Frame(m, {}, prog.cls(KDE)))
        if isinstance(v, tuple) and v and v[0] == 'lanes':
            return v[1] == 'mask:' + vname
        return None

    def solver_names(call):
        f = resolve(m.node, call.func) if isinstance(call.func, ast.Name) else call.func
        cands = [f.body, f.orelse] if isinstance(f, ast.IfExp) else [f]
        out = {prog.resolve(m.module, c) for c in cands}
        return out if out and all(x in ('copulas.optimize.bisect', 'copulas.optimize.chandrupatla') for x in out) else None

    fdefs = [f for f in prog.functions.values() if f.outer is m]
    solver_calls = [c for c in walk_no_nested(m.node) if isinstance(c, ast.Call) and solver_names(c)]
    if not solver_calls:
        rep.undecided('D4.quantile', m, m.node.name, 'no call of the vectorised root finders recognised', construct='solver calls')
    for c in solver_calls:
        nm = '/'.join(sorted(x.split('.')[-1] for x in solver_names(c)))
        f0 = c.args[0] if c.args else None
        fd = [f for f in fdefs if isinstance(f0, ast.Name) and f.name == f0.id]
        if not fd:
            rep.undecided('D4.quantile', m, c, 'root function is not a nested def', construct=f'root function of {nm}')
        else:
            rets = [n for n in walk_no_nested(fd[0].node) if isinstance(n, ast.Return)]
            ok_f = None
            if len(rets) == 1 and isinstance(rets[0].value, ast.BinOp) and isinstance(rets[0].value.op, ast.Sub):
                l, r = rets[0].value.left, rets[0].value.right
                is_cdf = isinstance(l, ast.Call) and is_self_attr(l.func, m.self_name) and l.func.attr in ('cumulative_distribution', 'cdf') \
                    and l.args and isinstance(l.args[0], ast.Name) and l.args[0].id == fd[0].params[0]
                tv = is_valid_targets(r)
                if is_cdf and tv is None:
                    rep.undecided('D4.quantile', m, c, 'what the root function subtracts from the CDF is not derived', construct=f'root function of {nm}')
                    continue
                ok_f = is_cdf and tv
                rep.check('D4.quantile', m, c, bool(ok_f), 'root function = cumulative_distribution(X) - U[valid]',
                          'the root function is not cdf(X) minus the valid targets (same mask)', construct=f'root function of {nm}')
            else:
                rep.undecided('D4.quantile', m, c, 'form of the root function not recognised', construct=f'root function of {nm}')
        sizes = []
        for a in c.args[1:3]:
            d = None
            if isinstance(a, ast.Name):
                defs = [s for s in walk_no_nested(m.node) if isinstance(s, ast.Assign) and isinstance(s.targets[0], ast.Name)
                        and s.targets[0].id == a.id and isinstance(s.value, ast.Call) and call_name(s.value) == 'full']
                d = defs[-1].value if defs else None
            if d is None or not d.args:
                sizes.append(None)
                continue
            sh = d.args[0]
            sizes.append(isinstance(sh, ast.Attribute) and sh.attr == 'shape' and is_valid_targets(sh.value))
        if any(x is None for x in sizes) or not sizes:
            rep.undecided('D4.quantile', m, c, 'construction of the brackets not recognised', construct=f'brackets of {nm}')
        else:
            rep.check('D4.quantile', m, c, all(sizes), 'brackets have the shape of U[valid]', 'the brackets are not sized by the valid mask', construct=f'brackets of {nm}')
        st = c._parent
        if isinstance(st, ast.Assign) and isinstance(st.targets[0], ast.Subscript):
            scat = isinstance(st.targets[0].slice, ast.Name) and st.targets[0].slice.id == vname
            rep.check('D4.quantile', m, st, scat, 'result scattered back through the valid mask', 'the solver result is not written back through the valid mask',
                      construct=f'scatter of {nm}')
        else:
            rep.undecided('D4.quantile', m, c, 'how the solver result is stored was not recognised', construct=f'scatter of {nm}')
    gb = kde.methods.get('_get_bounds')
    if gb is not None:
        rets = [n for n in walk_no_nested(gb.node) if isinstance(n, ast.Return) and isinstance(n.value, ast.Tuple)]
        if rets and len(rets[0].value.elts) == 2:
            lo, hi = (resolve(gb.node, e) for e in rets[0].value.elts)

            def ext(e, which):
                e = resolve(gb.node, e)
                return isinstance(e, ast.Call) and call_name(e) == which
            shape_lo = isinstance(lo, ast.BinOp) and isinstance(lo.op, (ast.Sub, ast.Add))
            shape_hi = isinstance(hi, ast.BinOp) and isinstance(hi.op, (ast.Sub, ast.Add))
            if shape_lo and shape_hi and (ext(lo.left, 'min') or ext(lo.left, 'max')) and (ext(hi.left, 'min') or ext(hi.left, 'max')):
                good = isinstance(lo.op, ast.Sub) and ext(lo.left, 'min') and isinstance(hi.op, ast.Add) and ext(hi.left, 'max')
                rep.check('D4.quantile', gb, rets[0], good, 'bounds = (min - margin, max + margin)', 'the search bounds are not (min - margin, max + margin) of the data',
                          construct='search bounds')
            else:
                rep.undecided('D4.quantile', gb, rets[0], 'form of the search bounds not recognised', construct='search bounds')


# ------------------------------------------------------------------ D7 the hand-written KDE CDF uses the estimator's own kernel
def d7_kernel(ctx, rep):
    """GaussianKDE.cumulative_distribution integrates the kernels itself (ndtr of standardised distances).  The density,
    log-density and sampler use the fitted scipy estimator, so the CDF is its integral only if it standardises by the
    estimator's own bandwidth (its covariance, which already reflects bw_method and weights), centres the kernels on the
    estimator's dataset and combines them with the estimator's weights."""
    from ..idioms import resolve
    prog = ctx.prog
    rep.rule('D7.kernel', 'the hand-written KDE CDF standardises by the fitted estimator\'s own bandwidth (self._model.covariance / inv_cov), '
             'centres the kernels on self._model.dataset and combines them with self._model.weights')
    kde = prog.cls(KDE)
    m = kde.methods.get('cumulative_distribution')
    if m is None:
        rep.undecided('D7.kernel', kde.methods.get('_fit') or next(iter(kde.methods.values())), 'GaussianKDE', 'GaussianKDE does not define cumulative_distribution itself',
                      construct='kernel CDF')
        return
    calls = [c for c in walk_no_nested(m.node) if isinstance(c, ast.Call) and (prog.resolve(m.module, c.func) or '') in (
        'scipy.special.ndtr', 'scipy.stats.norm.cdf') and c.args]
    if not calls:
        rep.undecided('D7.kernel', m, m.node.name, 'no standard-normal CDF call (ndtr / norm.cdf) in the KDE CDF: its form is not the one this rule models',
                      construct='kernel CDF')
        return

    def mentions(e, *attrs):
        """e (with locals resolved) reads self._model.<attr> for one of attrs."""
        seen, todo = set(), [e]
        while todo:
            x = todo.pop()
            for n in ast.walk(x):
                if isinstance(n, ast.Attribute) and n.attr in attrs and isinstance(n.value, ast.Attribute) and is_self_attr(n.value, m.self_name, '_model'):
                    return True
                if isinstance(n, ast.Name) and n.id not in seen and n.id not in m.params:
                    seen.add(n.id)
                    d_ = resolve(m.node, n)
                    if d_ is not n and isinstance(d_, ast.AST):
                        todo.append(d_)
        return False

    for c in calls:
        a = resolve(m.node, c.args[0])
        label = 'upper kernel sums' if any(isinstance(x, ast.Name) and x.id == m.params[1] for x in ast.walk(c.args[0])) or \
            any(isinstance(x, ast.Name) and x.id == m.params[1] for x in ast.walk(a)) else 'lower bound term'
        if not (isinstance(a, ast.BinOp) and isinstance(a.op, (ast.Div, ast.Mult))):
            rep.undecided('D7.kernel', m, c, f'`{short(c, 60)}`: the argument is not a standardised distance (difference / bandwidth)', construct=f'kernel CDF: {label}')
            continue
        num, den = a.left, a.right
        if isinstance(a.op, ast.Mult) and not isinstance(resolve(m.node, num), ast.BinOp):
            num, den = den, num
        good_bw = mentions(den, 'covariance', 'inv_cov', 'cho_cov')
        fixed_rule = any(isinstance(n, ast.Attribute) and n.attr in ('scotts_factor', 'silverman_factor') for n in ast.walk(resolve(m.node, den))) or \
            any(isinstance(n, ast.Attribute) and n.attr in ('scotts_factor', 'silverman_factor') for nm_ in ast.walk(den) if isinstance(nm_, ast.Name)
                for n in ast.walk(resolve(m.node, nm_)))
        if good_bw:
            rep.ok('D7.kernel', m, c, 'standardised by the estimator\'s covariance', construct=f'kernel CDF: {label} bandwidth')
        elif fixed_rule:
            rep.bad('D7.kernel', m, c, f'the bandwidth `{short(resolve(m.node, den), 60)}` applies a fixed rule of thumb instead of the fitted estimator\'s covariance: with bw_method '
                    '= silverman / a scalar (or with weights) the CDF is no longer the integral of probability_density', construct=f'kernel CDF: {label} bandwidth')
        else:
            rep.undecided('D7.kernel', m, c, f'where the bandwidth `{short(den, 40)}` comes from is not derived', construct=f'kernel CDF: {label} bandwidth')
        centred = mentions(num, 'dataset')
        if centred:
            rep.ok('D7.kernel', m, c, 'kernels centred on self._model.dataset', construct=f'kernel CDF: {label} centres')
        else:
            rep.undecided('D7.kernel', m, c, f'the kernel centres in `{short(num, 40)}` are not self._model.dataset', construct=f'kernel CDF: {label} centres')
    rets = [r for r in walk_no_nested(m.node) if isinstance(r, ast.Return) and r.value is not None]
    for r in rets:
        v = resolve(m.node, r.value)
        if isinstance(v, ast.Call) and isinstance(v.func, ast.Attribute) and v.func.attr in ('dot',) and v.args and mentions(v.args[0], 'weights'):
            rep.ok('D7.kernel', m, r, 'kernel CDFs combined with self._model.weights', construct='kernel CDF: weights')
        elif isinstance(v, ast.Call) and call_name(v) in ('mean', 'average') and not mentions(v, 'weights'):
            rep.bad('D7.kernel', m, r, f'`{short(v, 60)}` averages the kernels uniformly: the configured weights are ignored, unlike in probability_density',
                    construct='kernel CDF: weights')
        elif mentions(v, 'weights'):
            rep.ok('D7.kernel', m, r, 'kernel CDFs combined with self._model.weights', construct='kernel CDF: weights')
        else:
            rep.undecided('D7.kernel', m, r, 'how the kernel CDFs are combined is not recognised', construct='kernel CDF: weights')
