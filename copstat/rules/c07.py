"""C07 - copula density and conditional CDF are the derivatives of the CDF (PARTIAL)."""

import ast

from .. import contracts as K
from ..model import call_name, is_self_attr, walk_no_nested
from .c06 import FAMILIES, row_independence, shortcut_consistency, symmetry


def run(ctx, rep):
    prog = ctx.prog
    rep.trust(*K.TRUSTED_BASE_COMMON)
    rep.notes.append('C07 PARTIAL: decides that log_probability_density is the np.log composition for every family, that the '
                     'closed-form density is symmetric in (u, v) (AC normal form) and that density / conditional CDF evaluate '
                     'rows independently. h = dC/dv, c = d2C/du dv, ranges, monotonicity and integrals are identities between '
                     'real functions and are not decided by this family of technique.')
    rep.rule('D1.log', 'log_probability_density is np.log(self.probability_density(X)) and no family overrides it with something else')
    rep.rule('D2.sym', 'the closed-form density is invariant under swapping its two arguments (AC normal form)')
    rep.rule('D3.rows', 'no reduction over the batch axis influences probability_density / partial_derivative')
    rep.rule('D4.values', 'interval abstract interpretation of the closed-form density and conditional CDF over a partition of (theta, u, v): '
             'density >= 0, conditional CDF in [0,1], 0 at u=0 and 1 at u=1 are proved, refuted (definite) or left undecided per clause')
    from . import ivcases
    ivcases.refine(ctx)
    fams = ('Clayton', 'Frank', 'Gumbel', 'Independence')
    n = ivcases.run_family_clauses(ctx, rep, 'D4.values', 'partial_derivative', ivcases.h_clauses(), fams)
    n += ivcases.run_family_clauses(ctx, rep, 'D4.values', 'probability_density', ivcases.pdf_clauses())
    rep.floor('D4.values', 'family x clause evaluations', n, 15)
    base = prog.method('copulas.bivariate.base.Bivariate', 'log_probability_density', inherited=False)
    for cls in [prog.cls('copulas.bivariate.base.Bivariate')] + prog.cls('copulas.bivariate.base.Bivariate').subclasses():
        m = cls.methods.get('log_probability_density')
        if m is None:
            continue
        from ..exprnf import function_nf
        form = function_nf(prog, m, rename={m.params[1]: 'X', m.self_name: 'self'}, skip_calls=('check_fit',))
        want = ('ret', ('call', 'log', ('mcall', ('name', 'self'), 'probability_density', ('name', 'X'))))
        if 'opaque' in repr(form):
            rep.undecided('D1.log', m, m.node.name, 'the body contains a construct the normal form does not model')
        else:
            rep.check('D1.log', m, m.node.name, form == want, 'np.log(self.probability_density(X))',
                      'log_probability_density is not the logarithm of probability_density of the same points')
    rep.rule('D5.shortcut', 'an early-return shortcut of a family density / conditional CDF is the independence value (1, resp. u), unless its guard is an invalid theta')
    shortcut_consistency(ctx, rep, 'D5.shortcut', 'probability_density')
    shortcut_consistency(ctx, rep, 'D5.shortcut', 'partial_derivative')
    symmetry(ctx, rep, 'D2.sym', 'probability_density')
    row_independence(ctx, rep, 'D3.rows', ['probability_density', 'partial_derivative'])
    # the base-class finite-difference fallback perturbs a copy and is elementwise
    pd_ = prog.method('copulas.bivariate.base.Bivariate', 'partial_derivative', inherited=False)
    red = [c for c in walk_no_nested(pd_.node) if isinstance(c, ast.Call) and call_name(c) in ('all', 'any', 'sum', 'max', 'min', 'mean')]
    rep.check('D3.rows', pd_, red[0] if red else pd_.node.name, not red, 'finite-difference fallback is elementwise',
              'the finite-difference fallback reduces over the batch', construct='Bivariate.partial_derivative')
