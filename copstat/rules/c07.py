"""C07 - copula density and conditional CDF are the derivatives of the CDF (PARTIAL)."""

import ast

from .. import contracts as K
from ..model import call_name, is_self_attr, walk_no_nested
from .c06 import FAMILIES, row_independence, shortcut_consistency, symmetry


def run(ctx, rep):
    prog = ctx.prog
    rep.trust(*K.TRUSTED_BASE_COMMON)
    rep.notes.append('C07 PARTIAL: decides that log_probability_density is the np.log composition for every family, that the '
                     'closed-form density is symmetric in (u, v) (AC normal form) and that density / conditional CDF evaluate '
                     'rows independently. h = dC/dv, c = d2C/du dv, ranges, monotonicity and integrals are identities between '
                     'real functions and are not decided by this family of technique.')
    rep.rule('D1.log', 'log_probability_density is np.log(self.probability_density(X)) and no family overrides it with something else')
    rep.rule('D2.sym', 'the closed-form density is invariant under swapping its two arguments (AC normal form)')
    rep.rule('D3.rows', 'no reduction over the batch axis influences probability_density / partial_derivative')
    rep.rule('D4.values', 'interval abstract interpretation of the closed-form density and conditional CDF over a partition of (theta, u, v): '
             'density >= 0, conditional CDF in [0,1], 0 at u=0 and 1 at u=1 are proved, refuted (definite) or left undecided per clause')
    from . import ivcases
    ivcases.refine(ctx)
    fams = ('Clayton', 'Frank', 'Gumbel', 'Independence')
    n = ivcases.run_family_clauses(ctx, rep, 'D4.values', 'partial_derivative', ivcases.h_clauses(), fams)
    n += ivcases.run_family_clauses(ctx, rep, 'D4.values', 'probability_density', ivcases.pdf_clauses())
    rep.floor('D4.values', 'family x clause evaluations', n, 15)
    base = prog.method('copulas.bivariate.base.Bivariate', 'log_probability_density', inherited=False)
    for cls in [prog.cls('copulas.bivariate.base.Bivariate')] + prog.cls('copulas.bivariate.base.Bivariate').subclasses():
        m = cls.methods.get('log_probability_density')
        if m is None:
            continue
        from ..exprnf import function_nf
        form = function_nf(prog, m, rename={m.params[1]: 'X', m.self_name: 'self'}, skip_calls=('check_fit',))
        want = ('ret', ('call', 'log', ('mcall', ('name', 'self'), 'probability_density', ('name', 'X'))))
        if 'opaque' not in repr(form) and form == want:
            rep.ok('D1.log', m, m.node.name, 'np.log(self.probability_density(X))')
            continue
        # another body (an override with its own formula): refute by intervals, for every family that inherits / defines it
        from ..ivkind import IV, evaluate, log as ivlog
        wit = None
        decided_cells = 0
        fams_ = [f_ for f_, q_ in FAMILIES.items() if prog.cls(q_).lookup('log_probability_density') is m]
        cache = ctx.memo.setdefault('ivcases', {}).setdefault('dom', {})
        dom = (IV(1e-4, 1 - 1e-4), IV(1e-4, 1 - 1e-4))
        for f_ in fams_:
            k_ = prog.cls(FAMILIES[f_])
            for th in ivcases.EXACT_THETAS[f_]:
                # the bulk of the square, and the corners of the stated domain where the density is smallest
                pts = [(u0, v0) for u0 in (0.15, 0.5, 0.85) for v0 in (0.2, 0.6, 0.9)] + [(1e-4, 0.999), (0.999, 1e-4), (1e-3, 0.7)]
                for u0, v0 in pts:
                    if True:
                        u_, v_ = IV(u0, u0 + min(1e-4, u0 * 1e-2)), IV(v0, v0 + min(1e-4, v0 * 1e-2))
                        lp = evaluate(ctx, k_, 'log_probability_density', th, u_, v_, alts=True, domain=dom, domcache=cache)
                        pd2 = evaluate(ctx, k_, 'probability_density', th, u_, v_, alts=True, domain=dom, domcache=cache)
                        lp = [x for x, d_, _ in lp if d_ and isinstance(x, IV) and not x.nan]
                        pd2 = [x for x, d_, _ in pd2 if d_ and isinstance(x, IV) and not x.nan and x.lo > 0]
                        if len(lp) != 1 or len(pd2) != 1:
                            continue
                        decided_cells += 1
                        want_iv = ivlog(pd2[0])
                        tol = 1e-6 * max(1.0, abs(want_iv.lo), abs(want_iv.hi))
                        if lp[0].lo > want_iv.hi + tol or lp[0].hi < want_iv.lo - tol:
                            wit = wit or (f_, th, u_, v_, lp[0], want_iv)
        if wit:
            f_, th, u_, v_, got_iv, want_iv = wit
            rep.bad('D1.log', m, m.node.name, f'{m.short} is not the logarithm of probability_density: for {f_}, theta = {th.lo:g}, u in {u_}, v in {v_} it lies in {got_iv} '
                    f'while log(probability_density) lies in {want_iv}')
        else:
            rep.undecided('D1.log', m, m.node.name, f'{m.short} is not literally np.log(self.probability_density(X)); {decided_cells} cells evaluated, none separates the two')
    rep.rule('D5.shortcut', 'an early-return shortcut of a family density / conditional CDF is the independence value (1, resp. u), unless its guard is an invalid theta')
    shortcut_consistency(ctx, rep, 'D5.shortcut', 'probability_density')
    shortcut_consistency(ctx, rep, 'D5.shortcut', 'partial_derivative')
    symmetry(ctx, rep, 'D2.sym', 'probability_density')
    row_independence(ctx, rep, 'D3.rows', ['probability_density', 'partial_derivative'])
    # the base-class finite-difference fallback perturbs a copy and is elementwise
    pd_ = prog.method('copulas.bivariate.base.Bivariate', 'partial_derivative', inherited=False)
    red = [c for c in walk_no_nested(pd_.node) if isinstance(c, ast.Call) and call_name(c) in ('all', 'any', 'sum', 'max', 'min', 'mean')]
    rep.check('D3.rows', pd_, red[0] if red else pd_.node.name, not red, 'finite-difference fallback is elementwise',
              'the finite-difference fallback reduces over the batch', construct='Bivariate.partial_derivative')
    rep.guarded('D6.fd', finite_difference, ctx, rep)
    rep.guarded('D7.derivative', mean_value_checks, ctx, rep)
    rep.rule('D8.monotone', 'partial_derivative is non-decreasing in u (exact theta, narrow cells, refutation only)')
    ivcases.monotone_refutation(ctx, rep, 'D8.monotone', 'partial_derivative', 'non-decreasing in u')


# ------------------------------------------------------------------ D6 finite-difference fallback
def _fd_term(prog, fn, e, env, xp):
    """Small symbolic terms for the straight-line body of the finite-difference fallback."""
    if isinstance(e, ast.Constant) and isinstance(e.value, (int, float)) and not isinstance(e.value, bool):
        return ('num', float(e.value))
    if isinstance(e, ast.Name):
        if e.id in env:
            return env[e.id]
        if e.id == xp:
            return ('X',)
        from ..constfold import fold
        v = fold(prog, fn.module, e)
        return ('num', v) if v is not None else ('opaque', e.id)
    if isinstance(e, ast.UnaryOp) and isinstance(e.op, ast.USub):
        return ('neg', _fd_term(prog, fn, e.operand, env, xp))
    if isinstance(e, ast.BinOp) and type(e.op) in (ast.Add, ast.Sub, ast.Mult, ast.Div):
        return ({ast.Add: 'add', ast.Sub: 'sub', ast.Mult: 'mul', ast.Div: 'div'}[type(e.op)],
                _fd_term(prog, fn, e.left, env, xp), _fd_term(prog, fn, e.right, env, xp))
    if isinstance(e, ast.Compare):
        return ('cmp', ast.unparse(e))
    if isinstance(e, ast.Call):
        if isinstance(e.func, ast.Attribute) and e.func.attr == 'copy' and not e.args:
            return ('copy', _fd_term(prog, fn, e.func.value, env, xp))
        if call_name(e) in ('copy', 'array') and e.args and (prog.resolve(fn.module, e.func) or '').startswith('numpy.'):
            return ('copy', _fd_term(prog, fn, e.args[0], env, xp))
        if is_self_attr(e.func, fn.self_name) and e.func.attr in ('cumulative_distribution', 'cdf') and len(e.args) == 1:
            return ('cdf', _fd_term(prog, fn, e.args[0], env, xp))
        if call_name(e) in ('where',) and len(e.args) == 3:
            return ('where', ('cmp', ast.unparse(e.args[0])), _fd_term(prog, fn, e.args[1], env, xp), _fd_term(prog, fn, e.args[2], env, xp))
    if isinstance(e, ast.Attribute) and isinstance(e.value, ast.Name) and e.attr in ('values',):
        return _fd_term(prog, fn, e.value, env, xp)
    return ('opaque', ast.unparse(e)[:40])


def _fd_fold(t, truth):
    """Numeric value of a step term with every comparison taken as `truth` (1.0 / 0.0); None when not foldable."""
    k = t[0]
    if k == 'num':
        return t[1]
    if k == 'cmp':
        return truth
    if k == 'neg':
        v = _fd_fold(t[1], truth)
        return None if v is None else -v
    if k == 'where':
        return _fd_fold(t[2] if truth else t[3], truth)
    if k in ('add', 'sub', 'mul', 'div'):
        a, b = _fd_fold(t[1], truth), _fd_fold(t[2], truth)
        if a is None or b is None:
            return None
        if k == 'div':
            return a / b if b else float('inf')
        return a + b if k == 'add' else a - b if k == 'sub' else a * b
    return None


def finite_difference(ctx, rep):
    prog = ctx.prog
    rep.rule('D6.fd', 'the finite-difference fallback of the base class returns (C(x + d e_v) - C(x)) / d: the perturbed point is a copy of X with '
             'the step added to column 1 (the conditioning variable v), the same step divides the difference, and the step is non-zero and at most 1e-3')
    fn = prog.method('copulas.bivariate.base.Bivariate', 'partial_derivative', inherited=False)
    xp = fn.params[1]
    env, col, ok_shape = {}, {}, True
    ret = None
    for s in fn.body():
        if isinstance(s, ast.Expr) and isinstance(s.value, ast.Constant):
            continue
        if isinstance(s, ast.Assign) and len(s.targets) == 1 and isinstance(s.targets[0], ast.Name):
            env[s.targets[0].id] = _fd_term(prog, fn, s.value, env, xp)
        elif isinstance(s, (ast.AugAssign, ast.Assign)) and isinstance(s.targets[0] if isinstance(s, ast.Assign) else s.target, ast.Subscript):
            tgt = s.targets[0] if isinstance(s, ast.Assign) else s.target
            base = tgt.value.id if isinstance(tgt.value, ast.Name) else None
            sl = tgt.slice
            c = sl.elts[1].value if (isinstance(sl, ast.Tuple) and len(sl.elts) == 2 and isinstance(sl.elts[0], ast.Slice) and sl.elts[0].lower is None
                                     and sl.elts[0].upper is None and isinstance(sl.elts[1], ast.Constant)) else None
            if base is None or c is None:
                ok_shape = False
                break
            if isinstance(s, ast.AugAssign) and isinstance(s.op, (ast.Add, ast.Sub)):
                step = _fd_term(prog, fn, s.value, env, xp)
                if isinstance(s.op, ast.Sub):
                    step = ('neg', step)
            elif isinstance(s, ast.Assign) and isinstance(s.value, ast.BinOp) and isinstance(s.value.op, ast.Add) \
                    and ast.dump(s.value.left) == ast.dump(tgt).replace('Store()', 'Load()'):
                step = _fd_term(prog, fn, s.value.right, env, xp)
            else:
                ok_shape = False
                break
            cur = env.get(base, ('X',) if base == xp else ('opaque', base))
            env[base] = ('perturbed', cur, c, step)
            if base == xp or cur == ('X',):
                # the parameter itself (or an alias of it) is edited: every later C(X) sees the perturbed point too
                for k_, v_ in list(env.items()):
                    if v_ == ('X',):
                        env[k_] = env[base]
                env['__X_edited__'] = ('perturbed', ('X',), c, step)
        elif isinstance(s, ast.Return) and s.value is not None:
            ret = (s, _fd_term(prog, fn, s.value, env, xp))
            break
        else:
            ok_shape = False
            break
    anchor = ret[0] if ret else fn.node.name
    cons = 'Bivariate.partial_derivative: finite difference'
    if not ok_shape or ret is None:
        rep.undecided('D6.fd', fn, anchor, 'the body of the fallback is not the straight-line difference quotient the rule models', construct=cons)
        return
    t = ret[1]
    if '__X_edited__' in env:
        rep.bad('D6.fd', fn, anchor, 'the step is added to the caller\'s array itself (no copy): both evaluations see the same point and the caller\'s data are changed',
                construct=cons)
        return
    if not (t[0] == 'div' and t[1][0] == 'sub' and t[1][1][0] == 'cdf' and t[1][2][0] == 'cdf'):
        if 'opaque' in repr(t):
            rep.undecided('D6.fd', fn, anchor, f'the returned expression is not modelled ({repr(t)[:80]})', construct=cons)
        else:
            rep.bad('D6.fd', fn, anchor, 'the returned value is not (C(x\') - C(x)) / step', construct=cons)
        return
    hi, lo, d = t[1][1][1], t[1][2][1], t[2]
    if hi == ('X',) and lo[0] == 'perturbed':
        hi, lo, d = lo, hi, ('neg', d)   # (C(x) - C(x')) / (-step)
    if not (hi[0] == 'perturbed' and hi[1] == ('copy', ('X',)) and lo == ('X',)):
        rep.bad('D6.fd', fn, anchor, 'the difference is not taken between C at a perturbed copy of X and C at X', construct=cons)
        return
    _p, _b, c, step = hi
    vals = [(_fd_fold(step, tr), _fd_fold(d, tr)) for tr in (1.0, 0.0)]
    problems = []
    if c != 1:
        problems.append(f'the step is added to column {c}: that is dC/du, not the conditional CDF dC/dv')
    if any(a is None or b is None for a, b in vals):
        rep.undecided('D6.fd', fn, anchor, 'the step is not a foldable constant (times a sign selected by a comparison)', construct=cons)
        return
    for a, b in vals:
        if a == 0 or a != a or abs(a) > 1e-3:
            problems.append(f'the step takes the value {a:g}: not a small non-zero increment')
            break
    if not problems and any(abs(a - b) > 1e-18 for a, b in vals):
        problems.append(f'the difference is divided by {vals[0][1]:g} while the point moved by {vals[0][0]:g}')
    if problems:
        rep.bad('D6.fd', fn, anchor, '; '.join(problems), construct=cons)
    else:
        rep.ok('D6.fd', fn, anchor, f'(C(copy of X with column 1 moved by {vals[0][0]:g} / {vals[1][0]:g}) - C(X)) / that step', construct=cons)


# ------------------------------------------------------------------ D7 mean-value refutation of the derivative identities
def mean_value_checks(ctx, rep):
    """h = dC/dv and c = dh/du, refutation only.  For an exact theta and a point (u0, v0) the difference quotient
    (C(u0, v0 + d) - C(u0, v0)) / d equals dC/dv at some v in [v0, v0 + d] (mean value theorem); if partial_derivative is
    that derivative, the quotient lies in the interval partial_derivative takes on u0 x [v0, v0 + d].  Both sides are
    computed by the interval interpreter; disjoint intervals refute the identity on that segment.  Same for the density
    against the difference quotient of partial_derivative in u."""
    from ..ivkind import IV, evaluate
    from .ivcases import EXACT_THETAS, Q
    rep.rule('D7.derivative', 'mean-value refutation: the difference quotient of the CDF in v lies in the range of partial_derivative over the segment, '
             'and the difference quotient of partial_derivative in u lies in the range of probability_density over the segment (exact theta, refutation only)')
    k = 8 if ctx.thorough else 4
    pts = [0.05 + 0.9 * i / k for i in range(k + 1)]
    d = 1e-3
    cache = ctx.memo.setdefault('ivcases', {}).setdefault('dom', {})
    dom = (IV(1e-4, 1 - 1e-4), IV(1e-4, 1 - 1e-4))   # the other rows of a batch: the property's open unit square

    def single(cls, method, th, u, v):
        alts = evaluate(ctx, cls, method, th, u, v, alts=True, domain=dom, domcache=cache)
        vals = [x for x, definite, _ in alts if definite]
        if len(alts) == 1 and len(vals) == 1 and isinstance(vals[0], IV) and not vals[0].nan:
            return vals[0]
        return None

    for fam in ('Clayton', 'Frank', 'Gumbel'):
        cls = ctx.prog.cls(Q[fam])
        for (label, low, high, axis) in (('partial_derivative = dC/dv', 'cumulative_distribution', 'partial_derivative', 'v'),
                                         ('probability_density = d(partial_derivative)/du', 'partial_derivative', 'probability_density', 'u')):
            fn = cls.lookup(high)
            cons = f'{fam}: {label}'
            total = und = 0
            refuted = None
            for th in EXACT_THETAS[fam]:
                for u0 in pts:
                    for v0 in pts:
                        total += 1
                        if axis == 'v':
                            f1, f0 = single(cls, low, th, IV(u0), IV(v0 + d)), single(cls, low, th, IV(u0), IV(v0))
                            rng = single(cls, high, th, IV(u0), IV(v0, v0 + d))
                        else:
                            f1, f0 = single(cls, low, th, IV(u0 + d), IV(v0)), single(cls, low, th, IV(u0), IV(v0))
                            rng = single(cls, high, th, IV(u0, u0 + d), IV(v0))
                        if f1 is None or f0 is None or rng is None:
                            und += 1
                            continue
                        q = IV((f1.lo - f0.hi) / d, (f1.hi - f0.lo) / d)
                        tol = 1e-6 + 1e-6 * max(abs(rng.lo), abs(rng.hi))
                        if q.lo > rng.hi + tol or q.hi < rng.lo - tol:
                            refuted = (th, u0, v0, q, rng)
                            break
                    if refuted:
                        break
                if refuted:
                    break
            if refuted:
                th, u0, v0, q, rng = refuted
                seg = f'u = {u0:g}, v in [{v0:g}, {v0 + d:g}]' if axis == 'v' else f'u in [{u0:g}, {u0 + d:g}], v = {v0:g}'
                rep.bad('D7.derivative', fn, fn.node.name, f'{fam} theta = {th.lo:g}, {seg}: the difference quotient of {low} lies in {q} but {high} only takes values in {rng} '
                        f'on that segment: {high} is not the derivative of {low}', construct=cons)
            else:
                rep.undecided('D7.derivative', fn, fn.node.name, f'{label}: not refuted on any of {total} segments'
                              f'{" (" + str(und) + " not evaluated)" if und else ""} (an identity between functions; intervals can refute it, not prove it)', construct=cons)
