"""C14 - serialisation round trips: writer/reader agreement of to_dict / from_dict, dispatch, formats."""

import ast

from .. import contracts as K
from ..lifecycle import QUERY_METHODS, config_attrs, fitted_state, get_attr_effects
from ..model import AnalysisError, call_name, const_value, is_self_attr, kwarg, short, walk_no_nested
from .c20 import get_alias

DISPATCH_KEYS = {'type', 'tree_type', 'copula_type'}

PAIRS = [
    # (class, writer method, reader method, passthrough?)
    ('copulas.bivariate.base.Bivariate', 'to_dict', 'from_dict'),
    ('copulas.multivariate.gaussian.GaussianMultivariate', 'to_dict', 'from_dict'),
    ('copulas.multivariate.vine.VineCopula', 'to_dict', 'from_dict'),
    ('copulas.multivariate.tree.Tree', 'to_dict', 'from_dict'),
    ('copulas.multivariate.tree.Edge', 'to_dict', 'from_dict'),
]


# ------------------------------------------------------------------------------ writer side
def writer_table(ctx, fn, _depth=0):
    """{key: value expr} written into the dict returned by fn; plus the set of 'always' keys
    (written on the unfitted early-return path too)."""
    table = {}
    order = []

    def add_dict(d, always, depth=0):
        for k, v in zip(d.keys, d.values):
            if k is None and depth < 3:
                # {**other}: the entries of a dict literal bound once to a local, or of the dict a project helper returns
                from ..idioms import single_def
                src = single_def(fn.node, v.id) if isinstance(v, ast.Name) else v
                if isinstance(src, ast.Dict):
                    add_dict(src, always, depth + 1)
                elif isinstance(src, ast.Call) and _depth < 2:
                    g = None
                    if isinstance(src.func, ast.Attribute) and is_self_attr(src.func, fn.self_name) and fn.cls is not None:
                        g = fn.cls.lookup(src.func.attr)
                    elif ctx is not None:
                        g = ctx.prog.functions.get(ctx.prog.resolve(fn.module, src.func) or '')
                    if g is not None:
                        for k_, v_ in writer_table(ctx, g, _depth + 1).items():
                            if not hasattr(v_, '_owner_fn'):
                                v_._owner_fn = g
                            table[k_] = v_
                continue
            key = const_value(k)
            if isinstance(key, str):
                table[key] = v
                order.append((key, always))

    returned = set()
    for n in walk_no_nested(fn.node):
        if isinstance(n, ast.Return) and n.value is not None:
            if isinstance(n.value, ast.Dict):
                add_dict(n.value, False)
            elif isinstance(n.value, ast.Name):
                returned.add(n.value.id)
    for n in walk_no_nested(fn.node):
        if isinstance(n, ast.Assign) and len(n.targets) == 1:
            t = n.targets[0]
            if isinstance(t, ast.Name) and t.id in returned and isinstance(n.value, ast.Dict):
                add_dict(n.value, True)
            elif isinstance(t, ast.Subscript) and isinstance(t.value, ast.Name) and t.value.id in returned:
                key = const_value(t.slice)
                if isinstance(key, str):
                    table[key] = n.value
                    order.append((key, False))
        elif isinstance(n, ast.Call) and isinstance(n.func, ast.Attribute) and n.func.attr == 'update' \
                and isinstance(n.func.value, ast.Name) and n.func.value.id in returned and n.args \
                and isinstance(n.args[0], ast.Dict):
            add_dict(n.args[0], False)
        elif isinstance(n, ast.Call) and isinstance(n.func, ast.Attribute) and n.func.attr == 'update' \
                and isinstance(n.func.value, ast.Name) and n.func.value.id in returned and n.args and isinstance(n.args[0], ast.Call) and _depth < 2:
            # result.update(self._fitted_part()): the entries of the dict a project helper returns
            h = n.args[0]
            g = None
            if isinstance(h.func, ast.Attribute) and is_self_attr(h.func, fn.self_name) and fn.cls is not None:
                g = fn.cls.lookup(h.func.attr)
            elif ctx is not None:
                g = ctx.prog.functions.get(ctx.prog.resolve(fn.module, h.func) or '')
            if g is not None:
                for k_, v_ in writer_table(ctx, g, _depth + 1).items():
                    if not hasattr(v_, '_owner_fn'):
                        v_._owner_fn = g
                    table[k_] = v_
    return table


def _inline(fn, expr, depth=3):
    """Replace a local name by its single assignment (to classify writer/reader transforms)."""
    fn = getattr(expr, '_owner_fn', fn)
    from ..idioms import single_def
    seen = 0
    while isinstance(expr, ast.Name) and seen < depth:
        d = single_def(fn.node, expr.id)
        if d is None or isinstance(d, tuple):
            # `X = None; if ...: X = value` - take the non-None assignment
            from ..idioms import assignments
            vals = [a.value for a in assignments(fn.node, expr.id) if isinstance(a, ast.Assign)
                    and not (isinstance(a.value, ast.Constant) and a.value.value is None)]
            if len(vals) == 1:
                expr = vals[0]
                seen += 1
                continue
            break
        expr = d
        seen += 1
    return expr


def writer_transform(ctx, fn, expr):
    """(transform tag, self attribute the value derives from, element class for 'dicts')."""
    prog = ctx.prog
    fn = getattr(expr, '_owner_fn', fn)
    e = _inline(fn, expr)
    # `value if <present> else None`: classify the non-None alternative
    if isinstance(e, ast.IfExp):
        alts = [x for x in (e.body, e.orelse) if not (isinstance(x, ast.Constant) and x.value is None)]
        if len(alts) == 1:
            return writer_transform(ctx, fn, alts[0])
    sn = fn.self_name
    attr = None
    for n in ast.walk(e):
        if is_self_attr(n, sn):
            attr = n.attr
            break
    tag = 'id'
    elem = None
    if isinstance(e, ast.Call) and isinstance(e.func, ast.Attribute):
        if e.func.attr == 'tolist':
            inner = _inline(fn, e.func.value)
            if isinstance(inner, ast.Call) and isinstance(inner.func, ast.Attribute) and inner.func.attr in ('to_numpy',):
                tag = 'frame-tolist'
            elif isinstance(inner, ast.Attribute) and inner.attr == 'values':
                tag = 'frame-tolist'
            else:
                tag = 'tolist'
        elif e.func.attr == 'to_dict':
            tag = 'dict'
        elif is_self_attr(e.func, sn):
            # helper method: classify its return expressions
            m = fn.cls.lookup(e.func.attr) if fn.cls else None
            if m is not None:
                tags = set()
                for r in walk_no_nested(m.node):
                    if isinstance(r, ast.Return) and r.value is not None:
                        t2, a2, _ = writer_transform(ctx, m, r.value)
                        if not (isinstance(r.value, ast.Constant) and r.value.value is None):
                            tags.add(t2)
                            attr = attr or a2
                tag = tags.pop() if len(tags) == 1 else 'id'
        elif prog.resolve(fn.module, e.func) == 'copulas.utils.get_qualified_name':
            tag = 'qualname'
    elif isinstance(e, ast.Call) and prog.resolve(fn.module, e.func) == 'copulas.utils.get_qualified_name':
        tag = 'qualname'
    elif isinstance(e, ast.ListComp) and isinstance(e.elt, ast.Call) and call_name(e.elt) == 'to_dict':
        tag = 'dicts'
        for n in ast.walk(e.generators[0].iter):
            if is_self_attr(n, sn):
                attr = n.attr
    elif isinstance(expr, ast.Name) and isinstance(e, ast.List) and not e.elts:
        # name = []; for x in self.attr: name.append(x.to_dict())
        for n in walk_no_nested(fn.node):
            if isinstance(n, ast.Call) and isinstance(n.func, ast.Attribute) and n.func.attr == 'append' and isinstance(n.func.value, ast.Name) \
                    and n.func.value.id == expr.id and n.args and isinstance(n.args[0], ast.Call) and call_name(n.args[0]) == 'to_dict':
                tag = 'dicts'
                lp = n._parent._parent
                if isinstance(lp, ast.For):
                    for x in ast.walk(lp.iter):
                        if is_self_attr(x, sn):
                            attr = x.attr
    elif isinstance(e, ast.Attribute) and e.attr == 'name':
        tag = 'enum-name'
    return tag, attr, elem


# ------------------------------------------------------------------------------ reader side
class Read:
    def __init__(self, key, node, fn):
        self.key = key
        self.node = node
        self.fn = fn


def reader_keys(ctx, fn, dparam, depth=0):
    """[Read] for subscripts / get / pop of string keys on the dict parameter, following helper calls
    that receive the dict and loops over literal key lists."""
    prog = ctx.prog
    out = []
    # local copies of the dict (remaining = params.copy() / dict(params) / deepcopy(params)) are read like the dict itself
    if depth == 0 or True:
        for a in walk_no_nested(fn.node):
            if isinstance(a, ast.Assign) and len(a.targets) == 1 and isinstance(a.targets[0], ast.Name) and a.targets[0].id != dparam:
                v = a.value
                src = None
                if isinstance(v, ast.Name):
                    src = v.id
                elif isinstance(v, ast.Call) and isinstance(v.func, ast.Attribute) and v.func.attr == 'copy' and isinstance(v.func.value, ast.Name) and not v.args:
                    src = v.func.value.id
                elif isinstance(v, ast.Call) and call_name(v) in ('dict', 'deepcopy', 'copy') and len(v.args) == 1 and isinstance(v.args[0], ast.Name):
                    src = v.args[0].id
                if src == dparam and depth < 3:
                    out.extend(reader_keys(ctx, fn, a.targets[0].id, depth + 1) if a.targets[0].id != dparam else [])
    for n in walk_no_nested(fn.node):
        if isinstance(n, ast.Subscript) and isinstance(n.value, ast.Name) and n.value.id == dparam \
                and isinstance(n.ctx, ast.Load):
            key = const_value(n.slice)
            if isinstance(key, str):
                out.append(Read(key, n, fn))
            elif isinstance(n.slice, ast.Name):
                # for key in <literal list>: d[key]
                for keys in _literal_iter_values(fn, n.slice.id):
                    out.append(Read(keys, n, fn))
        elif isinstance(n, ast.Call) and isinstance(n.func, ast.Attribute) and n.func.attr in ('get', 'pop') \
                and isinstance(n.func.value, ast.Name) and n.func.value.id == dparam and n.args:
            key = const_value(n.args[0])
            if isinstance(key, str):
                out.append(Read(key, n, fn))
        elif isinstance(n, ast.Call) and depth < 2:
            for i, a in enumerate(n.args):
                if isinstance(a, ast.Name) and a.id == dparam:
                    for t in ctx.cg.targets(fn, n):
                        if t.kind == 'proj' and t.how != 'by method name' and not t.how.startswith('decorator'):
                            b = get_alias(ctx).bind(fn, n, t.fn)
                            for p, args in b.items():
                                if a in args:
                                    out.extend(reader_keys(ctx, t.fn, p, depth + 1))
    return out


def _literal_iter_values(fn, name):
    from ..idioms import assignments, single_def
    vals = []
    for a in assignments(fn.node, name):
        if isinstance(a, ast.For):
            it = a.iter
            if isinstance(it, ast.Name):
                it = single_def(fn.node, it.id)
            if isinstance(it, (ast.List, ast.Tuple)):
                vals.extend(v for v in (const_value(e) for e in it.elts) if isinstance(v, str))
    return vals


def reader_binding(ctx, fn, read):
    """(transform tag, attribute of the rebuilt instance the key is restored into)."""
    prog = ctx.prog
    n = read.node
    f = read.fn
    # climb: np.array(d[k]) / pd.DataFrame(d[k], ...) / [C.from_dict(x) for x in d[k]] / C.from_dict(d[k])
    tag = 'id'
    cur = n
    par = getattr(cur, '_parent', None)
    attr = None
    steps = 0
    while par is not None and steps < 8:
        steps += 1
        if isinstance(par, ast.Call) and cur in par.args:
            nm = prog.resolve(f.module, par.func)
            ro = _reorders(ctx, f, par, cur)
            if ro:
                read.reordered = ro
                cur = par
                par = getattr(par, '_parent', None)
                continue
            if isinstance(par.func, ast.Attribute) and par.func.attr in ('extend', 'append') and len(par.args) == 1:
                # inst.attr.extend(<restored values>) / local.extend(...) with the local bound to inst.attr
                recv = par.func.value
                if isinstance(recv, ast.Attribute):
                    attr = recv.attr
                elif isinstance(recv, ast.Name):
                    attr, _t2 = _follow_local(ctx, f, recv.id)
                break
            if nm in ('numpy.array', 'numpy.asarray'):
                tag = 'array'
            elif nm == 'pandas.DataFrame':
                tag = 'frame'
            elif isinstance(par.func, ast.Attribute) and par.func.attr == 'from_dict':
                tag = 'dict'
            elif isinstance(par.func, ast.Name) and par.func.id == 'setattr' and len(par.args) == 3 \
                    and par.args[2] is cur:
                attr = read.key
                break
            elif nm in prog.classes or (isinstance(par.func, ast.Name) and f.kind == 'classmethod'
                                        and par.func.id == f.self_name):
                # constructor argument: attribute through __init__
                cls = prog.classes.get(nm) or f.cls
                init = cls.lookup('__init__')
                if init is not None:
                    b = get_alias(ctx).bind(f, par, init)
                    for p, args in b.items():
                        if cur in args:
                            attr = _init_attr(init, p) or ('ctor:' + p)
                break
            else:
                t = [t for t in ctx.cg.targets(f, par) if t.kind == 'proj' and not t.how.startswith('decorator')
                     and t.how != 'by method name']
                if t:
                    # helper such as cls._deserialize_trees(d['trees']) -> classify by its body
                    g = t[0].fn
                    if any(isinstance(x, ast.Call) and call_name(x) == 'from_dict' for x in ast.walk(g.node)):
                        tag = 'dicts'
                    elif any(isinstance(x, ast.Call) and prog.resolve(g.module, x.func) == 'numpy.array'
                             for x in ast.walk(g.node)):
                        tag = 'array'
                    elif g.name == 'get_tree' or nm == 'copulas.multivariate.tree.get_tree':
                        attr = 'ctor:tree_type'
                        break
                    elif any(isinstance(x, ast.Call) and prog.resolve(g.module, x.func) == 'pandas.DataFrame' for x in ast.walk(g.node)):
                        tag = 'frame'
                    elif tag == 'id':
                        tag = 'unknown'
                elif isinstance(par.func, ast.Name) and par.func.id == 'map' and par.args and isinstance(par.args[0], ast.Attribute) \
                        and par.args[0].attr == 'from_dict':
                    tag = 'dicts'
                elif isinstance(par.func, ast.Name) and par.func.id in ('list', 'tuple', 'iter', 'enumerate', 'zip'):
                    pass
                elif tag == 'id' and not (isinstance(par.func, ast.Attribute) and par.func.attr in ('extend', 'append', 'update', 'get', 'pop')):
                    tag = 'unknown'
        elif isinstance(par, ast.keyword):
            cur = par
            par = getattr(par, '_parent', None)
            if isinstance(par, ast.Call):
                nm = prog.resolve(f.module, par.func)
                cls = prog.classes.get(nm) or (f.cls if isinstance(par.func, ast.Name) and par.func.id == f.self_name else None)
                if cls is not None:
                    attr = 'ctor:' + (cur.arg or '?')
                    break
                if nm == 'pandas.DataFrame' and cur.arg in ('index', 'columns'):
                    return 'label', None
            continue
        elif isinstance(par, ast.comprehension) and par.iter is cur:
            comp = par._parent
            if isinstance(comp, (ast.ListComp, ast.GeneratorExp)) and isinstance(comp.elt, ast.Call) and call_name(comp.elt) == 'from_dict':
                tag = 'dicts'
            cur = comp
            par = getattr(comp, '_parent', None)
            continue
        elif isinstance(par, ast.For) and par.iter is cur:
            # for x in d[k]: inst.attr.append(C.from_dict(x))
            for x in ast.walk(par):
                if isinstance(x, ast.Call) and isinstance(x.func, ast.Attribute) and x.func.attr == 'append' \
                        and x.args and isinstance(x.args[0], ast.Call) and call_name(x.args[0]) == 'from_dict':
                    tag = 'dicts'
                    if isinstance(x.func.value, ast.Attribute):
                        attr = x.func.value.attr
            break
        elif isinstance(par, ast.Assign):
            t = par.targets[0]
            if isinstance(t, ast.Attribute):
                attr = t.attr
            elif isinstance(t, ast.Name):
                # local: follow its uses (instance.attr = local / for x in local)
                attr, tag2 = _follow_local(ctx, f, t.id)
                if tag2 and tag == 'id':
                    tag = tag2
            break
        elif isinstance(par, (ast.If, ast.Compare, ast.BoolOp, ast.UnaryOp)):
            return 'test', None
        cur = par
        par = getattr(par, '_parent', None)
    return tag, attr


REORDERING = {'sorted', 'reversed', 'sort', 'flip', 'flipud', 'unique', 'shuffle', 'permutation', 'sort_values', 'sort_index'}


def _reorders(ctx, f, call, arg):
    """Text of the reordering when `call` returns its argument `arg` in another order: sorted / reversed / np.sort ...,
    or a project helper whose single return is such a call on the parameter `arg` is bound to."""
    prog = ctx.prog
    leaf = call_name(call)
    nm = prog.resolve(f.module, call.func) or ''
    if leaf in REORDERING and (isinstance(call.func, ast.Name) or nm.startswith('numpy.') or nm.startswith('random.')):
        return short(call.func, 30)
    t = [t for t in ctx.cg.targets(f, call) if t.kind == 'proj' and not t.how.startswith('decorator') and t.how != 'by method name']
    if len(t) == 1:
        g = t[0].fn
        rets = [r for r in walk_no_nested(g.node) if isinstance(r, ast.Return) and r.value is not None]
        b = get_alias(ctx).bind(f, call, g)
        ps = [p for p, args in b.items() if any(a is arg for a in args)]
        if len(rets) == 1 and len(ps) == 1 and isinstance(rets[0].value, ast.Call) and call_name(rets[0].value) in REORDERING \
                and rets[0].value.args and isinstance(rets[0].value.args[0], ast.Name) and rets[0].value.args[0].id == ps[0]:
            return f'{g.short} ({short(rets[0].value, 40)})'
    return None


def _follow_local(ctx, f, name):
    prog = ctx.prog
    attr, tag = None, None
    # a direct store `instance.attr = local` is the restore site; other uses of the local derive further state from it
    for n in walk_no_nested(f.node):
        if isinstance(n, ast.Assign) and isinstance(n.targets[0], ast.Attribute) and isinstance(n.value, ast.Name) and n.value.id == name:
            return n.targets[0].attr, None
    for n in walk_no_nested(f.node):
        if isinstance(n, ast.Assign) and isinstance(n.targets[0], ast.Attribute):
            names = [x for x in ast.walk(n.value) if isinstance(x, ast.Name) and x.id == name]
            if names:
                v = n.value
                # the label role of a value (index=columns) is not its restore site
                if isinstance(v, ast.Name) or not isinstance(v, ast.Call):
                    attr = n.targets[0].attr
                    if isinstance(v, ast.ListComp) and isinstance(v.elt, ast.Call) and call_name(v.elt) == 'from_dict':
                        tag = 'dicts'
                elif isinstance(v, ast.Call):
                    first = v.args[0] if v.args else None
                    if isinstance(first, ast.Name) and first.id == name:
                        attr = n.targets[0].attr
                        nm = prog.resolve(f.module, v.func)
                        tag = {'numpy.array': 'array', 'pandas.DataFrame': 'frame'}.get(nm)
                    elif isinstance(v.func, ast.Attribute) and any(x.id == name for x in ast.walk(v) if isinstance(x, ast.Name)) \
                            and not any(k.value is nn for k in v.keywords for nn in names):
                        attr = n.targets[0].attr
                        if any(isinstance(x, ast.Call) and call_name(x) == 'from_dict' for x in ast.walk(v)):
                            tag = 'dicts'
        elif isinstance(n, ast.For) and isinstance(n.iter, ast.Name) and n.iter.id == name:
            has_from = any(isinstance(x, ast.Call) and call_name(x) == 'from_dict' for x in ast.walk(n))
            for x in ast.walk(n):
                if isinstance(x, ast.Call) and isinstance(x.func, ast.Attribute) and x.func.attr == 'append' \
                        and x.args and has_from and isinstance(x.func.value, ast.Attribute):
                    tag = 'dicts'
                    attr = x.func.value.attr
        elif isinstance(n, ast.If) and isinstance(n.test, ast.Name) and n.test.id == name:
            for x in ast.walk(n):
                if isinstance(x, ast.For) and isinstance(x.iter, ast.Name) and x.iter.id == name:
                    pass
    return attr, tag


def _init_attr(init, param):
    for n in walk_no_nested(init.node):
        if isinstance(n, ast.Assign) and isinstance(n.value, ast.Name) and n.value.id == param:
            for t in n.targets:
                if is_self_attr(t, init.self_name):
                    return t.attr
    return None


COMPATIBLE = {('tolist', 'array'), ('frame-tolist', 'frame'), ('dicts', 'dicts'), ('dict', 'dict'), ('id', 'id'),
              ('enum-name', 'id'), ('qualname', 'id'), ('tolist', 'test'), ('id', 'test'), ('dicts', 'test')}


def run(ctx, rep):
    prog = ctx.prog
    rep.trust(*K.TRUSTED_BASE_COMMON, 'ndarray.tolist() <-> numpy.array(); DataFrame.to_numpy().tolist() <-> pandas.DataFrame(data, index, columns)',
              'pickle.dump/pickle.load and json.dump/json.load are inverse pairs')
    rep.notes.append('C14: decides writer/reader agreement of every to_dict/from_dict pair (keys, attributes, transforms), '
                     'completeness of the restored state, type dispatch, file-format pairing and that serialisation does not '
                     'edit the model or the caller\'s dict; bitwise equality of outputs is not computed.')
    for rid, text in (
            ('D1.keys', 'every key written by to_dict is read by from_dict (or is a dispatch tag) and every key read is written'),
            ('D2.attr', 'a key written from self.A is restored into the same attribute A'),
            ('D3.order', 'a recorded sequence is restored in the recorded order: no sorted / reversed / np.sort / .sort() on the reader side'),
            ('D3.transform', 'writer and reader transforms are inverse (tolist/np.array, to_numpy().tolist()/DataFrame, [to_dict]/[from_dict])'),
            ('D4.complete', 'every attribute the query/serialisation closure reads is restored by from_dict; every constructor option that shapes the rebuilt model is serialised'),
            ('D5.dispatch', 'the recorded type is the class from_dict must build; enum factories cover every member'),
            ('D6.format', 'save/load use inverse file formats'),
            ('D7.noedit', 'to_dict does not write into the model, from_dict does not write into the caller\'s dict'),
            ('D8.const', 'the constancy predicate used when a model is rebuilt (_is_constant) is an exact equality test, like the one fit uses (no tolerance)'),
            ('D9.pickle', 'no lambda / nested function is stored in a model attribute'),
            ('D1.passthrough', 'ScipyModel params pass through _get_params/_set_params unchanged (copy out, copy in)')):
        rep.rule(rid, text)
    n_pairs = 0
    for clsq, wname, rname in PAIRS:
        cls = prog.cls(clsq)
        w = prog.method(clsq, wname)
        r = prog.method(clsq, rname)
        n_pairs += 1
        pair(ctx, rep, cls, w, r)
    rep.floor('D1.keys', 'to_dict/from_dict pairs with explicit key tables', n_pairs, 3)
    univariate_pair(ctx, rep)
    rep.guarded('D4.d4', d4, ctx, rep)
    rep.guarded('D5.d5', d5, ctx, rep)
    rep.guarded('D6.d6', d6, ctx, rep)
    rep.guarded('D7.d7', d7, ctx, rep)
    rep.guarded('D9.d9', d9, ctx, rep)
    rep.guarded('D8.d8', d8, ctx, rep)
    rep.guarded('D10.d10', d10, ctx, rep)
    rep.guarded('D11.d11', d11, ctx, rep)


def d11(ctx, rep):
    """Unfitted models round-trip to unfitted models: where to_dict accepts an unfitted model (it does not call check_fit),
    from_dict must not run a validation that fails on the unfitted state (check_fit, or check_theta on theta = None)."""
    prog = ctx.prog
    rep.rule('D11.unfitted', 'a from_dict whose to_dict serialises unfitted models does not validate the restored state unconditionally (check_fit / check_theta '
             'raise on an unfitted model)')
    for clsq, wname, rname in PAIRS:
        cls = prog.cls(clsq)
        w, r = prog.method(clsq, wname), prog.method(clsq, rname)
        requires_fit = any(isinstance(c, ast.Call) and is_self_attr(c.func, w.self_name, 'check_fit') for c in walk_no_nested(w.node))
        if requires_fit:
            continue
        inst = {a.targets[0].id for a in walk_no_nested(r.node) if isinstance(a, ast.Assign) and isinstance(a.targets[0], ast.Name) and isinstance(a.value, ast.Call)}
        bad = None
        for c in walk_no_nested(r.node):
            if isinstance(c, ast.Call) and isinstance(c.func, ast.Attribute) and isinstance(c.func.value, ast.Name) and c.func.value.id in inst \
                    and c.func.attr in ('check_fit', 'check_theta'):
                # guarded by a test on what was restored?
                p_ = c
                guarded = False
                while p_ is not None and p_ is not r.node:
                    p_ = getattr(p_, '_parent', None)
                    if isinstance(p_, (ast.If, ast.Try)):
                        guarded = True
                if not guarded:
                    bad = c
        cons = f'{cls.name}.from_dict: unfitted round trip'
        if bad is not None:
            rep.bad('D11.unfitted', r, bad, f'{r.short} calls `{short(bad)}` unconditionally, but {w.short} also serialises unfitted models: from_dict(to_dict(m)) of an unfitted '
                    'model raises instead of yielding an unfitted model', construct=cons)
        else:
            rep.ok('D11.unfitted', r, r.node.name, 'no unconditional validation of the restored state', construct=cons)


def d10(ctx, rep):
    """JSON clause: sequences placed in the dicts of the JSON-documented models hold Python scalars, not NumPy scalars."""
    from ..nativekind import elements
    prog = ctx.prog
    rep.rule('D10.json', 'a list stored as it is in the dict of a JSON-documented model (bivariate, Gaussian multivariate, univariate) holds Python scalars: '
             'its elements do not come from iterating an ndarray (numpy.int64 / numpy.bool_ labels are refused by json)')
    n = 0
    for clsq in ('copulas.bivariate.base.Bivariate', 'copulas.multivariate.gaussian.GaussianMultivariate', 'copulas.univariate.base.Univariate'):
        w = prog.method(clsq, 'to_dict')
        for k, v in sorted(writer_table(ctx, w).items()):
            tag, attr, _ = writer_transform(ctx, w, v)
            if tag != 'id' or attr is None:
                continue
            e = _inline(w, v)
            kind = elements(ctx, w, e)
            if kind is None:
                continue
            n += 1
            rep.check('D10.json', w, v, kind == 'py', f"'{k}': elements are Python objects",
                      f"'{k}' (self.{attr}) is a list of NumPy scalars (its elements come from iterating an ndarray such as `.to_numpy()` / `.values` / `np.unique`): "
                      'for integer labels json.dumps(model.to_dict()) raises TypeError', construct=f"'{k}' element type")
    if n == 0:
        rep.undecided('D10.json', prog.method('copulas.multivariate.gaussian.GaussianMultivariate', 'to_dict'), 'to_dict',
                      'no list-valued entry whose element type could be derived', construct='element types')


def pair(ctx, rep, cls, w, r):
    wt = writer_table(ctx, w)
    dparam = r.params[1] if len(r.params) > 1 else None
    if not wt or dparam is None:
        returns_value = any(isinstance(x, ast.Return) and x.value is not None for x in walk_no_nested(w.node))
        if not returns_value:
            rep.bad('D1.keys', w, w.node.name, f'{cls.name}.to_dict returns no parameter dict: nothing can be restored from it', construct=f'{cls.name}: writer table')
        else:
            rep.undecided('D1.keys', w, w.node.name, f'{cls.name}: the keys written by to_dict (or the dict parameter of from_dict) are not derived',
                          construct=f'{cls.name}: writer table')
        return
    reads = reader_keys(ctx, r, dparam)
    rkeys = {}
    for rd in reads:
        rkeys.setdefault(rd.key, []).append(rd)
    for k, v in sorted(wt.items()):
        if k in rkeys or k in DISPATCH_KEYS:
            rep.ok('D1.keys', w, v, f"key '{k}' is read back by {r.short}" if k in rkeys else f"key '{k}' is a dispatch tag",
                   construct=f"'{k}'")
        else:
            rep.bad('D1.keys', w, v, f"key '{k}' is written by {w.short} but never read by {r.short}: the state it carries "
                    'is lost on a round trip', construct=f"'{k}'")
    for k, rds in sorted(rkeys.items()):
        if k not in wt:
            rep.bad('D1.keys', rds[0].fn, rds[0].node, f"key '{k}' is read by {r.short} but {w.short} never writes it "
                    '(KeyError or stale default on a round trip)', construct=f"'{k}'")
    for k, v in sorted(wt.items()):
        if k not in rkeys:
            continue
        wtag, wattr, _ = writer_transform(ctx, w, v)
        best = None
        for rd in rkeys[k]:
            rtag, rattr = reader_binding(ctx, w.prog.functions[rd.fn.qualname], rd)
            if rtag in ('test', 'label') and best is not None:
                continue
            if best is None or best[0] in ('test', 'label') or (best[1] is None and rattr is not None):
                best = (rtag, rattr, rd)
        rtag, rattr, rd = best
        # D2
        if wattr is not None and rattr is not None and not rattr.startswith('ctor:'):
            rep.check('D2.attr', rd.fn, rd.node, wattr == rattr,
                      f"'{k}': written from self.{wattr}, restored into .{rattr}",
                      f"'{k}' is written from self.{wattr} but restored into .{rattr}", construct=f"'{k}'")
        elif rattr is not None and rattr.startswith('ctor:'):
            rep.ok('D2.attr', rd.fn, rd.node, f"'{k}' is handed to the constructor ({rattr[5:]})", construct=f"'{k}'")
        elif rtag in ('test', 'label'):
            pass
        else:
            rep.undecided('D2.attr', rd.fn, rd.node, f"'{k}': attribute binding not derivable (writer self.{wattr}, reader {rattr})",
                          construct=f"'{k}'")
        # D3
        if rtag == 'label':
            continue
        ro = getattr(rd, 'reordered', None)
        if ro is None and rattr and not rattr.startswith('ctor:'):
            # <instance>.<attr>.sort() / .reverse() after the restore
            rf = w.prog.functions[rd.fn.qualname]
            for x in walk_no_nested(rf.node):
                if isinstance(x, ast.Call) and isinstance(x.func, ast.Attribute) and x.func.attr in ('sort', 'reverse') \
                        and isinstance(x.func.value, ast.Attribute) and x.func.value.attr == rattr and isinstance(x.func.value.value, ast.Name):
                    ro = short(x, 40)
        if ro is not None and wtag in ('dicts', 'id', 'list', 'array', 'frame'):
            rep.bad('D3.order', rd.fn, rd.node, f"'{k}' is read back through {ro}: the restored sequence is in a different order than the recorded one "
                    '(positions / indices recorded elsewhere no longer match)', construct=f"'{k}' order")
        else:
            rep.ok('D3.order', rd.fn, rd.node, f"'{k}' keeps the recorded order", construct=f"'{k}' order")
        if (wtag, rtag) in COMPATIBLE:
            rep.ok('D3.transform', rd.fn, rd.node, f"'{k}': {wtag} <-> {rtag}", construct=f"'{k}'")
        elif rtag == 'unknown':
            rep.undecided('D3.transform', rd.fn, rd.node, f"'{k}' is written as {wtag}; how it is read back (through a call that is not modelled) is not derived",
                          construct=f"'{k}'")
        else:
            rep.bad('D3.transform', rd.fn, rd.node, f"'{k}' is written as {wtag} but read back as {rtag}: the restored "
                    'attribute has a different type than the original', construct=f"'{k}'")


def univariate_pair(ctx, rep):
    prog = ctx.prog
    U = 'copulas.univariate.base.Univariate'
    S = 'copulas.univariate.base.ScipyModel'
    to_dict = prog.method(U, 'to_dict')
    from_dict = prog.method(U, 'from_dict')
    gp = prog.method(S, '_get_params')
    # _get_params returns a copy of self._params
    rets = [n for n in walk_no_nested(gp.node) if isinstance(n, ast.Return)]
    ok = len(rets) == 1 and isinstance(rets[0].value, ast.Call) and call_name(rets[0].value) in ('copy', 'dict', 'deepcopy') \
        and any(is_self_attr(x, gp.self_name, '_params') for x in ast.walk(rets[0].value))
    rep.check('D1.passthrough', gp, rets[0] if rets else gp.node.name, ok, 'returns a copy of self._params',
              'does not return (a copy of) self._params')
    # every _set_params override stores a copy of its argument into self._params
    n = 0
    for c in prog.cls(S).subclasses(strict=False):
        sp = c.methods.get('_set_params')
        if sp is None:
            continue
        n += 1
        p = sp.params[1]
        stores = [x for x in walk_no_nested(sp.node) if isinstance(x, ast.Assign) and any(
            is_self_attr(t, sp.self_name, '_params') for t in x.targets)]
        sup = [x for x in walk_no_nested(sp.node) if isinstance(x, ast.Call) and isinstance(x.func, ast.Attribute) and x.func.attr == '_set_params'
               and isinstance(x.func.value, ast.Call) and isinstance(x.func.value.func, ast.Name) and x.func.value.func.id == 'super'
               and x.args and isinstance(x.args[0], ast.Name) and x.args[0].id == p]
        if sup and not stores:
            rep.ok('D1.passthrough', sp, sup[0], 'hands its argument to the inherited _set_params')
            continue
        good = len(stores) == 1 and any(isinstance(y, ast.Name) and y.id == p for y in ast.walk(stores[0].value))
        if not stores:
            rep.undecided('D1.passthrough', sp, sp.node.name, 'no store into self._params and no super()._set_params(params) found')
        else:
            rep.check('D1.passthrough', sp, stores[0], good,
                      'stores its argument into self._params', 'does not store the given params into self._params')
    if n == 0:
        rep.undecided('D1.passthrough', gp, gp.node.name, 'no method named _set_params found', construct='_set_params')
    # from_dict: pops the tag, hands the rest to _set_params, marks fitted
    dparam = from_dict.params[1]
    calls = [c for c in walk_no_nested(from_dict.node) if isinstance(c, ast.Call) and call_name(c) == '_set_params']
    fitted = [x for x in walk_no_nested(from_dict.node) if isinstance(x, ast.Assign) and any(
        isinstance(t, ast.Attribute) and t.attr == 'fitted' for t in x.targets) and const_value(x.value) is True]
    if not calls:
        # positive evidence: the dict (or its copy) is only ever used to take the type tag out: the parameters go nowhere
        names = {dparam}
        for a_ in walk_no_nested(from_dict.node):
            if isinstance(a_, ast.Assign) and len(a_.targets) == 1 and isinstance(a_.targets[0], ast.Name) \
                    and any(isinstance(x, ast.Name) and x.id in names for x in ast.walk(a_.value)):
                v_ = a_.value
                if isinstance(v_, ast.Call) and isinstance(v_.func, ast.Attribute) and v_.func.attr in ('copy',) or (isinstance(v_, ast.Call) and call_name(v_) in ('dict', 'deepcopy')):
                    names.add(a_.targets[0].id)
        other_uses = []
        for x in walk_no_nested(from_dict.node):
            if isinstance(x, ast.Name) and x.id in names and isinstance(x.ctx, ast.Load):
                par = getattr(x, '_parent', None)
                tag_only = (isinstance(par, ast.Attribute) and par.attr in ('pop', 'get', 'copy') and isinstance(getattr(par, '_parent', None), ast.Call)) \
                    or (isinstance(par, ast.Subscript) and isinstance(const_value(par.slice), str)) or (isinstance(par, ast.Call) and call_name(par) in ('dict', 'deepcopy'))
                if not tag_only:
                    other_uses.append(x)
        if not other_uses:
            rep.bad('D1.passthrough', from_dict, from_dict.node.name, 'from_dict takes the type tag out of the dict and never hands the remaining parameters to the rebuilt model',
                    construct='from_dict')
        else:
            rep.undecided('D1.passthrough', from_dict, from_dict.node.name, 'no call of _set_params in from_dict: how the parameters are restored is not derived')
    else:
        rep.check('D1.passthrough', from_dict, calls[0], bool(fitted),
                  'hands the remaining params to _set_params and marks the instance fitted',
                  'from_dict does not restore the params / the fitted flag')
    # tag written = tag read
    wt = writer_table(ctx, to_dict)
    reads = reader_keys(ctx, from_dict, dparam)
    rep.check('D1.keys', to_dict, to_dict.node.name, 'type' in wt and any(r.key == 'type' for r in reads),
              "tag 'type' written by to_dict and consumed by from_dict", "the 'type' tag is not written/consumed",
              construct="'type'")
    extra = [r for r in reads if r.key != 'type']
    for r in extra:
        rep.bad('D1.keys', from_dict, r.node, f"from_dict reads key '{r.key}' that to_dict does not write", construct=f"'{r.key}'")


# ------------------------------------------------------------------------ D4 completeness
SERIAL_CLASSES = ['copulas.bivariate.base.Bivariate', 'copulas.multivariate.gaussian.GaussianMultivariate',
                  'copulas.multivariate.vine.VineCopula', 'copulas.multivariate.tree.Tree']


def restored_attrs(ctx, cls, reader):
    """Attributes set on the rebuilt instance by from_dict (directly, via setattr loops, via __init__)."""
    out = set()
    inst_names = set()
    for n in walk_no_nested(reader.node):
        if isinstance(n, ast.Assign) and isinstance(n.targets[0], ast.Name) and isinstance(n.value, ast.Call):
            inst_names.add(n.targets[0].id)
    for n in walk_no_nested(reader.node):
        if isinstance(n, ast.Assign):
            for t in n.targets:
                if isinstance(t, ast.Attribute) and isinstance(t.value, ast.Name) and t.value.id in inst_names:
                    out.add(t.attr)
        elif isinstance(n, ast.Call) and isinstance(n.func, ast.Name) and n.func.id == 'setattr' and len(n.args) == 3:
            k = n.args[1]
            if isinstance(k, ast.Constant):
                out.add(k.value)
            elif isinstance(k, ast.Name):
                out.update(_literal_iter_values(reader, k.id))
    # instance.<helper>(...): whatever the helper (and what it calls on self) writes
    fx = get_attr_effects(ctx)
    for n in walk_no_nested(reader.node):
        if isinstance(n, ast.Call) and isinstance(n.func, ast.Attribute) and isinstance(n.func.value, ast.Name) and n.func.value.id in inst_names:
            m = cls.lookup(n.func.attr)
            if m is not None and m.kind == 'method':
                _r, w = fx.transitive(m, cls)
                out.update(w)
    init = cls.lookup('__init__')
    if init is not None and init.self_name:
        for n in walk_no_nested(init.node):
            if isinstance(n, ast.Assign):
                for t in n.targets:
                    if is_self_attr(t, init.self_name):
                        out.add(t.attr)
    return out


def restored_values(ctx, cls, reader, attr):
    """Value expressions from_dict (or a helper it calls on the instance) assigns to <instance>.<attr>; None when a
    write exists whose value is not an expression in sight (setattr loop)."""
    vals = []
    inst_names = {n.targets[0].id for n in walk_no_nested(reader.node)
                  if isinstance(n, ast.Assign) and isinstance(n.targets[0], ast.Name) and isinstance(n.value, ast.Call)}
    for n in walk_no_nested(reader.node):
        if isinstance(n, ast.Assign):
            for t in n.targets:
                if isinstance(t, ast.Attribute) and isinstance(t.value, ast.Name) and t.value.id in inst_names and t.attr == attr:
                    vals.append(n.value)
        elif isinstance(n, ast.Call) and isinstance(n.func, ast.Name) and n.func.id == 'setattr' and len(n.args) == 3:
            k = n.args[1]
            if (isinstance(k, ast.Constant) and k.value == attr) or (isinstance(k, ast.Name) and attr in _literal_iter_values(reader, k.id)):
                return None
            if not isinstance(k, (ast.Constant, ast.Name)):
                return None
        elif isinstance(n, ast.Call) and isinstance(n.func, ast.Attribute) and isinstance(n.func.value, ast.Name) and n.func.value.id in inst_names:
            m = cls.lookup(n.func.attr)
            if m is not None and m.kind == 'method':
                fx = get_attr_effects(ctx)
                _r, w = fx.transitive(m, cls)
                for f, node in w.get(attr, ()):
                    st = node
                    while st is not None and not isinstance(st, ast.stmt):
                        st = getattr(st, '_parent', None)
                    if isinstance(st, ast.Assign):
                        vals.append(st.value)
                    else:
                        return None
            elif m is None and n.func.attr not in ('append', 'extend'):
                pass
    return vals


def d4(ctx, rep):
    prog = ctx.prog
    fx = get_attr_effects(ctx)
    for clsq in SERIAL_CLASSES:
        cls = prog.cls(clsq)
        reader = cls.lookup('from_dict')
        rest = restored_attrs(ctx, cls, reader)
        need = {}
        for k in cls.subclasses(strict=False):
            for name in QUERY_METHODS + ('to_dict', 'get_adjacent_matrix'):
                m = k.lookup(name)
                if m is None or m.kind != 'method':
                    continue
                reads, _w = fx.transitive(m, k)
                for a, sites in reads.items():
                    if k.lookup(a) is not None:
                        continue  # a method
                    if k.lookup_attr(a) is not None and a not in fitted_state(ctx, k):
                        continue  # class-level constant that fit never writes
                    need.setdefault(a, sites[0])
        for a, (f, node) in sorted(need.items()):
            rep.check('D4.complete', f, node, a in rest,
                      f'self.{a} (read by {f.short}) is restored by {reader.short}',
                      f'self.{a} is read by {f.short} but {reader.short} never restores it: the rebuilt model fails or '
                      'behaves differently', construct=f'{cls.name}.{a}')
        # the fitted flag: a class whose check_fit tests self.fitted must come back fitted
        cf = cls.lookup('check_fit')
        if cf is not None and cf.kind == 'method':
            r_, _w = fx.transitive(cf, cls)
            if 'fitted' in r_:
                vals = restored_values(ctx, cls, reader, 'fitted')
                if vals is None:
                    rep.undecided('D4.complete', reader, reader.node.name, 'the value restored into .fitted is not an expression in sight', construct=f'{cls.name}.fitted flag')
                elif not vals or all(isinstance(v, ast.Constant) and not v.value for v in vals):
                    rep.bad('D4.complete', reader, vals[0] if vals else reader.node.name,
                            f'{reader.short} never marks the rebuilt model as fitted (check_fit tests self.fitted): every query on from_dict(to_dict(m)) raises NotFittedError',
                            construct=f'{cls.name}.fitted flag')
                else:
                    rep.ok('D4.complete', reader, vals[0], 'the rebuilt model is marked fitted (True, or the recorded flag)', construct=f'{cls.name}.fitted flag')
    # constructor options that shape the model when it is rebuilt or queried must be serialised
    root = prog.cls('copulas.univariate.base.ScipyModel')
    from_dict = prog.method('copulas.univariate.base.Univariate', 'from_dict')
    n = 0
    for k in root.subclasses(strict=False):
        cfgs = config_attrs(ctx, k)
        cfgs.pop('random_state', None)
        if not cfgs:
            continue
        closure_roots = [k.lookup(nm) for nm in QUERY_METHODS + ('_set_params', '_get_params', 'to_dict')]
        closure_roots = [m for m in closure_roots if m is not None and m.kind == 'method']
        seen_attr = set()
        for m in closure_roots:
            reads, _w = fx.transitive(m, k)
            for a in cfgs:
                if a in seen_attr or a not in reads:
                    continue
                # a read that only feeds an assignment to the same attribute does not shape the model
                real = []
                for f, node in reads[a]:
                    st = node
                    while not isinstance(st, ast.stmt):
                        st = st._parent
                    if isinstance(st, ast.Assign) and all(is_self_attr(t, f.self_name, a) for t in st.targets):
                        continue
                    if isinstance(st, ast.If) and (st.body + st.orelse) and all(
                            isinstance(b, ast.Assign) and all(is_self_attr(t, f.self_name, a) for t in b.targets) for b in st.body + st.orelse):
                        continue  # `if not self.a: self.a = default`: the same defaulting, written as a statement
                    real.append((f, node))
                if not real:
                    continue
                seen_attr.add(a)
                n += 1
                f, node = real[0]
                # serialised? the option would have to appear in the dict written by to_dict / _get_params
                written = set(writer_table(ctx, k.lookup('to_dict')))
                gp = k.lookup('_get_params')
                mentions = any(is_self_attr(x, gp.self_name, a) for x in ast.walk(gp.node)) if gp else False
                rep.check('D4.complete', f, node, mentions or a in written,
                          f'constructor option self.{a} is serialised',
                          f'{k.name}: constructor option self.{a} shapes the rebuilt model ({f.short}) but is not serialised: '
                          'from_dict(to_dict(m)) silently uses the default', construct=f'{k.name}.{a}', func=k.qualname.replace('copulas.', '', 1))
    rep.extra['config_options_shaping_queries'] = n


# ---------------------------------------------------------------------------- D5 dispatch
def d5(ctx, rep):
    prog = ctx.prog
    GQ = 'copulas.utils.get_qualified_name'
    # tags
    for clsq, expect in (('copulas.univariate.base.Univariate', None),
                         ('copulas.multivariate.gaussian.GaussianMultivariate', 'self'),
                         ('copulas.multivariate.vine.VineCopula', 'self'),
                         ('copulas.multivariate.tree.Tree', 'self')):
        w = prog.method(clsq, 'to_dict')
        wt = writer_table(ctx, w)
        if 'type' not in wt:
            rep.bad('D5.dispatch', w, w.node.name, "no 'type' tag written", construct="'type'")
            continue
        sn = w.self_name
        if expect == 'self':
            v = wt['type']
            good = isinstance(v, ast.Call) and prog.resolve(w.module, v.func) == GQ and v.args \
                and isinstance(v.args[0], ast.Name) and v.args[0].id == sn
            rep.check('D5.dispatch', w, v, good, "'type' = get_qualified_name(self)",
                      "'type' does not name the class of the serialised object", construct="'type'")
        else:
            # the selecting wrapper must record the selected family, every other class itself
            stores = [n for n in walk_no_nested(w.node) if isinstance(n, ast.Assign) and isinstance(n.targets[0], ast.Subscript)
                      and const_value(n.targets[0].slice) == 'type']
            from ..idioms import guard_chain
            seen = set()
            for st in stores:
                v = st.value
                arg = v.args[0] if isinstance(v, ast.Call) and prog.resolve(w.module, v.func) == GQ and v.args else None
                gs = guard_chain(st, w.node)
                is_wrapper = None
                for test, pol in gs:
                    if isinstance(test, ast.Compare) and len(test.ops) == 1 and isinstance(test.ops[0], (ast.Is, ast.Eq)) \
                            and any(isinstance(x, ast.Name) and x.id == 'Univariate' for x in ast.walk(test)):
                        is_wrapper = pol
                if is_wrapper is True:
                    good = is_self_attr(arg, sn, '_instance')
                    seen.add('wrapper')
                    rep.check('D5.dispatch', w, st, good, "wrapper records the selected family (self._instance)",
                              'the selecting wrapper does not record the family it selected')
                elif is_wrapper is False:
                    good = isinstance(arg, ast.Name) and arg.id == sn
                    seen.add('self')
                    rep.check('D5.dispatch', w, st, good, 'concrete families record themselves',
                              'a concrete family records a type other than its own')
                else:
                    rep.undecided('D5.dispatch', w, st, 'tag guard not recognised')
            if seen != {'wrapper', 'self'}:
                rep.undecided('D5.dispatch', w, w.node.name, f'tag branches found: {sorted(seen)}', construct='type branches')
    # dispatchers
    for q in ('copulas.multivariate.base.Multivariate.from_dict', 'copulas.univariate.base.Univariate.from_dict'):
        f = prog.func(q)
        d = f.params[1]
        gi = [c for c in walk_no_nested(f.node) if isinstance(c, ast.Call) and prog.resolve(f.module, c.func) == 'copulas.utils.get_instance']
        good = False
        for c in gi:
            a = c.args[0] if c.args else None
            if isinstance(a, ast.Name):
                from ..idioms import single_def
                d_ = single_def(f.node, a.id)
                a = d_ if isinstance(d_, ast.AST) else a
            if isinstance(a, ast.Subscript) and const_value(a.slice) == 'type':
                good = True
            if isinstance(a, ast.Call) and call_name(a) in ('pop', 'get') and a.args and const_value(a.args[0]) == 'type':
                good = True
        fixed = [c for c in walk_no_nested(f.node) if isinstance(c, ast.Call) and isinstance(c.func, ast.Attribute) and c.func.attr == 'from_dict'
                 and (prog.resolve(f.module, c.func.value) or '') in prog.classes]
        if not gi and fixed:
            rep.bad('D5.dispatch', f, fixed[0], f"rebuilds every dict as {short(fixed[0].func.value, 40)}: the recorded 'type' is ignored")
        elif not gi:
            rep.undecided('D5.dispatch', f, f.node.name, 'no get_instance(...) call found in the dispatcher')
        else:
            rep.check('D5.dispatch', f, gi[0], good, "dispatches on the recorded 'type'",
                      "does not build the instance from the recorded 'type'")
    # enum exhaustiveness
    enum = prog.cls('copulas.bivariate.base.CopulaTypes')
    members = [n for n in enum.attrs]
    biv = prog.cls('copulas.bivariate.base.Bivariate')
    owners = {}
    for c in biv.subclasses():
        v = c.attrs.get('copula_type')
        if isinstance(v, ast.Attribute):
            owners.setdefault(v.attr, []).append(c.name)
    for m in members:
        rep.check('D5.dispatch', 'bivariate.base.Bivariate.__new__', None, len(owners.get(m, [])) == 1,
                  f'CopulaTypes.{m} -> {owners.get(m)}', f'CopulaTypes.{m} has {len(owners.get(m, []))} implementing '
                  'subclasses: Bivariate(copula_type=...) returns None or the wrong class', construct=f'CopulaTypes.{m}')
    tenum = prog.cls('copulas.multivariate.tree.TreeTypes')
    gt = prog.func('copulas.multivariate.tree.get_tree')
    # for each member M: under `tree_type == TreeTypes.M` (and no other member), which return is taken and what does it build?
    from ..boolcond import Conds, atoms_of, satisfiable, substitute
    import re as _re
    tp = gt.params[0] if gt.params else 'tree_type'
    cd = Conds(prog, gt)
    _normal, _rs, rets_ = cd.exits()
    member_atoms = {}
    for _st, c_ in rets_:
        for k in atoms_of(c_):
            m_ = _re.match(r'eq\[(.+)\|(.+)\]$', k)
            if m_:
                for side in m_.groups():
                    mm = _re.match(r'TreeTypes\.([A-Z_]+)$', side)
                    if mm and tp in m_.groups():
                        member_atoms[k] = mm.group(1)

    def built_class(ret):
        v = ret.value
        clsq = prog.resolve(gt.module, v.func) if isinstance(v, ast.Call) else None
        if clsq not in prog.classes and isinstance(v, ast.Call) and isinstance(v.func, ast.Name):
            from ..idioms import single_def
            d_ = single_def(gt.node, v.func.id)
            clsq = prog.resolve(gt.module, d_) if isinstance(d_, ast.AST) else None
        return prog.classes.get(clsq)

    # dispatch through a lookup table `{TreeTypes.CENTER: CenterTree, ...}[member]()` defined at module level and subscripted in get_tree
    table = None
    if not member_atoms:
        for st_ in gt.module.tree.body:
            if isinstance(st_, ast.Assign) and len(st_.targets) == 1 and isinstance(st_.targets[0], ast.Name) and isinstance(st_.value, ast.Dict) and st_.value.keys \
                    and all(isinstance(k_, ast.Attribute) and (prog.resolve(gt.module, k_.value) or '') == tenum.qualname for k_ in st_.value.keys):
                used = [x for x in walk_no_nested(gt.node) if isinstance(x, ast.Subscript) and isinstance(x.value, ast.Name) and x.value.id == st_.targets[0].id]
                called = [x for x in used if isinstance(getattr(x, '_parent', None), ast.Call) and x._parent.func is x]
                from ..idioms import single_def as _sd
                via_local = [x for x in used if isinstance(getattr(x, '_parent', None), ast.Assign) and isinstance(x._parent.targets[0], ast.Name)
                             and any(isinstance(c_, ast.Call) and isinstance(c_.func, ast.Name) and c_.func.id == x._parent.targets[0].id for c_ in walk_no_nested(gt.node))]
                if called or via_local:
                    table = (st_, {k_.attr: v_ for k_, v_ in zip(st_.value.keys, st_.value.values)})
    if table is not None:
        for m in tenum.attrs:
            cons = f'TreeTypes.{m}'
            v_ = table[1].get(m)
            c = prog.classes.get(prog.resolve(gt.module, v_) or '') if v_ is not None else None
            if v_ is None:
                rep.bad('D5.dispatch', gt, table[0], f'the dispatch table of get_tree has no entry for TreeTypes.{m}: get_tree raises KeyError for it', construct=cons)
            elif c is None:
                rep.undecided('D5.dispatch', gt, table[0], f'what the dispatch table holds for TreeTypes.{m} is not a project class in sight', construct=cons)
            else:
                tt = c.attrs.get('tree_type')
                rep.check('D5.dispatch', gt, table[0], isinstance(tt, ast.Attribute) and tt.attr == m, f'TreeTypes.{m} -> {c.name} (lookup table)',
                          f'for TreeTypes.{m} the dispatch table of get_tree holds {c.name}, whose tree_type is {short(tt) if tt is not None else None}', construct=cons)
        return
    for m in tenum.attrs:
        cons = f'TreeTypes.{m}'
        if not member_atoms:
            rep.undecided('D5.dispatch', gt, gt.node.name, 'dispatch of get_tree not recognised (no comparison of the argument with a TreeTypes member)', construct=cons)
            continue
        env = {k: (mem == m) for k, mem in member_atoms.items()}
        for k in {a_ for _s, c_ in rets_ for a_ in atoms_of(c_)}:
            if k.startswith('isinstance[') and 'TreeTypes' in k:
                env[k] = True
        taken = [(st_, substitute(c_, env)) for st_, c_ in rets_ if st_.value is not None]
        sure = [st_ for st_, f_ in taken if f_ is True]
        maybe = [st_ for st_, f_ in taken if f_ is not True and f_ is not False and satisfiable(f_)]
        if len(sure) == 1 and not maybe:
            c = built_class(sure[0])
            tt = c.attrs.get('tree_type') if c else None
            if c is None:
                rep.undecided('D5.dispatch', gt, sure[0], f'what get_tree builds for TreeTypes.{m} is not a project class in sight', construct=cons)
            else:
                rep.check('D5.dispatch', gt, sure[0], isinstance(tt, ast.Attribute) and tt.attr == m, f'TreeTypes.{m} -> {c.name}',
                          f'for TreeTypes.{m} get_tree returns {c.name}, whose tree_type is {short(tt) if tt is not None else None}', construct=cons)
        elif not sure and not maybe:
            rep.bad('D5.dispatch', gt, gt.node.name, f'for TreeTypes.{m} no return of get_tree is reached: it returns None and from_dict / train_vine fail', construct=cons)
        else:
            rep.undecided('D5.dispatch', gt, gt.node.name, f'which return is taken for TreeTypes.{m} depends on conditions that are not member tests', construct=cons)


# ------------------------------------------------------------------------------ D6 formats
def d6(ctx, rep):
    prog = ctx.prog
    for clsq in ('copulas.univariate.base.Univariate', 'copulas.multivariate.base.Multivariate',
                 'copulas.bivariate.base.Bivariate'):
        s = prog.method(clsq, 'save')
        l = prog.method(clsq, 'load')

        def io(fn):
            dump = [c for c in walk_no_nested(fn.node) if isinstance(c, ast.Call)
                    and (prog.resolve(fn.module, c.func) or '').split('.')[0] in ('pickle', 'json')]
            op = [c for c in walk_no_nested(fn.node) if isinstance(c, ast.Call) and isinstance(c.func, ast.Name) and c.func.id == 'open']
            mode = None
            if op:
                m = kwarg(op[0], 'mode', 1)
                mode = const_value(m) if m is not None else 'r'
            return dump, mode
        sd, smode = io(s)
        ld, lmode = io(l)
        if not sd or not ld:
            rep.undecided('D6.format', s, s.node.name, 'dump/load calls not found', construct=f'{clsq.split(".")[-1]} save/load')
            continue
        sn_, ln_ = prog.resolve(s.module, sd[0].func), prog.resolve(l.module, ld[0].func)
        same_mod = sn_.split('.')[0] == ln_.split('.')[0] and sn_.endswith('.dump') and ln_.endswith('.load')
        binary_ok = ('b' in (smode or '')) == ('b' in (lmode or '')) and 'w' in (smode or '') and 'w' not in (lmode or 'r')
        rep.check('D6.format', s, sd[0], same_mod and binary_ok, f'{sn_} ({smode}) <-> {ln_} ({lmode})',
                  f'save uses {sn_} mode {smode!r}, load uses {ln_} mode {lmode!r}', construct=f'{clsq.split(".")[-1]} save/load')
        if sn_.startswith('json'):
            payload = sd[0].args[0] if sd[0].args else None
            from ..idioms import single_def
            if isinstance(payload, ast.Name):
                payload = single_def(s.node, payload.id)
            good = isinstance(payload, ast.Call) and call_name(payload) == 'to_dict'
            rets = [n for n in walk_no_nested(l.node) if isinstance(n, ast.Return)]
            good2 = bool(rets) and isinstance(rets[0].value, ast.Call) and call_name(rets[0].value) == 'from_dict'
            rep.check('D6.format', l, rets[0] if rets else l.node.name, good and good2,
                      'json.dump(to_dict()) <-> from_dict(json.load())', 'the JSON payload is not to_dict()/from_dict()',
                      construct='json payload')
            # what is written is to_dict() as it is: no entry replaced / removed / added between to_dict() and dump (same on the load side)
            for fn_, call_, label in ((s, sd[0], 'saved'), (l, ld[0], 'loaded')):
                var = call_.args[0] if (label == 'saved' and call_.args and isinstance(call_.args[0], ast.Name)) else None
                if label == 'loaded':
                    st_ = call_
                    while st_ is not None and not isinstance(st_, ast.stmt):
                        st_ = getattr(st_, '_parent', None)
                    var = st_.targets[0] if isinstance(st_, ast.Assign) and isinstance(st_.targets[0], ast.Name) else None
                if var is None:
                    continue
                edits = []
                for x in walk_no_nested(fn_.node):
                    if isinstance(x, (ast.Assign, ast.AugAssign, ast.Delete)):
                        tg = x.targets if isinstance(x, (ast.Assign, ast.Delete)) else [x.target]
                        edits += [x for t in tg if isinstance(t, ast.Subscript) and isinstance(t.value, ast.Name) and t.value.id == var.id]
                    elif isinstance(x, ast.Call) and isinstance(x.func, ast.Attribute) and isinstance(x.func.value, ast.Name) and x.func.value.id == var.id \
                            and x.func.attr in ('update', 'pop', 'popitem', 'clear', 'setdefault', '__setitem__', '__delitem__'):
                        edits.append(x)
                if edits:
                    rep.bad('D6.format', fn_, edits[0], f'the {label} dict is edited (`{short(edits[0], 60)}`) between {"to_dict() and json.dump" if label == "saved" else "json.load and from_dict"}: '
                            'load(save(m)) no longer has the parameters of m', construct=f'json payload {label} unchanged')
                else:
                    rep.ok('D6.format', fn_, call_, f'the {label} dict is passed on unchanged', construct=f'json payload {label} unchanged')
        else:
            payload = sd[0].args[0] if sd[0].args else None
            rep.check('D6.format', s, sd[0], isinstance(payload, ast.Name) and payload.id == s.self_name,
                      'pickles the model itself', 'pickles something other than the model', construct='pickle payload')


# ---------------------------------------------------------------------------- D7 no edit
def d7(ctx, rep):
    prog = ctx.prog
    aa = get_alias(ctx)
    n = 0
    for c in prog.classes.values():
        for name in ('to_dict', '_get_params'):
            m = c.methods.get(name)
            if m is None:
                continue
            n += 1
            sm = aa.summaries[m.qualname]
            muts = [(a, mu) for a, ms in sm.mut_self.items() for mu in ms]
            if muts:
                for a, mu in muts:
                    rep.bad('D7.noedit', m, m.node.name, f'serialising writes into self.{a} in place',
                            construct=f'self.{a}: {mu.terminal}', path=' -> '.join(mu.path))
            else:
                rep.ok('D7.noedit', m, m.node.name, 'no in-place write reaches an attribute of self', construct=f'def {name}')
        for name in ('from_dict', '_set_params'):
            m = c.methods.get(name)
            if m is None:
                continue
            n += 1
            sm = aa.summaries[m.qualname]
            bad = False
            for p in m.data_params:
                for mu in sm.mut_params.get(p, []):
                    bad = True
                    rep.bad('D7.noedit', m, m.node.name, f"writes into the caller's `{p}`",
                            construct=f'{p}: {mu.terminal}', path=' -> '.join(mu.path))
            # the rebuilt model must not keep the caller's dict itself as its parameter store
            for attr, origins in sm.stores.items():
                for o in origins:
                    if o[0] == 'P' and o[1] in m.data_params and name == '_set_params':
                        bad = True
                        rep.bad('D7.noedit', m, m.node.name, f"stores the caller's `{o[1]}` object itself in self.{attr} "
                                '(later edits of the model write through to the caller\'s dict)',
                                construct=f'self.{attr} <- {o[1]}')
            if not bad:
                rep.ok('D7.noedit', m, m.node.name, "the caller's dict is not written", construct=f'def {name}')
    rep.floor('D7.noedit', 'serialisation methods', n, 8)


# ------------------------------------------------------------------- D8 constancy predicate
TOLERANT = {'allclose', 'isclose', 'approx', 'assert_allclose', 'ptp', 'std', 'var'}


def d8(ctx, rep):
    prog = ctx.prog
    n = 0
    for c in prog.classes.values():
        m = c.methods.get('_is_constant')
        if m is None:
            continue
        n += 1
        rets = [r for r in walk_no_nested(m.node) if isinstance(r, ast.Return) and r.value is not None]
        bad = None
        for r in rets:
            v = r.value
            for x in ast.walk(v):
                if isinstance(x, ast.Call) and call_name(x) in TOLERANT:
                    bad = (x, f'{call_name(x)}() is a tolerance test')
                if isinstance(x, ast.Compare) and any(isinstance(o, (ast.Lt, ast.LtE, ast.Gt, ast.GtE)) for o in x.ops):
                    bad = bad or (x, 'an inequality (threshold) test')
            if not (isinstance(v, ast.Compare) and len(v.ops) == 1 and isinstance(v.ops[0], ast.Eq)) and bad is None:
                bad = ('undecided', v)
        if bad is None:
            rep.ok('D8.const', m, m.node.name, 'exact equality test', construct='def _is_constant')
        elif bad[0] == 'undecided':
            rep.undecided('D8.const', m, bad[1], 'form of the constancy predicate not recognised', construct='def _is_constant')
        else:
            rep.bad('D8.const', m, bad[0], f'{bad[1]}: fit decides constancy exactly (one unique value), so a non-constant model whose '
                    'parameters fall inside the tolerance is rebuilt as a point mass by from_dict', construct='def _is_constant')
    if n == 0:
        rep.undecided('D8.const', prog.cls('copulas.univariate.base.Univariate').methods.get('fit') or next(iter(prog.functions.values())), 'Univariate', 'no method named _is_constant found', construct='def _is_constant')
    # fit side: exact test
    cc = prog.method('copulas.univariate.base.Univariate', '_check_constant_value')
    tolerant = [x for x in ast.walk(cc.node) if isinstance(x, ast.Call) and call_name(x) in TOLERANT]
    counts_unique = any(isinstance(x, ast.Compare) and len(x.ops) == 1 and isinstance(x.ops[0], (ast.Eq, ast.NotEq, ast.Gt, ast.Lt, ast.GtE, ast.LtE))
                        and const_value(x.comparators[0]) in (1, 2) and isinstance(x.left, (ast.Call, ast.Name)) for x in ast.walk(cc.node)) and any(
        isinstance(x, ast.Call) and call_name(x) in ('unique', 'nunique') for x in ast.walk(cc.node))
    if tolerant:
        rep.bad('D8.const', cc, tolerant[0], f'fit decides constancy with {call_name(tolerant[0])}(), a tolerance test: data that is not constant is fitted as a point mass',
                construct='fit-side constancy test')
    elif counts_unique:
        # polarity: the predicate is true for one unique value and false for two or more
        from ..boolcond import Conds, atoms_of, evaluate as bc_eval, f_and, f_or
        cd = Conds(prog, cc)
        _normal, _raises, rets_ = cd.exits()
        true_f = []
        recognised = True
        for st_, cond_ in rets_:
            v_ = st_.value
            if isinstance(v_, ast.Constant) and isinstance(v_.value, bool):
                if v_.value:
                    true_f.append(cond_)
            elif v_ is not None:
                true_f.append(f_and(cond_, cd.formula(v_)))
            else:
                recognised = False
        f_true = f_or(*true_f) if true_f else False

        def env_for(n_unique):
            env = {}
            for k_ in atoms_of(f_true):
                body = k_[3:-1] if k_[:3] in ('eq[', 'lt[') else None
                if body is None or '|' not in body:
                    return None
                a_, b_ = body.split('|', 1)

                def val(t_):
                    try:
                        return float(t_)
                    except ValueError:
                        pass
                    if 'nunique' in t_ or ('unique' in t_ and t_.startswith('len(')):
                        return float(n_unique)
                    import re as _re
                    m_ = _re.match(r'len\(([A-Za-z_][A-Za-z_0-9]*)\)$', t_)
                    if m_:
                        from ..idioms import single_def
                        d_ = single_def(cc.node, m_.group(1))
                        if isinstance(d_, ast.Call) and call_name(d_) in ('unique',):
                            return float(n_unique)
                    return None
                x_, y_ = val(a_), val(b_)
                if x_ is None or y_ is None:
                    return None
                env[k_] = (x_ == y_) if k_.startswith('eq[') else (x_ < y_)
            return env
        envs = {n_: env_for(n_) for n_ in (1, 2, 7)}
        if not recognised or any(e_ is None for e_ in envs.values()):
            rep.undecided('D8.const', cc, cc.node.name, 'the condition under which fit treats the data as constant is not a test on the number of unique values alone',
                          construct='fit-side constancy test')
        else:
            got = {n_: bool(bc_eval(f_true, e_)) if f_true not in (True, False) else bool(f_true) for n_, e_ in envs.items()}
            rep.check('D8.const', cc, cc.node.name, got == {1: True, 2: False, 7: False}, 'fit: constant iff exactly one unique value',
                      f'fit treats the data as constant for {[n_ for n_, g_ in got.items() if g_]} unique value(s) (of 1, 2, 7 tried symbolically): '
                      'the point-mass model is used for the wrong data', construct='fit-side constancy test')
    else:
        rep.bad('D8.const', cc, cc.node.name, 'fit no longer decides constancy by counting the unique values', construct='fit-side constancy test') if any(
            isinstance(x, ast.Call) and call_name(x) in ('min', 'max', 'std', 'var', 'ptp', 'all') for x in ast.walk(cc.node)) else \
            rep.undecided('D8.const', cc, cc.node.name, 'how fit decides that the data is constant was not recognised', construct='fit-side constancy test')


# ---------------------------------------------------------------------------- D9 pickle
def d9(ctx, rep):
    prog = ctx.prog
    n = 0
    for c in prog.classes.values():
        if c.lookup('save') is None:
            continue
        for m in c.methods.values():
            if not m.self_name:
                continue
            nested = {f.name for f in prog.functions.values() if f.outer is m}
            for node in walk_no_nested(m.node):
                if isinstance(node, ast.Assign) and any(is_self_attr(t, m.self_name) for t in node.targets):
                    n += 1
                    v = node.value
                    bad = isinstance(v, ast.Lambda) or (isinstance(v, ast.Name) and v.id in nested)
                    if bad:
                        rep.bad('D9.pickle', m, node, 'a lambda / nested function is stored in the model: pickle.dump(model) fails')
    rep.ok('D9.pickle', 'all model classes', None, f'{n} attribute stores scanned', construct='attribute stores')
    rep.floor('D9.pickle', 'attribute stores in picklable model classes', n, 10)
