"""C01 - Gaussian-copula sample keeps schema, marginals and dependence (PARTIAL)."""

import ast

from .. import contracts as K
from ..absint import TOP, Frame
from ..idioms import enum_paths, stmt_of
from ..kinds import LenKind
from ..model import call_name, const_value, is_self_attr, kwarg, short, walk_no_nested
from . import gauss


def run(ctx, rep):
    rep.trust(*K.TRUSTED_BASE_COMMON, 'scipy.stats.norm.cdf: Z -> P; np.random.multivariate_normal(mean, cov, size=n) returns n rows')
    rep.notes.append('C01 PARTIAL: decides row count, column set/order/completeness, the kind-correct transform pipeline '
                     '(normal draw -> norm.cdf -> marginal quantile, fit side cdf -> clip -> norm.ppf) and the dependence '
                     'source of the unconditional draw; the law of the sampled columns is not decided.')
    rep.guarded('D1.d1_rows', d1_rows, ctx, rep)
    rep.guarded('D2.d2_columns', d2_columns, ctx, rep)
    rep.guarded('D3.d3_pipeline', d3_pipeline, ctx, rep)
    rep.guarded('D4.d4_dependence', d4_dependence, ctx, rep)
    rep.guarded('D5.d5_allrows', d5_allrows, ctx, rep)


def _output_stores(fn):
    """(dict name, loop, [(store stmt, key expr, value expr)]) for the dict filled in the column loop."""
    rets = [n for n in walk_no_nested(fn.node) if isinstance(n, ast.Return) and n.value is not None]
    for r in rets:
        v = r.value
        if isinstance(v, ast.Call) and call_name(v) == 'DataFrame':
            d = kwarg(v, 'data', 0)
            if isinstance(d, ast.Name):
                stores = [n for n in walk_no_nested(fn.node) if isinstance(n, ast.Assign) and len(n.targets) == 1
                          and isinstance(n.targets[0], ast.Subscript) and isinstance(n.targets[0].value, ast.Name)
                          and n.targets[0].value.id == d.id]
                return d.id, r, stores
    return None, None, []


def d1_rows(ctx, rep):
    rep.rule('D1.rows', 'every column of the frame returned by sample() has exactly num_rows entries (length provenance)')
    fn = gauss.gm_method(ctx, 'sample')
    dname, ret, stores = _output_stores(fn)
    if not stores:
        rep.undecided('D1.rows', fn, fn.node.name, 'output dict / DataFrame(output) idiom not recognised', construct='output columns')
        return
    lk = LenKind(ctx)
    cls = ctx.prog.cls(gauss.GM)
    for st in stores:
        fr = Frame(fn, {}, cls)
        v = lk.value(st.value, fr)
        if isinstance(v, tuple) and v[0] == 'len':
            rep.check('D1.rows', fn, st, v[1] == 'num_rows', f'len = {v[1]}', f'column has {v[1]} rows, not num_rows')
        elif isinstance(v, tuple) and v[0] == 'mismatch':
            rep.bad('D1.rows', fn, st, f'operands of different lengths ({v[1]} vs {v[2]})')
        else:
            rep.undecided('D1.rows', fn, st, f'length not derivable ({v})')
    rep.floor('D1.rows', 'column stores in sample()', len(stores), 1)


def d2_columns(ctx, rep):
    rep.rule('D2.loop', 'sample() visits zip(self.columns, self.univariates) and assigns output[column] on every branch of every iteration')
    rep.rule('D2.coappend', 'self.columns and self.univariates are filled by parallel appends while iterating the training table')
    fn = gauss.gm_method(ctx, 'sample')
    dname, ret, stores = _output_stores(fn)
    loops = [n for n in walk_no_nested(fn.node) if isinstance(n, ast.For)]
    loop = None
    for lp in loops:
        if any(st in list(ast.walk(lp)) for st in stores):
            loop = lp
    if loop is None or not stores:
        rep.undecided('D2.loop', fn, fn.node.name, 'column loop not recognised', construct='column loop')
        return
    it = loop.iter
    good_iter = (isinstance(it, ast.Call) and call_name(it) == 'zip' and len(it.args) == 2
                 and is_self_attr(it.args[0], fn.self_name, 'columns') and is_self_attr(it.args[1], fn.self_name, 'univariates'))
    rep.check('D2.loop', fn, loop.iter, good_iter, 'iterates zip(self.columns, self.univariates): training order, every column once',
              'the output columns are not produced by iterating the training columns in order')
    keyvar = loop.target.elts[0].id if isinstance(loop.target, ast.Tuple) and isinstance(loop.target.elts[0], ast.Name) else None
    # definite assignment: every path through the loop body stores output[<column var>]
    paths = enum_paths(loop.body)
    all_assign = bool(paths)
    for p in paths:
        if isinstance(p.end, ast.Raise):
            continue
        hit = any(isinstance(s, ast.Assign) and s in stores and isinstance(s.targets[0].slice, ast.Name)
                  and s.targets[0].slice.id == keyvar for s in p.stmts)
        all_assign = all_assign and hit
    rep.check('D2.loop', fn, loop, all_assign, f'every path through the loop body assigns {dname}[{keyvar}]',
              f'some path through the loop body leaves {dname}[{keyvar}] unassigned: a training column is missing from the sample',
              construct='definite assignment of the output column')
    cols = kwarg(ret.value, 'columns')
    if cols is not None:
        rep.check('D2.loop', fn, ret, is_self_attr(cols, fn.self_name, 'columns'), 'explicit columns=self.columns',
                  'the frame is re-labelled with something other than the training columns')
    # columns and univariates are co-ordered lists with one element per training column (provenance through the fit pipeline)
    fit, vals = gauss.fit_pipeline(ctx)
    (st_c, vc), (st_u, vu) = vals['columns'], vals['univariates']
    anchor = st_c if st_c is not None else fit.node.name

    def is_list(v):
        return isinstance(v, tuple) and len(v) == 3 and v[0] == 'list'
    if not (is_list(vc) and is_list(vu)):
        rep.undecided('D2.coappend', fit, anchor, f'how fit builds columns / univariates was not recognised ({vc} / {vu})',
                      construct='co-ordered columns and univariates')
    else:
        kc, ku = vc[1], vu[1]
        okc = isinstance(kc, tuple) and kc and kc[0] == 'key'
        oku = isinstance(ku, tuple) and ku and ku[0] == 'fit'
        if not okc:
            if isinstance(kc, tuple) and kc and kc[0] in ('fit', 'col', 'dist'):
                rep.bad('D2.coappend', fit, anchor, 'self.columns does not receive the column names of the training table', construct='fit stores columns/univariates')
            else:
                rep.undecided('D2.coappend', fit, anchor, f'elements of self.columns not recognised ({kc})', construct='fit stores columns/univariates')
        elif not oku:
            if isinstance(ku, tuple) and ku and ku[0] in ('key', 'col', 'dist'):
                rep.bad('D2.coappend', fit, st_u, 'self.univariates does not receive the fitted marginals', construct='fit stores columns/univariates')
            else:
                rep.undecided('D2.coappend', fit, st_u, f'elements of self.univariates not recognised ({ku})', construct='fit stores columns/univariates')
        else:
            L = kc[1]
            rep.check('D2.coappend', fit, anchor, ku[1] == L and (ku[3] in (L, None)),
                      'position i of self.columns and of self.univariates belong to the same training column',
                      'columns and univariates are not built from the same iteration: position i of one no longer belongs to position i of the other',
                      construct='co-ordered columns and univariates')
            rep.check('D2.coappend', fit, anchor, not vc[2] and not vu[2], 'one entry per training column, none skipped',
                      'columns can be skipped while fitting: a training column is missing from the model and from every sample',
                      construct='every column kept')
    # the order of self.columns is the column order of the training table
    from ..idioms import attr_stores
    from ..kinds import OrderKind, fmt_tag, tag_compat
    from ..absint import Tup as _Tup
    okd = OrderKind(ctx)
    cls = ctx.prog.cls(gauss.GM)
    frf = Frame(fit, {}, cls)
    sts = attr_stores(fit, 'columns')
    if len(sts) == 1:
        st, v = sts[0]
        if isinstance(v, tuple) and v and v[0] == 'unpack':
            val = okd.value(v[1], frf)
            val = val.elems[v[2]] if isinstance(val, _Tup) and v[2] < len(val.elems) else TOP
        else:
            val = okd.value(v, frf) if v is not None else TOP
        xs = fit.params[1]
        want = ('xcols', f'fit.{xs}')
        tag = val[1] if isinstance(val, tuple) and val and val[0] == 'ord' else None
        comp = tag_compat(tag, want) if tag is not None else None
        if comp is True:
            rep.ok('D2.coappend', fit, st, f'self.columns is ordered like the columns of the training table ({fmt_tag(tag)})', construct='order of self.columns')
        elif comp is False:
            rep.bad('D2.coappend', fit, st, f'self.columns is ordered by {fmt_tag(tag)}, not like the columns of the training table: samples, the '
                    'correlation labels and positional array input use another column order', construct='order of self.columns')
        else:
            rep.undecided('D2.coappend', fit, st, f'order of self.columns not derivable ({val})', construct='order of self.columns')
    return


def d3_pipeline(ctx, rep):
    rep.rule('D3.kinds', 'sampling: marginal.percent_point receives norm.cdf of the normal draw of the same column; fitting: norm.ppf receives clip(cdf, EPSILON, 1-EPSILON)')
    sk, facts = gauss.space_analysis(ctx)
    prog = ctx.prog
    fn = gauss.gm_method(ctx, 'sample')
    # every value stored into the output is a data-space value obtained from the draw of its own column
    from ..absint import Frame as _F
    fn2, col_stores = gauss.sample_column_stores(ctx)
    cls = prog.cls(gauss.GM)
    for st, k, v, reach, loop in col_stores:
        if not (isinstance(k, tuple) and k and k[0] == 'key'):
            rep.undecided('D3.kinds', fn, st, 'the key of the output column is not the loop column', construct=f'column provenance: {short(st, 60)}')
            continue
        L = k[1]
        if isinstance(v, tuple) and v and v[0] == 'x':
            if v[2] == 'positional':
                rep.bad('D3.kinds', fn, st, 'the normal draw passed to the marginal is taken from the sampled frame by position, not by the column '
                        'name: under conditioning the frame\'s columns are the sorted remaining columns, so marginals receive each other\'s draws',
                        construct=f'column provenance: {short(st, 60)}')
            elif v[1] == L and v[2] == L:
                rep.ok('D3.kinds', fn, st, 'marginal quantile of this column applied to the normal draw of this column', construct=f'column provenance: {short(st, 60)}')
            elif v[2] in ('?', 'other'):
                rep.undecided('D3.kinds', fn, st, 'source of the value passed to the marginal quantile not derivable', construct=f'column provenance: {short(st, 60)}')
            else:
                rep.bad('D3.kinds', fn, st, 'the marginal of one column is applied to the draw of another column', construct=f'column provenance: {short(st, 60)}')
        elif isinstance(v, tuple) and v and v[0] == 'given':
            rep.check('D3.kinds', fn, st, v[1] == L, 'the given value of this column', 'the given value of another column is stored', construct=f'column provenance: {short(st, 60)}')
        else:
            rep.undecided('D3.kinds', fn, st, f'provenance of the stored value not derivable ({v})', construct=f'column provenance: {short(st, 60)}')
        # kind of the stored value
        frk = _F(fn, {}, cls)
        kind = sk.value(st.value, frk)
        if kind == 'X':
            rep.ok('D3.kinds', fn, st, 'the stored value is in data space (marginal quantile of a probability, or a given value)', construct=f'kind: {short(st, 60)}')
        elif isinstance(kind, str):
            rep.bad('D3.kinds', fn, st, f'the stored column has kind {kind}, not a data-space value', construct=f'kind: {short(st, 60)}')
        else:
            rep.undecided('D3.kinds', fn, st, 'kind of the stored value not derivable', construct=f'kind: {short(st, 60)}')
    gauss.report_space_all(ctx, rep, 'D3.kinds')
    # fit side: norm.ppf present in _transform_to_normal with a P0 argument (mismatch list is empty) and cdf source
    tn = gauss.gm_method(ctx, '_transform_to_normal')
    ppf = [c for c in walk_no_nested(tn.node) if isinstance(c, ast.Call) and prog.resolve(tn.module, c.func) in (
        'scipy.stats.norm.ppf', 'scipy.special.ndtri')]
    if not ppf:
        rep.bad('D3.kinds', tn, tn.node.name, 'no norm.ppf in the fit-side transform', construct='norm.ppf')
    for c in ppf:
        lst = facts.get(('_transform_to_normal', id(c)), [])
        ks = {repr(a[0]) for _p, _c, a, _k in lst if a}
        if ks == {"'P0'"}:
            rep.ok('D3.kinds', tn, c, 'norm.ppf receives clip(cdf(x), EPSILON, 1-EPSILON): kind P0')
        elif "'P'" in ks:
            pass  # reported through the mismatch list
        else:
            rep.undecided('D3.kinds', tn, c, f'kind of the norm.ppf argument: {ks}')


def _normal_sample_names(fn):
    return {a.targets[0].id for a in walk_no_nested(fn.node) if isinstance(a, ast.Assign) and isinstance(a.targets[0], ast.Name)
            and isinstance(a.value, ast.Call) and call_name(a.value) == '_get_normal_samples'}


def _sample_subscripts(fn, expr, depth=4):
    """Subscripts `<frame>[key]` the expression derives from (through single-assignment locals)."""
    from ..idioms import assignments
    out = []
    seen = set()
    todo = [(expr, 0)]
    while todo:
        e, d = todo.pop()
        for n in ast.walk(e):
            if isinstance(n, ast.Subscript) and isinstance(n.value, ast.Name) and isinstance(n.ctx, ast.Load):
                out.append(n)
            elif isinstance(n, ast.Name) and n.id not in seen and d < depth:
                seen.add(n.id)
                for a in assignments(fn.node, n.id):
                    if isinstance(a, ast.Assign):
                        todo.append((a.value, d + 1))
    # keep subscripts of frames produced by the normal-space helper
    keep = []
    for s in out:
        from ..idioms import assignments as asg
        defs = [a for a in asg(fn.node, s.value.id) if isinstance(a, ast.Assign)]
        if any(isinstance(a.value, ast.Call) and call_name(a.value) == '_get_normal_samples' for a in defs):
            keep.append(s)
    return keep


def d4_dependence(ctx, rep):
    rep.rule('D4.cov', 'the unconditional draw uses the fitted correlation as covariance and a zero mean')
    sk, facts = gauss.space_analysis(ctx)
    fn = gauss.gm_method(ctx, '_get_normal_samples')
    prog = ctx.prog
    draws = [c for c in walk_no_nested(fn.node) if isinstance(c, ast.Call) and prog.resolve(fn.module, c.func) == 'numpy.random.multivariate_normal']
    if not draws:
        rep.undecided('D4.cov', fn, fn.node.name, 'no np.random.multivariate_normal draw found in _get_normal_samples itself', construct='multivariate normal draw')
    from ..idioms import is_none_test
    for c in draws:
        lst = facts.get(('_get_normal_samples', id(c)), [])
        unc = []
        for path, call, args, kws in lst:
            # the unconditional path: `conditions is None` holds
            for test, pol in path.conds:
                nt = is_none_test(test) if isinstance(test, ast.expr) else None
                if nt is not None and isinstance(nt[0], ast.Name) and nt[0].id == 'conditions' and nt[1] == pol:
                    unc.append((args, kws))
        if not unc:
            rep.undecided('D4.cov', fn, c, 'unconditional path not recognised')
            continue
        for args, kws in unc:
            mean = args[0] if args else kws.get('mean')
            cov = args[1] if len(args) > 1 else kws.get('cov')
            if cov is TOP or cov is None:
                rep.undecided('D4.cov', fn, c, 'what the covariance of the unconditional draw is was not derived', construct='covariance of the unconditional draw')
            else:
                rep.check('D4.cov', fn, c, cov == 'CORR', 'covariance = self.correlation', f'covariance of the unconditional draw has kind {cov}, not the fitted correlation',
                          construct='covariance of the unconditional draw')
            if mean is TOP or mean is None:
                rep.undecided('D4.cov', fn, c, 'what the mean of the unconditional draw is was not derived', construct='mean of the unconditional draw')
            else:
                rep.check('D4.cov', fn, c, mean in ('ZERO', ('num', 0)), 'mean = zeros', f'mean of the unconditional draw is {mean}, not zero',
                          construct='mean of the unconditional draw')


def d5_allrows(ctx, rep):
    rep.rule('D5.allrows', 'no function of the fit closure re-binds its table parameter to a subset of its rows: marginals and correlation are estimated from every training row')
    from ..idioms import private_closure, row_subsets_reaching
    fit = gauss.gm_method(ctx, 'fit')
    n = 0
    for f in private_closure(ctx, fit):
        ps = [p for p in f.params if p != f.self_name]
        if not ps:
            continue
        n += 1
        hits = [(st, tn, bn, how) for st, tn, bn, how in row_subsets_reaching(f.node, set(ps[:1])) if tn == ps[0]]
        for st, tn, bn, how in hits:
            rep.bad('D5.allrows', f, st, f'{tn} is re-bound to {how} of {bn}: the estimate that follows uses only part of the training table', construct=f'{f.node.name}: table parameter keeps all rows')
        if not hits:
            rep.ok('D5.allrows', f, f.node.name, f'`{ps[0]}` is never re-bound to a row subset', construct=f'{f.node.name}: table parameter keeps all rows')
    if not n:
        rep.undecided('D5.allrows', fit, fit.node.name, 'fit closure not derived')
