"""C09 - bivariate samples have uniform margins and the model's dependence (PARTIAL)."""

import ast

from .. import contracts as K
from ..absint import TOP, Frame
from ..effects import RANDOM_STATE_DECORATOR
from ..kinds import LenKind, SpaceKind
from ..model import call_name, const_value, is_self_attr, kwarg, short, walk_no_nested

BIV = 'copulas.bivariate.base.Bivariate'


def run(ctx, rep):
    prog = ctx.prog
    rep.trust(*K.TRUSTED_BASE_COMMON, 'np.random.uniform(0, 1, n) draws n independent U(0,1) values',
              'Rosenblatt: v, c ~ U(0,1) independent, u = C^{-1}(c | v) gives (u, v) ~ C')
    rep.notes.append('C09 PARTIAL: decides the wiring of conditional-inverse sampling (two separate U(0,1) draws of length n_samples, '
                     'u = percent_point(c, v) with the conditioning draw as second argument, result column_stack((u, v)) of shape '
                     '(n_samples, 2)) and that the sampler runs under @random_state. Uniformity of the margins, Kendall tau of the '
                     'sample and agreement of the joint law are statistical and not decided.')
    rep.rule('D1.draws', 'two separate np.random.uniform(0, 1, n_samples) draws')
    rep.rule('D1.wiring', 'u = self.percent_point(c, v): probability first, conditioning draw second; the result stacks u with that same v')
    rep.rule('D1.shape', 'the returned array has n_samples rows and two columns')
    rep.rule('D2.scoped', 'the sampler is under @random_state and refuses |tau| > 1 before drawing')
    fn = prog.method(BIV, 'sample', inherited=False)
    for sub in prog.classes.values():
        if sub.qualname != BIV and prog.cls(BIV) in sub.mro():
            own = sub.lookup('sample')
            if own is not None and own is not fn:
                rep.undecided('D1.wiring', own, own.node.name, f'{sub.name} has its own sample(): the conditional-inverse wiring decided for Bivariate.sample does not cover it, '
                              'and whether its algorithm draws from this copula is not decided', construct=f'{sub.name}.sample override')
    np_ = fn.params[1]
    draws = [s for s in walk_no_nested(fn.node) if isinstance(s, ast.Assign) and isinstance(s.targets[0], ast.Name)
             and isinstance(s.value, ast.Call) and (prog.resolve(fn.module, s.value.func) or '').startswith('numpy.random.')]
    sk = SpaceKind(ctx, hierarchy='biv')
    sk.param_kinds[(fn.qualname, np_)] = 'N'
    fr = Frame(fn, {}, prog.cls(BIV))
    lk = LenKind(ctx)
    lfr = Frame(fn, {}, prog.cls(BIV))
    names = []
    for d in draws:
        k = sk.value(d.value, fr)
        ln = lk.value(d.value, lfr)
        names.append(d.targets[0].id)
        rep.check('D1.draws', fn, d, k == 'P', 'a U(0,1) draw', f'the draw is {k}, not uniform on (0, 1)')
        rep.check('D1.draws', fn, d, ln == ('len', np_), f'of length {np_}', f'the draw has length {ln}', construct=f'length of {d.targets[0].id}')
    if not draws:
        rep.undecided('D1.draws', fn, fn.node.name, 'no `name = np.random.<draw>(...)` statement recognised in Bivariate.sample', construct='number of draws')
    else:
        rep.check('D1.draws', fn, fn.node.name, len(draws) == 2 and len(set(names)) == 2, 'two separate draws',
                  f'{len(draws)} uniform draw(s): the probability and the conditioning variate are not independent draws', construct='number of draws')
    pp = [c for c in walk_no_nested(fn.node) if isinstance(c, ast.Call) and is_self_attr(c.func, fn.self_name) and c.func.attr in ('percent_point', 'ppf')]
    rets = [n for n in walk_no_nested(fn.node) if isinstance(n, ast.Return) and n.value is not None]
    if len(pp) != 1 or not rets:
        rep.undecided('D1.wiring', fn, fn.node.name, 'percent_point call / return not recognised', construct='wiring')
        return
    c = pp[0]
    a = c.args
    ok_args = len(a) == 2 and all(isinstance(x, ast.Name) and x.id in names for x in a) and a[0].id != a[1].id
    rep.check('D1.wiring', fn, c, ok_args, f'percent_point({short(a[0]) if a else "?"}, {short(a[1]) if len(a) > 1 else "?"}) on the two draws',
              'percent_point is not called with the two separate draws', construct='percent_point arguments')
    st = c._parent
    uvar = st.targets[0].id if isinstance(st, ast.Assign) and isinstance(st.targets[0], ast.Name) else None
    if uvar is not None:
        redefs = [a_ for a_ in walk_no_nested(fn.node) if isinstance(a_, (ast.Assign, ast.AugAssign)) and a_ is not st
                  and any(isinstance(t_, ast.Name) and t_.id == uvar for t_ in (a_.targets if isinstance(a_, ast.Assign) else [a_.target]))]
        vdefs = [a_ for a_ in walk_no_nested(fn.node) if isinstance(a_, (ast.Assign, ast.AugAssign)) and a_.lineno > c.lineno
                 and any(isinstance(t_, ast.Name) and ok_args and t_.id == a[1].id for t_ in (a_.targets if isinstance(a_, ast.Assign) else [a_.target]))]
        if redefs or vdefs:
            x_ = (redefs or vdefs)[0]
            rep.bad('D1.wiring', fn, x_, f'`{short(x_, 60)}` changes {"the conditional inverse" if redefs else "the conditioning variate"} after u = percent_point(c, v) was computed: the returned pair '
                    'is no longer (C^-1(c | v), v)', construct='u and v unchanged after the inverse')
        else:
            rep.ok('D1.wiring', fn, c, 'u and v reach the result unchanged', construct='u and v unchanged after the inverse')
    r = rets[-1].value
    stack = r if isinstance(r, ast.Call) and prog.resolve(fn.module, r.func) == 'numpy.column_stack' else None
    if stack is None or not stack.args or not isinstance(stack.args[0], (ast.Tuple, ast.List)) or len(stack.args[0].elts) != 2:
        rep.undecided('D1.wiring', fn, rets[-1], 'return is not column_stack((u, v))', construct='stacking')
    else:
        e0, e1 = stack.args[0].elts
        cond = a[1].id if ok_args else None
        from ..idioms import resolve
        e0r = resolve(fn.node, e0) if isinstance(e0, ast.Name) else e0
        good = ((isinstance(e0, ast.Name) and e0.id == uvar) or e0r is c) and isinstance(e1, ast.Name) and e1.id == cond
        uvar = uvar or short(c, 40)
        rep.check('D1.wiring', fn, stack, good, f'returns column_stack(({uvar}, {cond})): u next to the variate it was conditioned on',
                  f'the returned columns are ({short(e0)}, {short(e1)}): u is not paired with the variate it was conditioned on '
                  '(the pairs no longer follow the copula)', construct='stacking')
        ln = lk.value(r, lfr)
        rep.check('D1.shape', fn, stack, ln == ('len', np_), f'{np_} rows, 2 columns', f'the result has {ln} rows', construct='shape')
    rep.check('D2.scoped', fn, fn.node.name, RANDOM_STATE_DECORATOR in fn.decorators, '@random_state', 'the sampler is not under @random_state',
              construct='decorator')
    _tau_guard(ctx, rep, fn, draws)


def _tau_guard(ctx, rep, fn, draws):
    """The condition under which the first draw is reached (helpers that raise are followed) must exclude tau > 1 and tau < -1."""
    from ..boolcond import Conds, atoms_of, callee_exits, f_and, satisfiable, show
    if not draws:
        rep.undecided('D2.scoped', fn, fn.node.name, 'no draw recognised: nothing to place the tau range guard before', construct='tau guard')
        return
    first = min(draws, key=lambda d: d.lineno)
    cd = Conds(ctx.prog, fn)
    reach = cd.reach(first, callee_hook=lambda c2, call: callee_exits(ctx, c2, call))
    if reach is None:
        rep.undecided('D2.scoped', fn, first, 'the condition under which the draws are reached is not derived', construct='tau guard')
        return
    tau = f'{fn.self_name}.tau'

    def num(t):
        try:
            return float(t)
        except ValueError:
            return None
    above = below = None
    related = []
    for k in atoms_of(reach):
        if tau not in k:
            continue
        related.append(k)
        if k.startswith('lt['):
            a_, b_ = k[3:-1].split('|', 1)
            if b_ == tau and num(a_) == 1.0:
                above = ('atom', k)
            elif a_ == tau and num(b_) == -1.0:
                below = ('atom', k)
            elif b_ in (f'abs({tau})', f'np.abs({tau})', f'np.absolute({tau})', f'np.fabs({tau})') and num(a_) == 1.0:
                above = below = ('atom', k)
    if above is not None and below is not None:
        bad = [w for w, a in (('tau > 1', above), ('tau < -1', below)) if satisfiable(f_and(reach, a))]
        rep.check('D2.scoped', fn, first, not bad, 'the draws are reached only with -1 <= tau <= 1',
                  f'the draws are reached although {" or ".join(bad)} (reach condition: {show(reach)[:100]}): an out-of-range tau is sampled from',
                  construct='tau guard')
    elif related:
        missing = 'tau > 1' if above is None else 'tau < -1'
        both = above is None and below is None
        rep.bad('D2.scoped', fn, first, f'the guard before the draws does not refuse {"tau > 1 / tau < -1" if both else missing} '
                f'(comparisons on tau: {sorted(related)})', construct='tau guard')
    else:
        unresolved = [c for c in walk_no_nested(fn.node) if isinstance(c, ast.Call) and c.lineno < first.lineno
                      and any(is_self_attr(x, fn.self_name, 'tau') for a in c.args for x in ast.walk(a))]
        if unresolved:
            rep.undecided('D2.scoped', fn, unresolved[0], 'tau is handed to a call that is not followed before the draws', construct='tau guard')
        else:
            rep.bad('D2.scoped', fn, first, 'no tau range guard before the draws', construct='tau guard')
