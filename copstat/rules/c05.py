"""C05 - marginal model choice: best-KS candidate, filters, per-column config, fallback."""

import ast

from .. import contracts as K
from ..idioms import enum_paths, guard_chain, in_body_of, is_none_test, stmt_of
from ..model import AnalysisError, call_name, const_value, is_self_attr, kwarg, short, walk_no_nested
from .c19 import l6

SEL = 'copulas.univariate.selection.select_univariate'
GM = 'copulas.multivariate.gaussian.GaussianMultivariate'
UNI = 'copulas.univariate.base.Univariate'


def is_inf(prog, fn, e):
    nm = prog.resolve(fn.module, e)
    if nm in ('numpy.inf', 'numpy.Inf', 'numpy.infty', 'math.inf'):
        return True
    return isinstance(e, ast.Call) and call_name(e) == 'float' and e.args and const_value(e.args[0]) in ('inf', '+inf', 'Inf')


def run(ctx, rep):
    prog = ctx.prog
    rep.trust(*K.TRUSTED_BASE_COMMON, 'scipy.stats.kstest returns (statistic, pvalue); a smaller statistic is a better fit')
    rep.notes.append('C05: every clause is a mechanism: the arg-min idiom over the KS statistic with failures skipped, the '
                     'candidate enumeration by tags, the per-column lookup, the Gaussian fallback and fresh-instance creation. '
                     'Which family actually wins on given data is a runtime value and is not decided.')
    rep.guarded('D1.d1_d3', d1_d3, ctx, rep)
    rep.guarded('D2.pairing', d2_pairing, ctx, rep)
    rep.guarded('D4.d4', d4, ctx, rep)
    rep.guarded('D5.d5', d5, ctx, rep)
    rep.guarded('D6.d6', d6, ctx, rep)
    rep.guarded('L6.l6', l6, ctx, rep, rule='D7.clone')
    rep.guarded('D7.fresh', d7_fresh, ctx, rep)


def d2_pairing(ctx, rep):
    """Sequences that are walked in parallel in the selection code are in the same order and of the same length: a list of
    scores from which the failed candidates were filtered out must not be zipped with the full candidate list."""
    from ..absint import Frame
    from ..idioms import private_closure
    from ..kinds import OrderKind
    prog = ctx.prog
    fn = prog.func(SEL)
    seen = 0
    for g in private_closure(ctx, fn):
        okd = OrderKind(ctx)
        fr = Frame(g, {}, None)
        for s_ in walk_no_nested(g.node):
            if isinstance(s_, ast.For):
                okd.loop_order(s_.iter, fr, s_)
            elif isinstance(s_, (ast.Assign, ast.Return, ast.Expr)) and getattr(s_, 'value', None) is not None:
                okd.value(s_.value, fr)
        for node, f_, msg in okd.mismatches:
            seen += 1
            rep.bad('D2.score', f_, node, msg + ': a score is attributed to another candidate than the one it was computed for', construct='parallel sequences')
        for node, f_, msg in okd.checked:
            seen += 1
            rep.ok('D2.score', f_, node, msg, construct='parallel sequences')
    if not seen:
        rep.ok('D2.score', fn, fn.node.name, 'no two sequences are walked in parallel in the selection code', construct='parallel sequences')


def d7_fresh(ctx, rep):
    """The object GaussianMultivariate fits for a column is a fresh one on every path: the configured prototype (class,
    name or instance held in self.distribution) is never fitted itself, or two columns configured with one instance
    would share one model."""
    from ..idioms import resolve
    prog = ctx.prog
    fn = prog.method(GM, '_fit_column')
    dp = fn.params[2] if len(fn.params) > 2 else None
    fits = [c for c in walk_no_nested(fn.node) if isinstance(c, ast.Call) and isinstance(c.func, ast.Attribute) and c.func.attr == 'fit'
            and isinstance(c.func.value, ast.Name)]
    if not fits or dp is None:
        rep.undecided('D7.clone', fn, fn.node.name, 'the fit of the configured distribution was not found in _fit_column', construct='fresh model per column')
        return
    var = fits[0].func.value.id
    defs = [a for a in walk_no_nested(fn.node) if isinstance(a, ast.Assign) and any(isinstance(t, ast.Name) and t.id == var for t in a.targets)
            and a.lineno < fits[0].lineno]
    verdicts = []
    for a in defs:
        v = a.value
        if isinstance(v, ast.Call) and (prog.resolve(fn.module, v.func) == 'copulas.utils.get_instance' or (prog.resolve(fn.module, v.func) or '') in prog.classes):
            verdicts.append(True)
        elif isinstance(v, ast.Name) and v.id == dp:
            verdicts.append((False, a))
        elif isinstance(v, ast.Call) and call_name(v) in ('copy', 'deepcopy'):
            verdicts.append(True)
        else:
            verdicts.append(None)
    # get_instance(prototype, **kwargs) with kwargs builds `prototype.__class__(**kwargs)`: the recorded constructor arguments of a configured
    # instance are replaced, not extended.  Library code that clones a user-configured distribution therefore passes no keywords.
    for f_ in prog.functions.values():
        if f_.module.name == 'copulas.utils':
            continue
        for c_ in walk_no_nested(f_.node):
            if isinstance(c_, ast.Call) and prog.resolve(f_.module, c_.func) == 'copulas.utils.get_instance' and (c_.keywords or len(c_.args) > 1):
                what = ', '.join((k.arg or '**') for k in c_.keywords) or 'extra arguments'
                rep.bad('D7.clone', f_, c_, f'`{short(c_, 60)}`: with keywords ({what}) get_instance rebuilds an instance from those keywords alone, so the options the user configured on '
                        'the prototype (bandwidth, bounds, candidate filters) are dropped', construct=f'{f_.node.name}: prototype cloned without overrides')
    bad = [x for x in verdicts if isinstance(x, tuple)]
    if bad:
        rep.bad('D7.clone', fn, bad[0][1], f'on one path the model that is fitted is the configured `{dp}` object itself: every column configured with that '
                'instance shares (and overwrites) one model, and the user\'s prototype is mutated', construct='fresh model per column')
    elif verdicts and all(x is True for x in verdicts):
        rep.ok('D7.clone', fn, defs[0], 'the fitted object is created by get_instance(...) on every path', construct='fresh model per column')
    else:
        rep.undecided('D7.clone', fn, fits[0], 'where the fitted object comes from is not derived', construct='fresh model per column')


def d1_d3(ctx, rep):
    prog = ctx.prog
    rep.rule('D1.argmin', 'select_univariate keeps the candidate with the strictly smallest KS statistic (initial +inf, guarded paired update, returns a fresh instance of it)')
    rep.rule('D2.score', 'the score is element 0 of kstest(X, instance.cdf) of the instance created and fitted on the same X in this iteration')
    rep.rule('D3.envelope', 'creation, fit and kstest of a candidate are enclosed by a try that catches Exception and continues the loop')
    from ..inline import inlined_view
    fn = inlined_view(ctx, prog.func(SEL))      # `ks = _score(model, X)` stands for the body of a straight-line private helper
    xp, cp = fn.params[0], fn.params[1]
    loops = [n for n in walk_no_nested(fn.node) if isinstance(n, ast.For) and isinstance(n.iter, ast.Name) and n.iter.id == cp]
    if len(loops) != 1 or not isinstance(loops[0].target, ast.Name):
        rep.undecided('D1.argmin', fn, fn.node.name, 'candidate loop not recognised', construct='candidate loop')
        return
    loop = loops[0]
    lv = loop.target.id
    def strip_not(t):
        neg = False
        while isinstance(t, ast.UnaryOp) and isinstance(t.op, ast.Not):
            t, neg = t.operand, not neg
        return t, neg
    def is_order_cmp(t):
        t = strip_not(t)[0]
        return isinstance(t, ast.Compare) and len(t.ops) == 1 and isinstance(t.ops[0], (ast.Lt, ast.LtE, ast.Gt, ast.GtE))
    # `best is None or score < best`: a None sentinel in place of +inf.  The first candidate is then accepted whatever its score,
    # also a NaN one, and `x < nan` is false for every later candidate: the NaN candidate wins.  With +inf `nan < inf` is false.
    for n in ast.walk(loop):
        if isinstance(n, ast.If) and isinstance(n.test, ast.BoolOp) and isinstance(n.test.op, ast.Or):
            from ..idioms import is_none_test
            nones = [is_none_test(v) for v in n.test.values]
            cmps = [v for v in n.test.values if is_order_cmp(v)]
            if any(x is not None and x[1] for x in nones) and cmps:
                rep.bad('D1.argmin', fn, n.test, f'`{short(n.test, 60)}`: the first candidate is accepted unconditionally (None sentinel), also with a NaN statistic, '
                        'and no later candidate can displace a NaN: the selected model need not have the smallest KS statistic', construct='arg-min initial value')
    ifs = [n for n in ast.walk(loop) if isinstance(n, ast.If) and is_order_cmp(n.test)]
    guard = None
    for i in ifs:
        cmp_, neg_ = strip_not(i.test)
        l, r, op = cmp_.left, cmp_.comparators[0], cmp_.ops[0]
        if neg_:
            op = {ast.Lt: ast.GtE, ast.LtE: ast.Gt, ast.Gt: ast.LtE, ast.GtE: ast.Lt}[type(op)]()
        if not (isinstance(l, ast.Name) and isinstance(r, ast.Name)):
            continue
        # which side is the running best: the one assigned inside the body
        assigned = {t.id for s in i.body if isinstance(s, ast.Assign) for t in s.targets if isinstance(t, ast.Name)}
        if r.id in assigned and l.id not in assigned:
            best, cur, less = r.id, l.id, isinstance(op, (ast.Lt, ast.LtE))
        elif l.id in assigned and r.id not in assigned:
            best, cur, less = l.id, r.id, isinstance(op, (ast.Gt, ast.GtE))
        else:
            continue
        guard = (i, best, cur, less, assigned)
    if guard is None:
        # the collect-then-pick form: scores appended in the loop, the winner taken with np.argmin / min afterwards.  np.argmin returns the
        # position of a NaN (and min() keeps a leading NaN), whereas the running `score < best` never accepts a NaN statistic.
        picks = [c for c in walk_no_nested(fn.node) if isinstance(c, ast.Call) and (prog.resolve(fn.module, c.func) or '') in ('numpy.argmin', 'numpy.argmax', 'numpy.nanargmin', 'numpy.nanargmax')]
        ks_any = any(isinstance(c, ast.Call) and prog.resolve(fn.module, c.func) == 'scipy.stats.kstest' for c in ast.walk(loop))
        nan_aware = any(isinstance(c, ast.Call) and (prog.resolve(fn.module, c.func) or '') in ('numpy.isnan', 'numpy.isfinite', 'math.isnan', 'math.isfinite', 'numpy.nan_to_num')
                        for c in walk_no_nested(fn.node))
        if picks and ks_any:
            nm_ = prog.resolve(fn.module, picks[0].func)
            if nm_.endswith('argmax') and 'nan' not in nm_:
                rep.bad('D1.argmin', fn, picks[0], 'the winner is taken with np.argmax over the KS statistics: the worst-fitting candidate is selected', construct='arg-min polarity')
            elif nm_ == 'numpy.argmin' and not nan_aware:
                rep.bad('D1.argmin', fn, picks[0], '`np.argmin` over the collected KS statistics returns the position of a NaN when one is present: a candidate whose fitted CDF '
                        'evaluates to NaN on the data is selected, where the strict comparison `ks < best` never accepts it', construct='arg-min guard')
            else:
                rep.undecided('D1.argmin', fn, picks[0], 'selection by an arg-extremum over collected scores: pairing of scores and candidates is not derived', construct='arg-min guard')
            return
        rep.undecided('D1.argmin', fn, loop, 'guarded update `if score < best` not recognised', construct='arg-min guard')
        return
    i, best, cur, less, assigned = guard
    rep.check('D1.argmin', fn, i.test, less, f'update when {cur} < {best} (KS: lower is better)',
              f'the update is taken when the new score is LARGER than the best so far: selects the worst-fitting candidate',
              construct='arg-min polarity')
    # initial value +inf
    inits = [s for s in fn.body() if isinstance(s, ast.Assign) and any(isinstance(t, ast.Name) and t.id == best for t in s.targets)]
    rep.check('D1.argmin', fn, inits[0] if inits else fn.node.name, bool(inits) and is_inf(prog, fn, inits[0].value),
              f'{best} starts at +inf', f'{best} does not start at +inf: the first candidates can be rejected wrongly',
              construct='arg-min initial value')
    # paired update
    upd_best = [s for s in i.body if isinstance(s, ast.Assign) and any(isinstance(t, ast.Name) and t.id == best for t in s.targets)]
    model_vars = [s for s in i.body if isinstance(s, ast.Assign) and isinstance(s.value, ast.Name) and s.value.id == lv]
    good = len(upd_best) == 1 and isinstance(upd_best[0].value, ast.Name) and upd_best[0].value.id == cur and len(model_vars) == 1
    rep.check('D1.argmin', fn, i, good, f'{best} and the selected model are updated together from this iteration',
              'the best score and the best model are not updated together from the current iteration', construct='paired update')
    mvar = model_vars[0].targets[0].id if model_vars else None
    # no other assignment to the running variables inside the loop
    other = [s for s in ast.walk(loop) if isinstance(s, ast.Assign) and s not in i.body
             and any(isinstance(t, ast.Name) and t.id in (best, mvar) for t in s.targets)]
    rep.check('D1.argmin', fn, other[0] if other else loop, not other, 'no update outside the guard',
              'the running best is also assigned outside the guard', construct='updates only under the guard')
    rets = [n for n in walk_no_nested(fn.node) if isinstance(n, ast.Return)]
    good = len(rets) == 1 and isinstance(rets[0].value, ast.Call) and prog.resolve(fn.module, rets[0].value.func) == 'copulas.utils.get_instance' \
        and rets[0].value.args and isinstance(rets[0].value.args[0], ast.Name) and rets[0].value.args[0].id == mvar
    rep.check('D1.argmin', fn, rets[0] if rets else fn.node.name, good, 'returns get_instance(<best model>)',
              'does not return a fresh instance of the selected candidate', construct='return of the selection')
    # D2 score binding
    ks_calls = [c for c in ast.walk(loop) if isinstance(c, ast.Call) and prog.resolve(fn.module, c.func) == 'scipy.stats.kstest']
    if len(ks_calls) != 1:
        rep.undecided('D2.score', fn, loop, 'kstest call not found', construct='kstest')
    else:
        kc = ks_calls[0]
        st = stmt_of(kc)
        elem0 = False
        if isinstance(st, ast.Assign) and st.value is kc and isinstance(st.targets[0], ast.Tuple) \
                and isinstance(st.targets[0].elts[0], ast.Name) and st.targets[0].elts[0].id == cur:
            elem0 = True
        if isinstance(st, ast.Assign) and isinstance(st.value, ast.Subscript) and st.value.value is kc \
                and const_value(st.value.slice) == 0 and isinstance(st.targets[0], ast.Name) and st.targets[0].id == cur:
            elem0 = True
        if isinstance(st, ast.Assign) and isinstance(st.value, ast.Attribute) and st.value.value is kc and st.value.attr == 'statistic':
            elem0 = True
        rep.check('D2.score', fn, st, elem0, 'the compared score is the KS statistic (element 0)',
                  'the compared score is not the KS statistic (e.g. the p-value, for which larger is better)', construct='kstest element')
        a0, a1 = (kc.args + [None, None])[:2]
        inst = a1.value.id if isinstance(a1, ast.Attribute) and a1.attr in ('cdf', 'cumulative_distribution') and isinstance(a1.value, ast.Name) else None
        mk = [s for s in ast.walk(loop) if isinstance(s, ast.Assign) and isinstance(s.targets[0], ast.Name) and s.targets[0].id == inst
              and isinstance(s.value, ast.Call) and prog.resolve(fn.module, s.value.func) == 'copulas.utils.get_instance'
              and s.value.args and isinstance(s.value.args[0], ast.Name) and s.value.args[0].id == lv]
        fits = [c for c in ast.walk(loop) if isinstance(c, ast.Call) and isinstance(c.func, ast.Attribute) and c.func.attr == 'fit'
                and isinstance(c.func.value, ast.Name) and c.func.value.id == inst and c.args and isinstance(c.args[0], ast.Name)
                and c.args[0].id == xp]
        pos_ = lambda n_: (n_.lineno, n_.col_offset)
        order = bool(mk and fits) and (pos_(mk[0]) < pos_(fits[0]) < pos_(kc))
        good = isinstance(a0, ast.Name) and a0.id == xp and inst is not None and order
        rep.check('D2.score', fn, kc, good, 'kstest(X, instance.cdf) of the instance of this candidate fitted on X',
                  'the KS statistic is not computed for the candidate of this iteration fitted on the same data', construct='kstest binding')
    # D3 envelope
    tries = [n for n in loop.body if isinstance(n, ast.Try)]
    inside = bool(tries) and all(any(x is c for x in ast.walk(ast.Module(body=tries[0].body, type_ignores=[])))
                                 for c in (ks_calls[:1] + [s.value for s in (mk if ks_calls else [])] + (fits if ks_calls else [])))
    rep.check('D3.envelope', fn, tries[0] if tries else loop, inside, 'get_instance, fit and kstest are inside the try',
              'creation / fit / kstest of a candidate is outside the try: one failing family aborts the whole selection',
              construct='try body')
    if tries:
        hs = tries[0].handlers
        wide = any(h.type is None or (isinstance(h.type, ast.Name) and h.type.id in ('Exception', 'BaseException')) for h in hs)
        rep.check('D3.envelope', fn, hs[0] if hs else tries[0], wide, 'catches Exception',
                  'the handler catches a narrower class: other failures of a candidate abort the selection', construct='handler class')
        leaves = [x for h in hs for x in ast.walk(h) if isinstance(x, (ast.Raise, ast.Break, ast.Return))]
        rep.check('D3.envelope', fn, leaves[0] if leaves else (hs[0] if hs else tries[0]), not leaves,
                  'the handler lets the loop continue', 'the handler re-raises / leaves the loop', construct='handler continues')


def d4(ctx, rep):
    prog = ctx.prog
    rep.rule('D4.enum', 'candidate enumeration recurses over subclasses, skips abstract classes and applies both filters; every concrete family declares its tags')
    fn = prog.method(UNI, '_select_candidates')
    pa, pb = fn.params[1], fn.params[2]
    # the enumeration is evaluated on every call: a memoised result is one list object shared by every selector with the same filters
    # (an edit of one instance's candidates edits them all) and never sees a family defined after the first call
    memo = [d for d in fn.node.decorator_list if (prog.resolve(fn.module, d.func if isinstance(d, ast.Call) else d) or '') in ('functools.lru_cache', 'functools.cache')]
    if memo:
        rep.bad('D4.enum', fn, memo[0], f'`@{short(memo[0], 40)}` on the candidate enumeration: every Univariate with the same filters holds the same list object, and '
                'families registered later are never candidates', construct='enumeration evaluated per call')
    else:
        rep.ok('D4.enum', fn, fn.node.name, 'not memoised', construct='enumeration evaluated per call')
    loops = [n for n in walk_no_nested(fn.node) if isinstance(n, ast.For)]
    ok_iter = bool(loops) and isinstance(loops[0].iter, ast.Call) and call_name(loops[0].iter) == '__subclasses__'
    elsewhere = [c for c in ast.walk(fn.node) if isinstance(c, ast.Call) and call_name(c) == '__subclasses__']
    if not ok_iter and elsewhere:
        rep.undecided('D4.enum', fn, elsewhere[0], 'cls.__subclasses__() is enumerated, but not by a plain loop of this method: how the filters are applied to each subclass is not derived',
                      construct='subclass iteration')
        return
    rep.check('D4.enum', fn, loops[0].iter if loops else fn.node.name, ok_iter, 'iterates cls.__subclasses__()',
              'candidates are not enumerated from the subclass registry', construct='subclass iteration')
    if not loops:
        return
    lp = loops[0]
    sv = lp.target.id
    rec = [c for c in ast.walk(lp) if isinstance(c, ast.Call) and call_name(c) == '_select_candidates']
    if not rec:
        rep.undecided('D4.enum', fn, lp, 'no recursive call of _select_candidates in the subclass loop: how nested subclasses are reached is not derived',
                      construct='recursion')
    else:
        r0 = rec[0]
        kws = {k.arg: k.value for k in r0.keywords}
        got = [getattr(a, 'id', None) for a in r0.args] + [None] * 2
        pa_arg = got[0] if r0.args else getattr(kws.get(pa), 'id', None)
        pb_arg = got[1] if len(r0.args) > 1 else getattr(kws.get(pb), 'id', None)
        dropped = isinstance(r0._parent, ast.Expr)
        opaque = any(not isinstance(a, ast.Name) for a in r0.args) or any(k.arg is None or not isinstance(k.value, ast.Name) for k in r0.keywords)
        if opaque and not dropped:
            rep.undecided('D4.enum', fn, r0, 'arguments of the recursive call not recognised', construct='recursion')
        elif dropped:
            rep.bad('D4.enum', fn, r0, 'the result of the recursive call is dropped: subclasses of subclasses are never candidates', construct='recursion')
        elif (pa_arg, pb_arg) == (pa, pb):
            rep.ok('D4.enum', fn, r0, 'recurses with (parametric, bounded) unchanged and uses the result', construct='recursion')
        elif {pa_arg, pb_arg} == {pa, pb} or pa_arg is None or pb_arg is None:
            rep.bad('D4.enum', fn, r0, 'the recursion does not pass both filters through in order / drops the sub-results', construct='recursion')
        else:
            rep.undecided('D4.enum', fn, r0, 'arguments of the recursive call not recognised', construct='recursion')
    # the condition under which a subclass is appended, as a boolean formula over the loop body
    from ..boolcond import Conds, atoms_of, equivalent, f_and, f_not, implies, show
    app = [c for c in ast.walk(lp) if isinstance(c, ast.Call) and call_name(c) == 'append' and c.args and isinstance(c.args[0], ast.Name)
           and c.args[0].id == sv]
    if len(app) != 1:
        rep.undecided('D4.enum', fn, lp, 'append of the visited subclass not recognised', construct='candidate filter')
    else:
        cd = Conds(prog, fn)
        reach = cd.reach(app[0], stmts=lp.body)
        a_abc = f'in[ABC|{sv}.__bases__]'
        a_pn, a_bn = f'isnone[{pa}]', f'isnone[{pb}]'
        a_pe = 'eq[' + '|'.join(sorted([pa, f'{sv}.PARAMETRIC'])) + ']'
        a_be = 'eq[' + '|'.join(sorted([pb, f'{sv}.BOUNDED'])) + ']'
        A = lambda k: ('atom', k)
        want = f_and(f_not(A(a_abc)), f_not(f_and(f_not(A(a_pn)), f_not(A(a_pe)))), f_not(f_and(f_not(A(a_bn)), f_not(A(a_be)))))
        keys = set(atoms_of(reach)) if reach is not None else None
        if reach is None or keys - {a_abc, a_pn, a_bn, a_pe, a_be}:
            rep.undecided('D4.enum', fn, app[0], f'filter condition not recognised ({show(reach)[:150] if reach is not None else None})', construct='candidate filter')
        else:
            eq = equivalent(reach, want)
            if eq:
                rep.ok('D4.enum', fn, app[0], 'appended iff not abstract, and (parametric is None or equal), and (bounded is None or equal)', construct='candidate filter')
            else:
                miss = []
                if not implies(reach, f_not(A(a_abc))):
                    miss.append('abstract classes (ABC among the bases) are not skipped')
                if not implies(reach, f_not(f_and(f_not(A(a_pn)), f_not(A(a_pe))))):
                    miss.append('the parametric filter is not honoured')
                if not implies(reach, f_not(f_and(f_not(A(a_bn)), f_not(A(a_be))))):
                    miss.append('the bounded filter is not honoured')
                if not miss:
                    miss.append('admissible subclasses are dropped')
                rep.bad('D4.enum', fn, app[0], '; '.join(miss) + f' (append condition: {show(reach)[:160]})', construct='candidate filter')
    # tags declared by every concrete family
    root = prog.cls('copulas.univariate.base.ScipyModel')
    n = 0
    for c in root.subclasses():
        if c.is_abstract():
            continue
        n += 1
        missing = [a for a in ('PARAMETRIC', 'BOUNDED', 'MODEL_CLASS') if a not in c.attrs]
        rep.check('D4.enum', f'{c.qualname[8:]}', None, not missing, 'declares PARAMETRIC, BOUNDED, MODEL_CLASS',
                  f'{c.name} inherits {missing} from its base: it is filtered by the wrong tag', construct=f'{c.name} tags')
    rep.floor('D4.enum', 'concrete univariate families', n, 8)
    init = prog.method(UNI, '__init__')
    st = [s for s in walk_no_nested(init.node) if isinstance(s, ast.Assign) and any(is_self_attr(t, init.self_name, 'candidates') for t in s.targets)]
    cp = 'candidates'

    def is_sel(e):
        return isinstance(e, ast.Call) and call_name(e) == '_select_candidates'

    def is_cp(e):
        return isinstance(e, ast.Name) and e.id == cp

    def truth_of_cp(t):
        """+1: the test is `candidates` (truthy), -1: `not candidates` / `candidates is None` / `len(candidates) == 0`; None otherwise."""
        if is_cp(t):
            return 1
        if isinstance(t, ast.UnaryOp) and isinstance(t.op, ast.Not):
            r = truth_of_cp(t.operand)
            return -r if r else None
        if isinstance(t, ast.Compare) and len(t.ops) == 1 and is_cp(t.left) and isinstance(t.comparators[0], ast.Constant) and t.comparators[0].value is None:
            return -1 if isinstance(t.ops[0], ast.Is) else (1 if isinstance(t.ops[0], ast.IsNot) else None)
        return None

    fallback = None      # the _select_candidates(...) call used when no explicit list is given
    verdict = None       # 'ok' / 'bad:<why>' / None (not recognised)
    if len(st) == 1:
        v = st[0].value
        if isinstance(v, ast.BoolOp) and isinstance(v.op, ast.Or) and len(v.values) == 2 and is_cp(v.values[0]) and is_sel(v.values[1]):
            fallback, verdict = v.values[1], 'ok'
        elif isinstance(v, ast.BoolOp) and isinstance(v.op, ast.And) and len(v.values) == 2 and is_cp(v.values[0]) and is_sel(v.values[1]):
            verdict = 'bad:`candidates and <filters>`: an explicit list is replaced by the filtered classes and no list stays empty'
        elif isinstance(v, ast.IfExp) and truth_of_cp(v.test):
            yes, no = (v.body, v.orelse) if truth_of_cp(v.test) > 0 else (v.orelse, v.body)
            if is_cp(yes) and is_sel(no):
                fallback, verdict = no, 'ok'
            elif is_sel(yes) and is_cp(no):
                verdict = 'bad:the filters are applied when an explicit list is given and the (empty) list is kept otherwise'
        elif is_cp(v):
            # if not candidates: candidates = _select_candidates(...)   before the store
            pre = [s_ for s_ in walk_no_nested(init.node) if isinstance(s_, ast.If) and truth_of_cp(s_.test) and s_.lineno < st[0].lineno]
            for s_ in pre:
                branch = s_.body if truth_of_cp(s_.test) < 0 else s_.orelse
                other = s_.orelse if truth_of_cp(s_.test) < 0 else s_.body
                sets = [a_ for a_ in branch if isinstance(a_, ast.Assign) and any(is_cp(t_) for t_ in a_.targets) and is_sel(a_.value)]
                wrong = [a_ for a_ in other if isinstance(a_, ast.Assign) and any(is_cp(t_) for t_ in a_.targets) and is_sel(a_.value)]
                if sets:
                    fallback, verdict = sets[0].value, 'ok'
                elif wrong:
                    verdict = 'bad:the filters replace an explicit candidate list'
            if verdict is None and not any(isinstance(s_, ast.Assign) and any(is_cp(t_) for t_ in s_.targets) for s_ in walk_no_nested(init.node)):
                verdict = 'bad:without an explicit list no candidates are derived from the filters (parametric, bounded)'
        elif is_sel(v):
            verdict = 'bad:the explicit candidate list is ignored'
    elif len(st) == 2 and isinstance(getattr(st[0], '_parent', None), ast.If) and st[0]._parent is getattr(st[1], '_parent', None) and truth_of_cp(st[0]._parent.test):
        iff = st[0]._parent
        yes, no = (iff.body, iff.orelse) if truth_of_cp(iff.test) > 0 else (iff.orelse, iff.body)
        vy = [x.value for x in st if x in yes]
        vn = [x.value for x in st if x in no]
        if vy and vn and is_cp(vy[0]) and is_sel(vn[0]):
            fallback, verdict = vn[0], 'ok'
        elif vy and vn and is_sel(vy[0]) and is_cp(vn[0]):
            verdict = 'bad:the filters are applied when an explicit list is given and the (empty) list is kept otherwise'
    if verdict == 'ok' and fallback is not None:
        a = fallback.args
        kws = {k.arg: k.value for k in fallback.keywords}
        fw = (len(a) == 2 and [getattr(x, 'id', None) for x in a] == ['parametric', 'bounded']) or (
            getattr(kws.get('parametric'), 'id', None) == 'parametric' and getattr(kws.get('bounded'), 'id', None) == 'bounded') or (
            len(a) == 1 and getattr(a[0], 'id', None) == 'parametric' and getattr(kws.get('bounded'), 'id', None) == 'bounded')
        if not fw:
            verdict = 'bad:the filters (parametric, bounded) are not forwarded to _select_candidates in this order'
    if verdict is None:
        rep.undecided('D4.enum', init, st[0] if st else init.node.name, 'how self.candidates is chosen between the explicit list and the filters was not recognised',
                      construct='explicit list or filters')
    else:
        rep.check('D4.enum', init, st[0] if st else init.node.name, verdict == 'ok', 'explicit candidates win, otherwise the filters (parametric, bounded) are applied',
                  'the explicit candidate list / the filters are not honoured' + (': ' + verdict[4:] if verdict != 'ok' else ''), construct='explicit list or filters')


def d5(ctx, rep):
    prog = ctx.prog
    rep.rule('D5.column', 'each column is fitted with the distribution looked up under its own name (dict: get(name, default); otherwise the configured object)')
    fn = prog.method(GM, '_get_distribution_for_column')
    cp = fn.params[1]
    from ..boolcond import Conds, atoms_of, evaluate
    from ..idioms import resolve
    cd = Conds(prog, fn)
    _n, _rs, rets = cd.exits()
    keys = set()
    for _st, c in rets:
        keys |= set(atoms_of(c))
    kd = [k for k in keys if k.startswith('isinstance[') and k.endswith(',dict]') and 'distribution' in k]
    if len(kd) != 1 or keys - set(kd):
        rep.undecided('D5.column', fn, fn.node.name, f'dispatch on the configuration type not recognised ({sorted(keys)})', construct='configuration dispatch')
    else:
        for isdict in (True, False):
            hit = [st for st, c in rets if evaluate(c, {kd[0]: isdict})]
            if len(hit) != 1:
                rep.undecided('D5.column', fn, fn.node.name, f'{len(hit)} outcomes for dict={isdict}', construct=f'branch dict={isdict}')
                continue
            v = resolve(fn.node, hit[0].value) if hit[0].value is not None else None
            if isdict:
                recv = resolve(fn.node, v.func.value) if isinstance(v, ast.Call) and isinstance(v.func, ast.Attribute) else None
                good = isinstance(v, ast.Call) and call_name(v) == 'get' and is_self_attr(recv, fn.self_name, 'distribution') \
                    and len(v.args) == 2 and isinstance(v.args[0], ast.Name) and v.args[0].id == cp \
                    and prog.resolve(fn.module, v.args[1]) == 'copulas.multivariate.gaussian.DEFAULT_DISTRIBUTION'
                rep.check('D5.column', fn, hit[0], good, 'dict -> distribution.get(column_name, DEFAULT_DISTRIBUTION)',
                          'the per-column dict is not looked up under the column name with the default for unnamed columns', construct='dict branch')
            else:
                rep.check('D5.column', fn, hit[0], is_self_attr(v, fn.self_name, 'distribution'), 'otherwise the configured object',
                          'a non-dict configuration is not used as given', construct='non-dict branch')
    from . import gauss
    fit, vals = gauss.fit_pipeline(ctx)
    st_u, vu = vals['univariates']
    anchor = st_u if st_u is not None else fit.node.name
    if isinstance(vu, tuple) and len(vu) == 3 and vu[0] == 'list' and isinstance(vu[1], tuple) and vu[1] and vu[1][0] == 'fit':
        _t, lcol, ldist, lname = vu[1]
        if lcol is None or ldist is None:
            rep.undecided('D5.column', fit, anchor, 'the column / distribution handed to _fit_column was not recognised', construct='index agreement in _fit_columns')
        else:
            rep.check('D5.column', fit, anchor, lcol == ldist, 'the distribution looked up for a column name is fitted on that column',
                      'the distribution looked up for one column is fitted on another (or a fixed one)', construct='index agreement in _fit_columns')
    else:
        rep.undecided('D5.column', fit, anchor, f'the per-column fit was not recognised ({vu})', construct='index agreement in _fit_columns')


def _fallback_model(ctx, fn, expr, colnames, depth):
    """Follows a returned expression through private helpers: (True | False | None, anchor node, function).
    True: a GaussianUnivariate constructed, fitted on the column (one of `colnames`) and returned."""
    from ..idioms import resolve
    prog = ctx.prog
    GU = 'copulas.univariate.gaussian.GaussianUnivariate'
    if depth > 4:
        return None, None, None
    e = resolve(fn.node, expr) if isinstance(expr, ast.Name) else expr
    if isinstance(e, ast.Call) and prog.resolve(fn.module, e.func) == GU:
        if not isinstance(expr, ast.Name):
            return False, e, fn  # a fresh, unfitted model is returned
        var = expr.id
        fits = [c for c in walk_no_nested(fn.node) if isinstance(c, ast.Call) and isinstance(c.func, ast.Attribute) and c.func.attr == 'fit'
                and isinstance(c.func.value, ast.Name) and c.func.value.id == var]
        if not fits:
            return False, e, fn
        ok = all(c.args and isinstance(c.args[0], ast.Name) and c.args[0].id in colnames for c in fits)
        known = all(c.args and isinstance(c.args[0], ast.Name) for c in fits)
        return (True if ok else (False if known else None)), fits[0], fn
    if isinstance(e, ast.Call):
        tg = [x for x in ctx.cg.targets(fn, e) if x.kind == 'proj' and not x.how.startswith('decorator') and x.how != 'by method name']
        if len(tg) != 1:
            return None, None, None
        g = tg[0].fn
        from .c20 import get_alias
        b = get_alias(ctx).bind(fn, e, g)
        inner = {p for p, args in b.items() if any(isinstance(a, ast.Name) and a.id in colnames for a in args)}
        rets = [n for n in walk_no_nested(g.node) if isinstance(n, ast.Return) and n.value is not None]
        if not rets:
            return None, None, None
        out = [_fallback_model(ctx, g, r.value, inner, depth + 1) for r in rets]
        if any(v is False for v, _w, _f in out):
            return next(o for o in out if o[0] is False)
        if all(v is True for v, _w, _f in out):
            return out[0]
        return None, None, None
    return None, None, None


def d6(ctx, rep):
    prog = ctx.prog
    rep.rule('D6.fallback', 'if fitting the configured distribution raises, the column is modelled by a GaussianUnivariate fitted on the same column and that model is returned')
    fn = prog.method(GM, '_fit_column')
    colp = fn.params[1]
    tries = [n for n in walk_no_nested(fn.node) if isinstance(n, ast.Try)]
    fits = [c for c in walk_no_nested(fn.node) if isinstance(c, ast.Call) and isinstance(c.func, ast.Attribute) and c.func.attr == 'fit']
    if not tries or not fits:
        rep.bad('D6.fallback', fn, fn.node.name, 'no try around the fit of the configured distribution', construct='try around fit')
        return
    t = tries[0]
    inside = any(x is fits[0] for s in t.body for x in ast.walk(s))
    rep.check('D6.fallback', fn, t, inside, 'univariate.fit(column) is inside the try', 'the fit of the configured distribution is not protected',
              construct='try around fit')
    wide = any(h.type is None or (isinstance(h.type, ast.Name) and h.type.id in ('Exception', 'BaseException')) for h in t.handlers)
    rep.check('D6.fallback', fn, t.handlers[0] if t.handlers else t, wide, 'catches Exception', 'the handler is narrower than Exception: other fit failures abort GaussianMultivariate.fit',
              construct='handler class')
    # a narrower handler placed before the wide one that re-raises takes those failures away from the fallback
    import builtins
    for h in t.handlers:
        if h.type is None or (isinstance(h.type, ast.Name) and h.type.id in ('Exception', 'BaseException')):
            break
        classes = [e for e in (h.type.elts if isinstance(h.type, ast.Tuple) else [h.type])]
        names = [c.id if isinstance(c, ast.Name) else c.attr if isinstance(c, ast.Attribute) else None for c in classes]
        ordinary = [n_ for n_ in names if n_ and isinstance(getattr(builtins, n_, None), type) and issubclass(getattr(builtins, n_), Exception)]
        if ordinary and h.body and isinstance(h.body[-1], ast.Raise) and not any(isinstance(x, ast.Return) for s_ in h.body for x in ast.walk(s_)):
            rep.bad('D6.fallback', fn, h, f'a fit failure of class {"/".join(ordinary)} is re-raised before the fallback handler: the column is not modelled by a Gaussian and '
                    'GaussianMultivariate.fit aborts', construct='no failure class bypasses the fallback')
    fvar = fits[0].func.value.id if isinstance(fits[0].func.value, ast.Name) else None
    rets = [n for n in walk_no_nested(fn.node) if isinstance(n, ast.Return)]
    reassigned = None
    direct = False
    for h in t.handlers:
        for s in h.body:
            if isinstance(s, ast.Assign) and isinstance(s.targets[0], ast.Name) and isinstance(s.value, ast.Call):
                reassigned = (s, s.targets[0].id, s.value)
            if isinstance(s, ast.Return) and isinstance(s.value, ast.Call):
                reassigned = (s, None, s.value)
                direct = True
    good = reassigned is not None and (direct or (rets and isinstance(rets[-1].value, ast.Name) and rets[-1].value.id == reassigned[1] == fvar))
    rep.check('D6.fallback', fn, reassigned[0] if reassigned else t, bool(good), 'the handler replaces the model that is returned',
              'the fallback model is not the one returned', construct='handler result returned')
    if reassigned:
        verdict, where, wfn = _fallback_model(ctx, fn, reassigned[2], {colp}, 0)
        if verdict is None:
            rep.undecided('D6.fallback', wfn or fn, where or reassigned[0], 'what the handler returns could not be followed to a model construction', construct='fallback model')
        else:
            rep.check('D6.fallback', wfn or fn, where or reassigned[0], verdict, 'GaussianUnivariate() fitted on the same column and returned',
                      'the fallback is not a GaussianUnivariate fitted on the failing column', construct='fallback model')
        # the fallback path itself must not be able to raise before the Gaussian is fitted: no partial operation on
        # the objects it is handed (their type is exactly what is in doubt on this path)
        tg = [x for x in ctx.cg.targets(fn, reassigned[2]) if x.kind == 'proj' and not x.how.startswith('decorator')]
        fb = tg[0].fn if tg else None
        if fb is None:
            return
        from .c20 import get_alias
        b = get_alias(ctx).bind(fn, reassigned[2], fb)
        cparam = [p for p, args in b.items() if any(isinstance(a, ast.Name) and a.id == colp for a in args)]
        others = [p for p in fb.params[1:] if p not in cparam]
        fitted = [c for c in walk_no_nested(fb.node) if isinstance(c, ast.Call) and isinstance(c.func, ast.Attribute) and c.func.attr == 'fit']
        fitted += [c for c in walk_no_nested(fb.node) if isinstance(c, ast.Call) and any(isinstance(a, ast.Name) and a.id in cparam for a in c.args)
                   and any(t_.kind == 'proj' for t_ in ctx.cg.targets(fb, c))]
        stop = min(c.lineno for c in fitted) if fitted else 10 ** 9
        for n in walk_no_nested(fb.node):
            if getattr(n, 'lineno', 0) > stop:
                continue
            partial = None
            if isinstance(n, ast.Attribute) and isinstance(n.value, ast.Name) and n.value.id in others and n.attr != '__class__':
                partial = f'attribute .{n.attr} of `{n.value.id}`'
            if isinstance(n, ast.Subscript) and isinstance(n.value, ast.Name) and n.value.id in others:
                partial = f'subscript of `{n.value.id}`'
            if isinstance(n, ast.Subscript) and isinstance(n.value, ast.Attribute) and isinstance(n.value.value, ast.Name) \
                    and n.value.value.id in others:
                partial = f'subscript of `{n.value.value.id}.{n.value.attr}`'
            if partial:
                rep.bad('D6.fallback', fb, n, f'{partial} is evaluated on the fallback path before the Gaussian is fitted: for a '
                        'configuration object without it (class, name or instance prototype) the exception escapes and fit fails '
                        'instead of falling back', construct=f'partial operation: {short(n, 50)}')
