"""Interval / special-value clauses for the bivariate closed forms (shared by C06, C07, C08).

The source of each family method is evaluated by the interval abstract interpreter (copstat.ivkind) for a finite
partition of the property's quantifier into boxes (theta piece x u box x v box).  The result of one evaluation is an
interval that contains every floating-point result the code can produce for a point of the box, plus a NaN flag.

Verdicts per clause (aggregated over the boxes of the clause):
    ok          every box proves the clause (the result interval lies inside the admissible set, no NaN possible)
    violation   some box *refutes* it: the result interval is disjoint (beyond a tolerance) from the admissible set, or
                the result is NaN for every point of the box
    undecided   otherwise (intervals lose the correlation between sub-expressions); never an alarm

The boxes come from the property text (theta ranges per family; the unit square with its border and corners).  No
concrete sample point is evaluated: every case has an interval theta, and the only exact coordinates are the special
values 0 and 1 named by the property's boundary clauses.
"""

from ..absint import BOT, TOP
from ..ivkind import IV, evaluate
from ..model import AnalysisError

TOL = 1e-9

Q = {'Clayton': 'copulas.bivariate.clayton.Clayton', 'Frank': 'copulas.bivariate.frank.Frank',
     'Gumbel': 'copulas.bivariate.gumbel.Gumbel', 'Independence': 'copulas.bivariate.independence.Independence'}

# theta pieces inside the property's range (|Kendall tau| <= 0.8).  Pieces start at 1e-3 from the singular value of a
# family (theta = 0) - the closed forms cancel catastrophically next to it and nothing can be decided there.
THETA = {
    'Clayton': [IV(1e-3, 0.5), IV(0.5, 2.0), IV(2.0, 8.0)],
    'Gumbel': [IV(1.0), IV(1.0, 2.0), IV(2.0, 5.0)],
    'Independence': [IV(0.0)],
    'Frank': [IV(1e-3, 1.0), IV(1.0, 5.0), IV(5.0, 18.2), IV(-1.0, -1e-3), IV(-5.0, -1.0), IV(-18.2, -5.0)],
}

# the parameter value at which a family degenerates to the independence copula C(u, v) = u * v
INDEPENDENCE_THETA = {'Gumbel': IV(1.0), 'Independence': IV(0.0)}

# exact parameter values inside the property's range, evaluated besides the pieces: with an exact theta the interval
# evaluation loses no correlation through theta and is tight enough to *refute* (the ends of the range: |tau| = 0.8)
EXACT_THETAS = {'Clayton': [IV(8.0), IV(2.0), IV(0.5)], 'Gumbel': [IV(5.0), IV(2.0), IV(1.5)],
                'Frank': [IV(18.2), IV(-18.2), IV(5.0), IV(-5.0), IV(1.0), IV(-1.0)]}

ZERO, ONE = IV(0.0), IV(1.0)
CLOSED = IV(0.0, 1.0)
LO, HI = 1e-4, 1 - 1e-4
CUTS = [LO, 0.1, 0.25, 0.5, 0.75, 0.9, HI]
INNER = [IV(a, b) for a, b in zip(CUTS, CUTS[1:])]
CLOSED = IV(0.0, 1.0)
NEAR0 = IV(0.0, LO)
NEAR1 = IV(HI, 1.0)


def _fmt(box):
    fam, th, u, v = box
    return f'theta in {th}, u in {u}, v in {v}'


class Clause:
    """outer(u, v) -> (lo, hi): every result for a point of the box must lie in [lo, hi] if the clause holds (used to refute).
    inner(u, v) -> (lo, hi) or None: a result interval inside [lo, hi] proves the clause for every point of the box."""

    def __init__(self, name, what, boxes, outer, inner='same', only_independence=False, domain=None, same_as=None, extra_thetas=None, point_keyed=False):
        self.name, self.what, self.boxes, self.outer = name, what, boxes, outer
        self.extra_thetas = EXACT_THETAS if extra_thetas is None else extra_thetas  # family -> exact parameter values evaluated besides the pieces
        self.point_keyed = point_keyed  # the construct names the refuted point and every refuted point is listed
        self.inner = outer if inner == 'same' else inner
        self.only_independence = only_independence
        self.same_as = same_as  # 'u' / 'v': returning that input unchanged proves the clause
        self.domain = domain or (CLOSED, CLOSED)  # where the other rows of a batch live


def decide(res, lo, hi, ilo=None, ihi=None):
    """'ok' | 'bad:<why>' | 'und:<why>' for one box."""
    if res is TOP or res is BOT or not isinstance(res, IV):
        return f'und:result not an interval ({res})'
    if res.nan == 2:
        return 'bad:the result is NaN for every point of the box'
    tol = TOL * max([1.0] + [abs(x) for x in (lo, hi) if abs(x) != float('inf')])
    if res.lo > hi + tol or res.hi < lo - tol:
        return f'bad:the result lies in {res}, outside [{lo:g}, {hi:g}]'
    if ilo is not None and ilo <= ihi and res.nan == 0 and res.lo >= ilo - tol and res.hi <= ihi + tol:
        return 'ok'
    return f'und:interval {res} does not decide [{lo:g}, {hi:g}]'


def run_clause(ctx, rep, rule, fam, method, clause, memo):
    cls = ctx.prog.cls(Q[fam])
    fn = cls.lookup(method)
    if fn is None:
        raise AnalysisError(f'anchor vanished: {fam}.{method}')
    n_ok = n_und = n_bad = 0
    first_und = None
    thetas = THETA[fam] + list(clause.extra_thetas.get(fam, []))
    if clause.only_independence:
        thetas = [INDEPENDENCE_THETA[fam]] if fam in INDEPENDENCE_THETA else []
        if not thetas:
            return 'n/a'
    for th in thetas:
        for (u, v) in clause.boxes:
            key = (fam, method, th, u, v, clause.domain)
            if key not in memo:
                try:
                    memo[key] = evaluate(ctx, cls, method, th, u, v, alts=True, domain=clause.domain,
                                         domcache=memo.setdefault('dom', {}))
                except RecursionError:
                    memo[key] = [(TOP, False, None)]
            lo, hi = clause.outer(u, v)
            ilo, ihi = clause.inner(u, v) if clause.inner else (None, None)
            ds = [('ok' if (clause.same_as and ident == clause.same_as) else decide(res, lo, hi, ilo, ihi), definite)
                  for res, definite, ident in memo[key]]
            refuted = [x for x, definite in ds if x.startswith('bad:') and definite]
            if not ds:
                d = 'und:no return path is feasible for this box'
            elif refuted:
                d = refuted[0]
            elif all(x == 'ok' for x, _ in ds):
                d = 'ok'
            else:
                und = [x for x, _ in ds if x != 'ok']
                d = 'und:' + und[0][4:] + (' (on a path that is not certainly taken)' if und[0].startswith('bad:') else '')
            if d == 'ok':
                n_ok += 1
            elif d.startswith('bad:'):
                cons = f'{fam}.{method}: {clause.name}'
                if clause.point_keyed:
                    cons += f' @ theta={th.lo:g} u={u.lo:g} v={v.lo:g}' if (th.exact and u.exact and v.exact) else f' @ {_fmt((fam, th, u, v))}'
                rep.bad(rule, fn, fn.node.name, f'{fam}.{method}: {clause.what} is refuted for {_fmt((fam, th, u, v))}: {d[4:]}',
                        construct=cons)
                n_bad += 1
                if not clause.point_keyed or n_bad >= 6:
                    return 'bad'   # ordinary clauses: one witness box is the finding; point-keyed clauses list every refuted point
            else:
                n_und += 1
                first_und = first_und or f'{_fmt((fam, th, u, v))}: {d[4:]}'
    total = n_ok + n_und
    if n_bad:
        return 'bad'
    if n_und == 0:
        rep.ok(rule, fn, fn.node.name, f'{clause.what}: proved on all {total} boxes', construct=f'{fam}.{method}: {clause.name}')
        return 'ok'
    rep.undecided(rule, fn, fn.node.name, f'{clause.what}: proved on {n_ok}/{total} boxes, not refuted on any; first undecided box: {first_und}',
                  construct=f'{fam}.{method}: {clause.name}')
    return 'und'


def cdf_clauses():
    edge = [CLOSED]
    inner_and_border = [NEAR0] + INNER + [NEAR1]
    grid = [(u, v) for u in inner_and_border for v in inner_and_border]
    return [
        Clause('C(0,v)=0', 'C(0, v) = 0', [(ZERO, x) for x in [ZERO, ONE, CLOSED] + inner_and_border], lambda u, v: (0.0, 0.0)),
        Clause('C(u,0)=0', 'C(u, 0) = 0', [(x, ZERO) for x in [ZERO, ONE, CLOSED] + inner_and_border], lambda u, v: (0.0, 0.0)),
        Clause('C(1,1)=1', 'C(1, 1) = 1', [(ONE, ONE)], lambda u, v: (1.0, 1.0)),
        Clause('C(u,1)=u', 'C(u, 1) = u', [(x, ONE) for x in inner_and_border], lambda u, v: (u.lo, u.hi), None),
        Clause('C(1,v)=v', 'C(1, v) = v', [(ONE, x) for x in inner_and_border], lambda u, v: (v.lo, v.hi), None),
        Clause('frechet', 'max(u+v-1, 0) <= C(u, v) <= min(u, v)', grid,
               lambda u, v: (max(u.lo + v.lo - 1.0, 0.0), min(u.hi, v.hi)),
               lambda u, v: (max(u.hi + v.hi - 1.0, 0.0), min(u.lo, v.lo))),
        Clause('range', '0 <= C(u, v) <= 1 and never NaN on the closed unit square', [(CLOSED, CLOSED)] + grid, lambda u, v: (0.0, 1.0)),
        Clause('independence', 'C(u, v) = u * v at the independence parameter', grid, lambda u, v: (u.lo * v.lo, u.hi * v.hi), None, True),
    ]


OPEN = IV(LO, HI)


def h_clauses():
    grid = [(u, v) for u in INNER for v in INNER]
    dom, edge = (OPEN, OPEN), (CLOSED, OPEN)
    return [
        Clause('h in [0,1]', '0 <= partial_derivative(u, v) <= 1', grid, lambda u, v: (0.0, 1.0), domain=dom),
        Clause('h(0,v)=0', 'partial_derivative(0, v) = 0', [(ZERO, x) for x in INNER], lambda u, v: (0.0, 0.0), domain=edge),
        Clause('h(1,v)=1', 'partial_derivative(1, v) = 1', [(ONE, x) for x in INNER], lambda u, v: (1.0, 1.0), domain=edge),
        Clause('independence', 'partial_derivative(u, v) = u at the independence parameter', grid, lambda u, v: (u.lo, u.hi), None, True, domain=dom, same_as='u'),
    ]


def pdf_clauses():
    grid = [(u, v) for u in INNER for v in INNER]
    dom = (OPEN, OPEN)
    return [Clause('c >= 0', 'probability_density(u, v) >= 0 and never NaN', grid, lambda u, v: (0.0, float('inf')), domain=dom),
            Clause('independence', 'probability_density(u, v) = 1 at the independence parameter', grid, lambda u, v: (1.0, 1.0), 'same', True, domain=dom)]


def ppf_clauses():
    grid = [(u, v) for u in INNER for v in INNER]
    dom = (OPEN, OPEN)
    return [Clause('ppf in [0,1]', '0 <= percent_point(y, v) <= 1', grid, lambda u, v: (0.0, 1.0), domain=dom),
            Clause('independence', 'percent_point(y, v) = y at the independence parameter', grid, lambda u, v: (u.lo, u.hi), None, True, domain=dom, same_as='u')]




def bracket_clauses(lo_end):
    """The generic quantile search brackets the root of h(u, v) - y on [lo_end, 1]: for every y >= 1e-4 of the property's
    range the function must be <= 0 at the lower end, i.e. h(lo_end, v) <= 1e-4 for every v in [1e-4, 1 - 1e-4]."""
    pt = IV(lo_end)
    boxes = [(pt, IV(LO)), (pt, IV(HI))] + [(pt, x) for x in INNER]
    return [Clause('bracket lower end', f'partial_derivative({lo_end:g}, v) <= 1e-4 (so that the search bracket [{lo_end:g}, 1] has a sign change for every y >= 1e-4)',
                   boxes, lambda u, v: (-float('inf'), LO), lambda u, v: (-float('inf'), LO), domain=(CLOSED, OPEN), extra_thetas=EXACT_THETAS, point_keyed=True)]


def generator_clauses():
    """generator(1) = 0 and the generator is finite and non-negative on (0, 1] (the second coordinate of a box is a dummy)."""
    pts = [(x, ONE) for x in INNER + [NEAR1]]
    return [Clause('generator(1)=0', 'generator(1) = 0', [(ONE, ONE)], lambda u, v: (0.0, 0.0)),
            Clause('generator(0)=inf', 'generator(0) = +inf (the generator is strict)', [(ZERO, ONE)], lambda u, v: (float('inf'), float('inf'))),
            Clause('generator>=0', 'generator(t) >= 0 and never NaN for t in [1e-4, 1]', pts, lambda u, v: (0.0, float('inf')))]


def refine(ctx):
    """thorough tier: every theta piece and every inner cell is halved (8x the boxes), and the interval operators are
    cross-checked against numpy on random operands (a test of the analyser, not of the library)."""
    if not ctx.thorough or ctx.memo.get('ivcases.refined'):
        return
    ctx.memo['ivcases.refined'] = True
    from ..ivkind import soundness_selftest
    bad = soundness_selftest(n=6000, seed=1)
    if bad:
        raise AnalysisError(f'interval domain self-test failed: {bad[:2]}')
    for fam, pieces in THETA.items():
        out = []
        for p in pieces:
            if p.exact:
                out.append(p)
            else:
                mid = (p.lo * p.hi) ** 0.5 if p.lo > 0 else (-((p.lo * p.hi) ** 0.5) if p.hi < 0 else (p.lo + p.hi) / 2)
                out += [IV(p.lo, mid), IV(mid, p.hi)]
        THETA[fam] = out
    cuts = sorted(set(CUTS + [(a + b) / 2 for a, b in zip(CUTS, CUTS[1:])]))
    INNER[:] = [IV(a, b) for a, b in zip(cuts, cuts[1:])]


def run_family_clauses(ctx, rep, rule, method, clauses, families=('Clayton', 'Frank', 'Gumbel')):
    memo = ctx.memo.setdefault('ivcases', {})
    n = 0
    for fam in families:
        cls = ctx.prog.cls(Q[fam])
        if cls.lookup(method) is None:
            continue
        for c in clauses:
            if run_clause(ctx, rep, rule, fam, method, c, memo) != 'n/a':
                n += 1
    return n


def monotone_refutation(ctx, rep, rule, method, what, families=('Clayton', 'Frank', 'Gumbel'), domain=None):
    """method(x1, v) <= method(x2, v) for x1 < x2 (first argument), exact theta, narrow cells: refuted when the interval at the
    smaller argument lies entirely above the interval at the larger one."""
    k = 12 if ctx.thorough else 6
    cuts = [0.03 + 0.94 * i / k for i in range(k + 1)]
    xs = [IV(c, c + 1e-4) for c in cuts]
    vs = [IV(c, c + 1e-4) for c in cuts[::2]]
    dom = domain or (OPEN, OPEN)
    cache = ctx.memo.setdefault('ivcases', {}).setdefault('dom', {})
    n = 0
    for fam in families:
        cls = ctx.prog.cls(Q[fam])
        fn = cls.lookup(method)
        if fn is None or (method == 'percent_point' and fn.cls is not cls):
            continue
        n += 1
        total = und = 0
        refuted = None
        for th in EXACT_THETAS[fam]:
            for v in vs:
                prev = None
                for x in xs:
                    total += 1
                    alts = evaluate(ctx, cls, method, th, x, v, alts=True, domain=dom, domcache=cache)
                    good = [r for r, d_, _ in alts if d_ and isinstance(r, IV) and not r.nan]
                    cur = good[0] if len(alts) == len(good) == 1 else None
                    if cur is None:
                        und += 1
                        prev = None
                        continue
                    if prev is not None and prev[1].lo > cur.hi + 1e-9:
                        refuted = refuted or (th, v, prev, (x, cur))
                    prev = (x, cur)
        cons = f'{fam}.{method}: {what}'
        if refuted:
            th, v, (x1, r1), (x2, r2) = refuted
            rep.bad(rule, fn, fn.node.name, f'{fam}.{method}, theta = {th.lo:g}, second argument in {v}: the value for the first argument in {x1} lies in {r1}, above the value '
                    f'for {x2} ({r2}): not {what}', construct=cons)
        else:
            rep.undecided(rule, fn, fn.node.name, f'{what}: not refuted on any of {total} consecutive cells'
                          f'{" (" + str(und) + " not evaluated)" if und else ""} (a relation between two evaluations; refutation only)', construct=cons)
    return n
