"""C15 - sampling is reproducible per model seed and never perturbs the global RNG."""

import ast

from .. import contracts as K
from ..cfg import CFG
from ..effects import RANDOM_STATE_DECORATOR, SET_RANDOM_STATE, RngSummary, _inside_with_set_random_state, rng_sites, scope_of_context
from ..idioms import depends_on, enclosing, guard_chain, is_none_test, only_raises, stmt_of
from ..kinds import length_of_return
from ..model import AnalysisError, call_name, is_self_attr, short, walk_no_nested
from ..absint import TOP


def _calls_to(prog, fn, dotted):
    return [n for n in walk_no_nested(fn.node) if isinstance(n, ast.Call)
            and prog.resolve(fn.module, n.func) == dotted]


def _capture_helpers(prog, fn):
    """Calls of project helpers that read the global state (np.random.get_state) and never write it."""
    out = []
    for c in walk_no_nested(fn.node):
        if isinstance(c, ast.Call):
            g = prog.functions.get(prog.resolve(fn.module, c.func) or '')
            if g is not None and g is not fn and _calls_to(prog, g, 'numpy.random.get_state') and not _calls_to(prog, g, 'numpy.random.set_state'):
                out.append(c)
    return out


def get_rng(ctx):
    if 'rng' not in ctx.memo:
        ctx.memo['rng'] = RngSummary(ctx)
    return ctx.memo['rng']


def run(ctx, rep):
    prog = ctx.prog
    rep.trust(*K.TRUSTED_BASE_COMMON, 'numpy.random.get_state/set_state save and restore the complete legacy '
              'global generator state', 'scipy <dist>.rvs / gaussian_kde.resample draw from the global numpy '
              'generator when random_state/seed is not passed')
    rep.notes.append('C15: decides the structure that makes seeding work (context manager, decorator, scoping of '
                     'every RNG consumer, who writes random_state, dataset generators); equality of two concrete '
                     'streams is not computed.')
    rep.guarded('D1.d1', d1, ctx, rep)
    rep.guarded('D2.d2', d2, ctx, rep)
    rep.guarded('D3.d3_d4', d3_d4, ctx, rep)
    rep.guarded('D5.d5', d5, ctx, rep)
    rep.guarded('D6.d6', d6, ctx, rep)
    rep.guarded('D7.d7_nested', d7_nested, ctx, rep)


# -------------------------------------------------------------------- D1 context manager
def d1(ctx, rep):
    prog = ctx.prog
    rep.rule('D1.cm', 'utils.set_random_state is a generator context manager')
    rep.rule('D1.save', 'the original global state is captured before the model state is installed')
    rep.rule('D1.install', "the installed state is the model's own random_state")
    rep.rule('D1.restore', 'every exit after the install (normal or exceptional) passes np.random.set_state(original)')
    rep.rule('D1.writeback', 'the advanced state is captured before the restore and handed to the model setter on every exit')
    from ..inline import inlined_view
    fn = inlined_view(ctx, prog.func(SET_RANDOM_STATE))
    rep.check('D1.cm', fn, fn.node.name, any(d.endswith('contextmanager') for d in fn.decorators)
              and any(isinstance(n, ast.Yield) for n in walk_no_nested(fn.node)),
              'decorated @contextlib.contextmanager and yields', construct='set_random_state')
    if len(fn.params) < 2:
        raise AnalysisError('set_random_state no longer takes (random_state, set_model_random_state)')
    p_state, p_setter = fn.params[0], fn.params[1]
    cfg = CFG(fn.node)
    gets = _calls_to(prog, fn, 'numpy.random.get_state') + _capture_helpers(prog, fn)
    sets = _calls_to(prog, fn, 'numpy.random.set_state')
    yields = [n for n in walk_no_nested(fn.node) if isinstance(n, ast.Yield)]
    if not yields:
        rep.bad('D1.cm', fn, fn.node.name, 'no yield', construct='set_random_state')
        return
    ynode = cfg.node_containing(yields[0])
    dom = cfg.dominators()

    # original := np.random.get_state() assigned to a name, dominating every set_state
    saves = []
    for g in gets:
        st = stmt_of(g)
        if isinstance(st, ast.Assign) and st.value is g and len(st.targets) == 1 and isinstance(st.targets[0], ast.Name):
            n = cfg.node_of(st)
            if n is not None and n.id in dom.get(ynode.id, ()):
                saves.append((st.targets[0].id, st, n))
    installs, restores = [], []
    for s in sets:
        arg = s.args[0] if s.args else None
        n = cfg.node_containing(s)
        if arg is not None and any(isinstance(a, ast.Name) and a.id == sv[0] for sv in saves for a in [arg]):
            restores.append((s, n))
        else:
            installs.append((s, n, arg))
    if not saves:
        rep.bad('D1.save', fn, fn.node.name, 'no `name = np.random.get_state()` dominating the yield',
                construct='original_state = np.random.get_state()')
        return
    orig_name, save_stmt, save_node = saves[0]
    ok_install = bool(installs)
    for s, n, arg in installs:
        rep.check('D1.save', fn, s, save_node.id in dom.get(n.id, ()) and save_node.id != n.id,
                  f'`{orig_name} = np.random.get_state()` dominates the installation of the model state',
                  'the model state is installed on a path on which the original global state was not captured first')
        good = (isinstance(arg, ast.Call) and call_name(arg) == 'get_state' and isinstance(arg.func, ast.Attribute)
                and isinstance(arg.func.value, ast.Name) and arg.func.value.id == p_state)
        rep.check('D1.install', fn, s, good,
                  f'installs `{p_state}.get_state()`', f'installs something other than the state of parameter `{p_state}`')
        # between install and yield nothing may escape without restore: covered by the all-exits rule
    if not ok_install:
        rep.bad('D1.install', fn, fn.node.name, 'no np.random.set_state(<model state>) before the yield',
                construct='np.random.set_state(random_state.get_state())')
    # all exits: from every install node, every path to exit / raise passes a restore node
    restore_ids = {n.id for _s, n in restores}
    for s, n, _arg in installs or [(None, ynode, None)]:
        escaped = _reach_without(cfg, n, restore_ids)
        exits = []
        if cfg.exit.id in escaped:
            exits.append('normal exit')
        if cfg.raise_exit.id in escaped:
            exits.append('exceptional exit')
        rep.check('D1.restore', fn, s if s is not None else yields[0], not exits and bool(restore_ids),
                  f'np.random.set_state({orig_name}) lies on every path from here to the function exits',
                  f'the {" and the ".join(exits) or "exit"} can be reached without restoring the original state '
                  f'({orig_name})', path=f'entry {fn.short} -> {short(s, 50) if s is not None else "yield"} -> '
                  f'{", ".join(exits)}')
    # write-back: on every path from the yield to an exit: capture (np.random.get_state()) then
    # setter(<depends on capture>) ; capture strictly before restore
    captures = [g for g in gets if stmt_of(g) is not save_stmt]
    cap_ids = {cfg.node_containing(g).id for g in captures}
    setter_calls = [c for c in walk_no_nested(fn.node) if isinstance(c, ast.Call) and isinstance(c.func, ast.Name)
                    and c.func.id == p_setter]
    good_setters = []
    for c in setter_calls:
        arg = c.args[0] if c.args else None
        if arg is None:
            continue
        if _derives_from_capture(fn.node, arg, captures):
            good_setters.append(c)
        else:
            rep.bad('D1.writeback', fn, c, f'`{p_setter}` is called with a value that does not derive from '
                    'np.random.get_state() taken after the body ran')
    set_ids = {cfg.node_containing(c).id for c in good_setters}
    esc = _reach_without(cfg, ynode, set_ids)
    exits = [nm for nid, nm in ((cfg.exit.id, 'normal exit'), (cfg.raise_exit.id, 'exceptional exit')) if nid in esc]
    rep.check('D1.writeback', fn, good_setters[0] if good_setters else yields[0], bool(set_ids) and not exits,
              f'`{p_setter}(<advanced state>)` lies on every path from the yield to the exits',
              f'the {" and the ".join(exits) or "exit"} can be reached from the yield without handing the advanced '
              f'state to `{p_setter}`')
    # capture before restore: no path yield -> restore that avoids every capture
    if restore_ids:
        esc = _reach_without(cfg, ynode, cap_ids)
        hit = sorted(restore_ids & esc)
        rep.check('D1.writeback', fn, captures[0] if captures else yields[0], bool(cap_ids) and not hit,
                  'the advanced state is read (np.random.get_state()) before the original state is restored',
                  'np.random.set_state(original) can run before the advanced state has been read: the stream '
                  'handed back to the model would be the restored global one',
                  construct='capture-before-restore')


def _derives_from_capture(fnnode, arg, captures):
    cap_ids = {id(c) for c in captures}
    if any(id(n) in cap_ids for n in ast.walk(arg)):
        return True
    # through a local object: x = RandomState(); x.set_state(np.random.get_state()); setter(x)
    names = {n.id for n in ast.walk(arg) if isinstance(n, ast.Name)}
    for _ in range(4):
        grew = False
        for n in walk_no_nested(fnnode):
            if isinstance(n, ast.Assign) and any(isinstance(t, ast.Name) and t.id in names for t in n.targets):
                if any(id(x) in cap_ids for x in ast.walk(n.value)):
                    return True
                new = {x.id for x in ast.walk(n.value) if isinstance(x, ast.Name)} - names
                if new:
                    names |= new
                    grew = True
            if isinstance(n, ast.Call) and isinstance(n.func, ast.Attribute) and isinstance(n.func.value, ast.Name) \
                    and n.func.value.id in names and n.func.attr in ('set_state', 'seed', '__setstate__'):
                if any(id(x) in cap_ids for a in n.args for x in ast.walk(a)):
                    return True
                new = {x.id for a in n.args for x in ast.walk(a) if isinstance(x, ast.Name)} - names
                if new:
                    names |= new
                    grew = True
        if not grew:
            break
    return False


def _reach_without(cfg, start, blocked):
    seen = set()
    todo = list(cfg.successors(start, True))
    while todo:
        n = todo.pop()
        if n.id in seen or n.id in blocked:
            continue
        seen.add(n.id)
        todo.extend(cfg.successors(n, True))
    return seen


# ---------------------------------------------------------------------- D2 the decorator
def d2(ctx, rep):
    prog = ctx.prog
    rep.rule('D2.scope', 'random_state wrapper: the wrapped function runs under set_random_state(self.random_state, '
             'self.set_random_state) unless self.random_state is None')
    rep.rule('D2.result', "the wrapper returns the wrapped function's result on every path and forwards all arguments")
    dec = prog.func(RANDOM_STATE_DECORATOR)
    pname = dec.params[0]
    wrappers = [f for f in prog.functions.values() if f.outer is dec]
    rets = [n for n in walk_no_nested(dec.node) if isinstance(n, ast.Return)]
    if len(wrappers) != 1 or not rets or not all(
            isinstance(r.value, ast.Name) and r.value.id == wrappers[0].name for r in rets):
        rep.bad('D2.scope', dec, dec.node.name, 'the decorator does not return its single inner wrapper',
                construct='return wrapper')
        return
    w = wrappers[0]
    if not w.params:
        rep.bad('D2.scope', w, w.node.name, 'the wrapper has no self parameter', construct='wrapper(self, ...)')
        return
    sp = w.params[0]
    from ..idioms import enum_paths, single_def
    calls = [c for c in walk_no_nested(w.node) if isinstance(c, ast.Call) and isinstance(c.func, ast.Name)
             and c.func.id == pname]
    # the wrapped function handed to a project helper that calls it (higher-order form)
    handed = [c for c in walk_no_nested(w.node) if isinstance(c, ast.Call) and c not in calls
              and any(isinstance(a, ast.Name) and a.id == pname for a in c.args)
              and not any(c is x for d_ in w.node.decorator_list for x in ast.walk(d_))]
    if not calls and not handed:
        rep.bad('D2.scope', w, w.node.name, 'the wrapped function is never called', construct='function(self, ...)')
        return

    def res(e):
        """A local that is the single name of an expression stands for that expression."""
        if isinstance(e, ast.Name) and e.id not in w.params:
            d_ = single_def(w.node, e.id)
            if isinstance(d_, ast.AST):
                return d_
        return e

    def only_when_stateless(c):
        st_c = stmt_of(c)
        okg, n_paths = True, 0
        for path in enum_paths(w.body()):
            if path.end is not st_c and st_c not in path.stmts:
                continue
            n_paths += 1
            est = False
            for test, pol in path.conds:
                nt = is_none_test(test) if isinstance(test, ast.expr) else None
                if nt is not None and is_self_attr(res(nt[0]), sp, 'random_state') and nt[1] == pol:
                    est = True
            okg = okg and est
        return okg and n_paths > 0

    def forwards(c, skip=0):
        rest = c.args[skip:]
        return bool(rest and isinstance(rest[0], ast.Name) and rest[0].id == sp
                    and (w.vararg is None or any(isinstance(a, ast.Starred) and isinstance(a.value, ast.Name) and a.value.id == w.vararg for a in rest))
                    and (w.kwarg is None or any(k.arg is None and isinstance(k.value, ast.Name) and k.value.id == w.kwarg for k in c.keywords)))

    scoped = 0
    undecided_scope = False
    for c in calls:
        wth = _inside_with_set_random_state(prog, w, c)
        if wth is not None:
            sc = [scope_of_context(prog, w, it.context_expr) for it in wth.items]
            sc = [x for x in sc if x is not None][0]
            ce, owner, bind = sc
            a0 = ce.args[0] if ce.args else None
            a1 = ce.args[1] if len(ce.args) > 1 else None
            if owner is not w:
                def subst(a):
                    if isinstance(a, ast.Name):
                        return bind.get(a.id, a)
                    if isinstance(a, ast.Attribute) and isinstance(a.value, ast.Name) and a.value.id in bind:
                        return ast.Attribute(value=bind[a.value.id], attr=a.attr, ctx=ast.Load())
                    return a
                a0, a1 = subst(a0), subst(a1)
            ok = is_self_attr(res(a0), sp, 'random_state') and is_self_attr(res(a1), sp, 'set_random_state')
            rep.check('D2.scope', w, ce, ok,
                      f"scoped by the model's own state and setter ({short(ce, 80)})",
                      'the context manager is not given self.random_state and self.set_random_state: the advanced '
                      'stream would be written back to the wrong place')
            scoped += 1
            # the `with` itself must not be reachable with random_state None (get_state() on None) - not a C15 matter
        else:
            # path-based: every path that reaches this unscoped call has established random_state is None
            rep.check('D2.scope', w, c, only_when_stateless(c),
                      'unscoped call is reached only when `self.random_state is None` (global-driven sampling by design)',
                      'the wrapped function is called outside set_random_state although the model may have a seed')
        st = stmt_of(c)
        rep.check('D2.result', w, c, forwards(c) and isinstance(st, ast.Return) and st.value is c,
                  'result returned, arguments forwarded unchanged',
                  'the result of the wrapped function is dropped or its arguments are not forwarded')
    for c in handed:
        h = prog.functions.get(prog.resolve(w.module, c.func) or '')
        idx = next(i for i, a in enumerate(c.args) if isinstance(a, ast.Name) and a.id == pname)
        if h is None or h.cls is not None or idx >= len(h.params) or any(isinstance(a, ast.Starred) for a in c.args[:idx + 1]):
            rep.undecided('D2.scope', w, c, f'the wrapped function is handed to `{short(c.func, 40)}`, which is not followed', construct='higher-order call')
            undecided_scope = True
            continue
        fpar = h.params[idx]
        inner = [x for x in walk_no_nested(h.node) if isinstance(x, ast.Call) and isinstance(x.func, ast.Name) and x.func.id == fpar]
        bindh = {h.params[i]: a for i, a in enumerate(c.args[:len(h.params)]) if not isinstance(a, ast.Starred)}
        if len(inner) != 1 or len(c.args) < len(h.params):
            rep.undecided('D2.scope', w, c, f'`{h.name}` does not call the function it is handed exactly once', construct='higher-order call')
            undecided_scope = True
            continue
        x = inner[0]
        wth = _inside_with_set_random_state(prog, h, x)
        if wth is None:
            rep.check('D2.scope', w, c, only_when_stateless(c),
                      'unscoped call is reached only when `self.random_state is None` (global-driven sampling by design)',
                      f'the wrapped function is called (through {h.name}) outside set_random_state although the model may have a seed')
        else:
            sc = [scope_of_context(prog, h, it.context_expr) for it in wth.items]
            ce, owner, _b = [y for y in sc if y is not None][0]
            if owner is not h:
                rep.undecided('D2.scope', w, c, 'scope factory inside a higher-order helper: not followed', construct='higher-order call')
                undecided_scope = True
                continue
            a0 = ce.args[0] if ce.args else None
            a1 = ce.args[1] if len(ce.args) > 1 else None
            a0 = bindh.get(a0.id, a0) if isinstance(a0, ast.Name) else a0
            a1 = bindh.get(a1.id, a1) if isinstance(a1, ast.Name) else a1
            ok = is_self_attr(res(a0), sp, 'random_state') and is_self_attr(res(a1), sp, 'set_random_state')
            rep.check('D2.scope', w, c, ok, f"scoped (inside {h.name}) by the model's own state and setter",
                      'the context manager is not given self.random_state and self.set_random_state: the advanced '
                      'stream would be written back to the wrong place')
            scoped += 1
        # forwarding: w hands (self, *args, **kwargs) on, the helper passes its own *rest, **kw to the function and returns the result
        fw_h = (h.vararg is not None and any(isinstance(a, ast.Starred) and isinstance(a.value, ast.Name) and a.value.id == h.vararg for a in x.args)
                and len(x.args) == 1 and (h.kwarg is None or any(k.arg is None and isinstance(k.value, ast.Name) and k.value.id == h.kwarg for k in x.keywords))
                and (w.kwarg is None or h.kwarg is not None))
        stx, st = stmt_of(x), stmt_of(c)
        rep.check('D2.result', w, c, forwards(c, len(h.params)) and fw_h and isinstance(stx, ast.Return) and stx.value is x
                  and isinstance(st, ast.Return) and st.value is c,
                  f'result returned through {h.name}, arguments forwarded unchanged',
                  'the result of the wrapped function is dropped or its arguments are not forwarded')
    if not scoped and not undecided_scope:
        rep.bad('D2.scope', w, w.node.name, 'no call of the wrapped function under `with set_random_state(...)`',
                construct='with set_random_state(self.random_state, self.set_random_state)')


# ------------------------------------------------------- D3/D4 scoping of every RNG consumer
def sampler_methods(prog):
    out = []
    for c in prog.classes.values():
        if c.lookup('set_random_state') is None:
            continue
        m = c.methods.get('sample')
        if m is not None:
            out.append(m)
    return sorted(out, key=lambda f: f.qualname)


def d3_d4(ctx, rep):
    prog = ctx.prog
    rng = get_rng(ctx)
    rep.rule('D3.state', 'no np.random.seed / np.random.set_state outside utils.set_random_state; no other entropy source')
    rep.rule('D3.scope', 'every RNG-consuming site reachable from a sampler or dataset generator is scoped')
    rep.rule('D4.sibling', 'every sample() of a class with set_random_state that can consume the RNG is under @random_state')
    n_sites = 0
    for q, sites in rng.sites.items():
        fn = prog.functions[q]
        for s in sites:
            if s.kind == 'write-state':
                inside = q == SET_RANDOM_STATE
                if not inside and fn.cls is None and fn.outer is None and fn.name.startswith('_'):
                    # a private helper of the context manager: every call of it in the package is made by set_random_state itself
                    callers = {f.qualname for f in prog.functions.values() for c_, tg in ctx.cg.callees(f) if any(t.kind == 'proj' and t.fn is fn for t in tg)}
                    refs = [x for f in prog.functions.values() for x in ast.walk(f.node) if isinstance(x, ast.Name) and x.id == fn.name and isinstance(x.ctx, ast.Load)]
                    calls = [x for f in prog.functions.values() for x in ast.walk(f.node) if isinstance(x, ast.Call) and isinstance(x.func, ast.Name) and x.func.id == fn.name]
                    inside = callers == {SET_RANDOM_STATE} and len(refs) == len(calls)
                rep.check('D3.state', fn, s.call, inside,
                          'global-state write inside the context manager',
                          f'{s.what} writes the global generator state outside utils.set_random_state')
            elif s.kind == 'entropy':
                rep.bad('D3.state', fn, s.call, f'{s.what} is a second entropy source: output is no longer a function of the seed')
            elif s.kind == 'private-stream':
                rep.bad('D3.state', fn, s.call, f'{s.what}: what is drawn from it advances neither the model\'s stream nor the global one (successive calls repeat), '
                        'or does not follow the seed at all', construct=f'{fn.node.name}: no generator besides the scoped global one')
            elif s.kind == 'model-stream':
                rep.bad('D3.state', fn, s.call, f'{s.what} outside utils.set_random_state: the model\'s stream is advanced in place by something other than sampling '
                        '(a RandomState shared with the caller or another model moves too), so equal models with equal seeds no longer give equal streams',
                        construct=f'{fn.node.name}: model stream used only through the context manager')
            else:
                n_sites += 1
    rep.floor('D3.scope', 'RNG-consuming call sites in the package', n_sites, 1)
    samplers = sampler_methods(prog)
    rep.floor('D4.sibling', 'sample() definitions in classes with set_random_state', len(samplers), 6)
    for m in samplers:
        if only_raises(m):
            rep.ok('D4.sibling', m, m.node.name, 'abstract (raises NotImplementedError)', construct='def sample')
            continue
        decorated = RANDOM_STATE_DECORATOR in m.decorators
        w = rng.consumes_unscoped(m)
        closure_consumes = w is not None or _closure_has_sites(ctx, rng, m)
        if decorated:
            rep.ok('D4.sibling', m, m.node.name, '@random_state', construct='def sample')
        elif closure_consumes:
            rep.bad('D4.sibling', m, m.node.name,
                    'consumes the global generator but is not under @random_state: a seeded model ignores its seed '
                    'and advances the global state', construct='def sample',
                    path=' -> '.join(w) if w else None)
        else:
            rep.ok('D4.sibling', m, m.node.name, 'RNG-free', construct='def sample')
    # every consuming site: lexically scoped, in a @random_state method, or in a private function all of
    # whose callers inside the sampling closures are scoped
    roots = [m for m in samplers] + [f for f in prog.functions.values()
                                      if f.module.name == 'copulas.datasets' and f.outer is None and not f.name.startswith('_')]
    closure = ctx.cg.closure(roots)
    fit_only = []
    for q, sites in sorted(rng.sites.items()):
        fn = prog.functions[q]
        for s in sites:
            if s.kind != 'consume':
                continue
            if q not in closure:
                fit_only.append(s)
                continue
            if s.scoped_with is not None:
                rep.ok('D3.scope', fn, s.call, 'lexically inside `with set_random_state(...)`')
            elif RANDOM_STATE_DECORATOR in fn.decorators:
                rep.ok('D3.scope', fn, s.call, 'inside a @random_state method')
            else:
                bad = _unscoped_callers(ctx, rng, fn, roots)
                if not bad and fn.outer is not None:
                    rep.undecided('D3.scope', fn, s.call, 'inside a nested function that is handed around as a callable: the scope it runs in is not derived')
                elif bad:
                    rep.bad('D3.scope', fn, s.call,
                            f'reachable from {bad[0].short} outside any random-state scope', path=bad[0].short)
                else:
                    rep.ok('D3.scope', fn, s.call, 'private helper: every caller on a sampling path is scoped')
    rep.extra['rng_sites_total'] = n_sites
    rep.extra['rng_sites_reachable_only_from_fit'] = [f'{s.fn.short}: {short(s.call, 60)}' for s in fit_only]


def _closure_has_sites(ctx, rng, m):
    clo = ctx.cg.closure([m])
    return any(s.kind == 'consume' for q in clo for s in rng.sites.get(q, ()))


def _unscoped_callers(ctx, rng, fn, roots):
    """Public roots from which fn's unscoped consumption is reachable without passing a scope."""
    out = []
    for r in roots:
        if RANDOM_STATE_DECORATOR in r.decorators:
            continue
        w = rng.consumes_unscoped(r)
        if w and any(fn.short in step for step in w):
            out.append(r)
    # a public, undecorated function that is itself the consumer
    if fn in roots and RANDOM_STATE_DECORATOR not in fn.decorators and fn not in out:
        out.append(fn)
    if not out and not fn.name.startswith('_') and fn.cls is None and fn.outer is None:
        out.append(fn)
    return out


# ---------------------------------------------------------------- D5 who writes random_state
def d5(ctx, rep):
    prog = ctx.prog
    rep.rule('D5.writers', 'random_state attributes only ever receive validate_random_state(...) results')
    rep.rule('D5.share', 'library code never seeds one model with another model\'s random state (two nested seeded scopes would share / shadow one stream)')
    rep.rule('D5.validate', 'validate_random_state: None->None, int->RandomState(seed=int), RandomState->same object, else TypeError')
    VAL = 'copulas.utils.validate_random_state'
    n = 0
    for fn in prog.functions.values():
        for node in walk_no_nested(fn.node):
            if isinstance(node, ast.Assign):
                for t in node.targets:
                    if isinstance(t, ast.Attribute) and t.attr == 'random_state':
                        n += 1
                        v = node.value
                        good = isinstance(v, ast.Call) and prog.resolve(fn.module, v.func) == VAL and v.args
                        rep.check('D5.writers', fn, node, bool(good),
                                  'assigned from validate_random_state(...)',
                                  'random_state receives a value that did not pass validate_random_state')
    rep.floor('D5.writers', 'stores into a random_state attribute', n, 3)
    shared = 0
    for fn in prog.functions.values():
        for c in walk_no_nested(fn.node):
            if not isinstance(c, ast.Call):
                continue
            hands_state = [a for a in list(c.args) + [k.value for k in c.keywords]
                           if any(isinstance(x, ast.Attribute) and x.attr == 'random_state' for x in ast.walk(a))]
            is_setter_call = isinstance(c.func, ast.Attribute) and c.func.attr == 'set_random_state'
            is_ctx = prog.resolve(fn.module, c.func) == SET_RANDOM_STATE
            if is_ctx or fn.qualname.startswith(RANDOM_STATE_DECORATOR):
                continue
            kw_state = [k for k in c.keywords if k.arg == 'random_state' and any(
                isinstance(x, ast.Attribute) and x.attr == 'random_state' for x in ast.walk(k.value))]
            if (is_setter_call and not (isinstance(c.func.value, ast.Name) and fn.self_name and c.func.value.id == fn.self_name and not hands_state)) or kw_state:
                shared += 1
                rep.bad('D5.share', fn, c, 'a model is seeded from library code with (or next to) another model\'s random state: '
                        'the inner @random_state scope runs on a private stream, so re-seeding the outer model does not restart '
                        'its samples and the advanced state is written back to the wrong object')
    if not shared:
        rep.ok('D5.share', 'package', None, 'no call of set_random_state / random_state= with a model\'s own state in library code',
               construct='set_random_state calls')
    # the setter used for the write-back must be a plain validating store
    for c in prog.classes.values():
        m = c.methods.get('set_random_state')
        if m is None:
            continue
        stores = [x for x in walk_no_nested(m.node) if isinstance(x, ast.Assign)
                  and any(is_self_attr(t, m.self_name, 'random_state') for t in x.targets)]
        good = len(stores) == 1 and isinstance(stores[0].value, ast.Call) and stores[0].value.args \
            and isinstance(stores[0].value.args[0], ast.Name) and stores[0].value.args[0].id == m.params[1]
        rep.check('D5.writers', m, m.node.name, good, 'stores validate_random_state(<its argument>)',
                  'set_random_state does not store its (validated) argument: the advanced stream is lost',
                  construct='def set_random_state')
    v = prog.func(VAL)
    p = v.params[0]
    from ..boolcond import Conds, atoms_of, evaluate
    from ..idioms import raises as _raises_exc
    cd = Conds(prog, v)
    _normal, rs, rets = cd.exits()
    outcomes = [(st, c) for st, c in rs] + [(st, c) for st, c in rets]
    keys = set()
    for _st, c in outcomes:
        keys |= set(atoms_of(c))
    k_none = [k for k in keys if k == f'isnone[{p}]']
    k_int = [k for k in keys if k.startswith(f'isinstance[{p},') and k.endswith(',int]')]
    k_rs = [k for k in keys if k.startswith(f'isinstance[{p},') and 'RandomState' in k]
    other = keys - set(k_none + k_int + k_rs)
    if not (k_none and k_int and k_rs) or other:
        rep.undecided('D5.validate', v, v.node.name, f'type dispatch not recognised (conditions: {sorted(keys)})', construct='type dispatch')
    else:
        cases = {'none': {k_none[0]: True, k_int[0]: False, k_rs[0]: False}, 'int': {k_none[0]: False, k_int[0]: True, k_rs[0]: False},
                 'rs': {k_none[0]: False, k_int[0]: False, k_rs[0]: True}, 'else': {k_none[0]: False, k_int[0]: False, k_rs[0]: False}}
        for case, env in cases.items():
            hit = [st for st, c in outcomes if evaluate(c, env)]
            if len(hit) != 1:
                rep.undecided('D5.validate', v, v.node.name, f'case `{case}`: {len(hit)} outcomes', construct=f'case {case}')
                continue
            end = hit[0]
            val = end.value if isinstance(end, ast.Return) else None
            if case == 'none':
                rep.check('D5.validate', v, end, isinstance(end, ast.Return) and (val is None or (isinstance(val, ast.Constant) and val.value is None)
                                                                                 or (isinstance(val, ast.Name) and val.id == p)),
                          'None -> None', 'a None seed no longer yields None (global-driven sampling is lost)', construct='case none')
            elif case == 'int':
                good = (isinstance(val, ast.Call) and prog.resolve(v.module, val.func) == 'numpy.random.RandomState'
                        and ((val.args and isinstance(val.args[0], ast.Name) and val.args[0].id == p) or any(
                            k.arg == 'seed' and isinstance(k.value, ast.Name) and k.value.id == p for k in val.keywords)))
                rep.check('D5.validate', v, end, good, 'int -> np.random.RandomState(seed=<that int>)',
                          'an int seed is not turned into RandomState(seed=<that int>)', construct='case int')
            elif case == 'rs':
                rep.check('D5.validate', v, end, isinstance(val, ast.Name) and val.id == p,
                          'RandomState -> the same object (shared, advanced stream)', 'a RandomState argument is not passed through unchanged',
                          construct='case RandomState')
            else:
                rep.check('D5.validate', v, end, isinstance(end, ast.Raise) and _raises_exc([end], ('TypeError',)),
                          'anything else -> TypeError', 'an unsupported seed type is not rejected with TypeError', construct='case other')


# --------------------------------------------------------------------------- D6 datasets
def d6(ctx, rep):
    prog = ctx.prog
    rng = get_rng(ctx)
    rep.rule('D6.scope', 'dataset generators draw only inside `with set_random_state(validate_random_state(seed), ...)`')
    rep.rule('D6.size', 'the object returned by a dataset generator has exactly `size` rows (length provenance)')
    gens = [f for f in prog.functions.values() if f.module.name == 'copulas.datasets' and f.outer is None
            and not f.name.startswith('_')]
    rep.floor('D6.scope', 'public dataset generators', len(gens), 8)
    rep.rule('D6.fresh', 'a dataset generator builds its table on every call: it is not wrapped in a memoising decorator that hands the same mutable object to every caller')
    for g in sorted(gens, key=lambda f: f.qualname):
        memo = None
        for d_ in g.node.decorator_list:
            q_ = prog.resolve(g.module, d_.func if isinstance(d_, ast.Call) else d_) or ''
            if q_ in ('functools.lru_cache', 'functools.cache'):
                memo = d_
        if memo is not None:
            rep.bad('D6.fresh', g, memo, f'`@{short(memo, 40)}`: every call with the same (size, seed) returns the same Series/DataFrame object; a caller that edits its table in place '
                    'changes what the next call returns, so the output is no longer a function of (size, seed)', construct=f'{g.node.name}: built on every call')
        else:
            rep.ok('D6.fresh', g, g.node.name, 'no memoising decorator', construct=f'{g.node.name}: built on every call')
        seedp = 'seed' if 'seed' in g.params else None
        sites = [s for s in rng.sites[g.qualname] if s.kind == 'consume']
        for s in sites:
            if s.scoped_with is None:
                rep.bad('D6.scope', g, s.call, 'draw outside `with set_random_state(...)`: consumes and advances the global generator')
                continue
            sc = [scope_of_context(prog, g, it.context_expr) for it in s.scoped_with.items]
            ce, owner, bind = [x for x in sc if x is not None][0]
            a0 = ce.args[0] if ce.args else None
            if isinstance(a0, ast.Name) and a0.id not in owner.params:
                from ..idioms import single_def
                d_ = single_def(owner.node, a0.id)
                a0 = d_ if isinstance(d_, ast.AST) else a0
            seed_arg = a0.args[0] if (isinstance(a0, ast.Call) and prog.resolve(owner.module, a0.func) == 'copulas.utils.validate_random_state'
                                      and a0.args) else None
            if owner is not g and isinstance(seed_arg, ast.Name):
                seed_arg = bind.get(seed_arg.id)
            good = isinstance(seed_arg, ast.Name) and seed_arg.id == seedp
            if seed_arg is None and isinstance(a0, ast.Name) and (prog.resolve(owner.module, a0) or '') in prog.functions:
                rep.bad('D6.scope', g, s.call, f'the scope is given the function `{a0.id}` where the random state belongs (arguments swapped?): the seed is not applied')
                continue
            if seed_arg is None and not isinstance(a0, (ast.Constant, ast.Call)):
                rep.undecided('D6.scope', g, s.call, f'what the scope is seeded with (`{short(a0, 40) if a0 is not None else "?"}`) is not derived')
                continue
            rep.check('D6.scope', g, s.call, good, f'scoped by validate_random_state({seedp})',
                      'the scope is not seeded with this generator\'s `seed` parameter', )
        # calls of other generators must forward (size, seed)
        for call, tgts in ctx.cg.callees(g, nested=False):
            for t in tgts:
                if t.kind == 'proj' and t.fn in gens:
                    b = ctx.memo.setdefault('binder_obj', _binder(ctx)).bind(g, call, t.fn)
                    okb = all(len(b.get(pn, [])) == 1 and isinstance(b[pn][0], ast.Name) and b[pn][0].id == pn
                              for pn in ('size', 'seed') if pn in t.fn.params)
                    rep.check('D6.scope', g, call, okb, 'forwards (size, seed) to the nested generator',
                              'size/seed are not forwarded unchanged to the nested generator')
        val, _lk = length_of_return(ctx, g)
        if isinstance(val, tuple) and val[0] == 'len' and val[1] == 'size':
            rep.ok('D6.size', g, g.node.name, 'returned object has len = size', construct='return length')
        elif val is TOP or not isinstance(val, tuple):
            rep.undecided('D6.size', g, g.node.name, f'length of the returned object not derivable ({val})',
                          construct='return length')
        else:
            rep.bad('D6.size', g, g.node.name, f'returned object has length {val}, not `size`', construct='return length')


def _binder(ctx):
    from ..effects import AliasAnalysis
    b = AliasAnalysis.__new__(AliasAnalysis)
    b.prog = ctx.prog
    return b


# --------------------------------------------------------------------------- D7 no nested scope on the same model
def d7_nested(ctx, rep):
    """A @random_state method that (directly or through undecorated helpers) calls another @random_state method of the same
    object opens the scope twice: the inner scope restarts from the model's stored state (replaying numbers the outer scope already
    drew) and on exit the outer scope overwrites what the inner one stored, so the stream does not advance."""
    prog = ctx.prog
    rep.rule('D7.nested', 'no @random_state method reaches another @random_state method of the same object (the scopes do not nest on one model)')
    decorated = [f for f in prog.functions.values() if RANDOM_STATE_DECORATOR in f.decorators and f.cls is not None and f.self_name]
    n = 0
    for m in sorted(decorated, key=lambda f: f.qualname):
        seen, todo = {m.qualname}, [(m, [m.short])]
        hit = None
        while todo and hit is None:
            f, path = todo.pop()
            for c in walk_no_nested(f.node):
                if not (isinstance(c, ast.Call) and isinstance(c.func, ast.Attribute) and isinstance(c.func.value, ast.Name) and c.func.value.id == f.self_name):
                    continue
                g = m.cls.lookup(c.func.attr)
                if g is None or g.qualname in seen or g.kind != 'method':
                    continue
                seen.add(g.qualname)
                if RANDOM_STATE_DECORATOR in g.decorators:
                    hit = (c, path + [g.short])
                    break
                todo.append((g, path + [g.short]))
        n += 1
        if hit:
            rep.bad('D7.nested', m, hit[0], f'{m.short} runs under @random_state and reaches {hit[1][-1]}, also under @random_state, on the same object: the inner scope replays the '
                    'model\'s stored state and the outer exit discards its advance (successive seeded calls repeat)', construct=f'{m.cls.name}.{m.name}: nested scope',
                    path=' -> '.join(hit[1]))
        else:
            rep.ok('D7.nested', m, m.node.name, 'no nested scope on self', construct=f'{m.cls.name}.{m.name}: nested scope')
