"""C10 - bivariate fit calibrates theta to the data's Kendall tau or refuses (PARTIAL)."""

import ast

from .. import contracts as K
from ..absint import TOP, Frame
from ..cfg import CFG
from ..idioms import enum_paths, raises, stmt_of
from ..kinds import RankKind
from ..model import AnalysisError, call_name, const_value, is_self_attr, kwarg, short, walk_no_nested

BIV = 'copulas.bivariate.base.Bivariate'
DOMAINS = {  # mathematical parameter domains of the three families (closed interval, excluded points)
    'Clayton': ((0.0, float('inf')), []),
    'Frank': ((-float('inf'), float('inf')), [0]),
    'Gumbel': ((1.0, float('inf')), []),
}


def lit(node):
    """Literal evaluation that understands float('inf') and unary minus."""
    if isinstance(node, ast.Call) and call_name(node) == 'float' and node.args and isinstance(const_value(node.args[0]), str):
        try:
            return float(const_value(node.args[0]))
        except ValueError:
            return None
    if isinstance(node, ast.UnaryOp) and isinstance(node.op, ast.USub):
        v = lit(node.operand)
        return -v if isinstance(v, (int, float)) else None
    if isinstance(node, (ast.List, ast.Tuple)):
        vals = [lit(e) for e in node.elts]
        return None if any(v is None for v in vals) else vals
    if isinstance(node, ast.Attribute) and node.attr in ('inf', 'infty', 'Inf'):
        return float('inf')
    v = const_value(node)
    return v if isinstance(v, (int, float)) else None


def calibrator(ctx):
    """The method of Bivariate that stores self.theta = self.compute_theta() (`_compute_theta` on the pinned tree),
    found by what it does, not by its private name."""
    from ..model import PrivateAnchorMissing
    prog = ctx.prog
    if 'c10.calibrator' in ctx.memo:
        return ctx.memo['c10.calibrator']
    cls = prog.cls(BIV)
    found = [m for m in cls.methods.values() if m.self_name and any(
        isinstance(s_, ast.Assign) and any(is_self_attr(t, m.self_name, 'theta') for t in s_.targets) and isinstance(s_.value, ast.Call)
        and is_self_attr(s_.value.func, m.self_name, 'compute_theta') for s_ in walk_no_nested(m.node))]
    found = [m for m in found if m.name not in ('fit',)] or found
    if len(found) != 1:
        raise PrivateAnchorMissing(f'{BIV}.<method that stores self.theta = self.compute_theta()>')
    ctx.memo['c10.calibrator'] = found[0]
    return found[0]


def run(ctx, rep):
    prog = ctx.prog
    rep.trust(*K.TRUSTED_BASE_COMMON, 'scipy.stats.kendalltau returns (tau-b, pvalue)', 'scipy.optimize.least_squares calls the residual function with a rank-1 vector',
              'NumPy >= 2: integrate.quad / float() refuse a size-1 array where a scalar is required')
    rep.notes.append('C10 PARTIAL: decides the validation path of fit (range checks on both columns, tau = element 0 of kendalltau, '
                     'NaN refusal, calibration), validate-after-assign of theta, the admissible sets, who may write theta/tau and '
                     'the scalar contract of the Frank calibration; D7 evaluates the two closed-form calibrations on intervals of tau (refutation of tau(theta(tau)) = tau, proof of admissibility); the Frank calibration is numeric and not decided.')
    # positive evidence that needs no private anchor: some function reachable from fit stores self.theta at all
    fit_ = prog.method(BIV, 'fit', inherited=False)
    clo = ctx.cg.closure([fit_])
    stores = [(g, t_) for g in clo.values() if g.self_name for s_ in walk_no_nested(g.node) if isinstance(s_, (ast.Assign, ast.AugAssign))
              for t_ in (s_.targets if isinstance(s_, ast.Assign) else [s_.target]) if is_self_attr(t_, g.self_name, 'theta')]
    rep.rule('D0.stores', 'some function reachable from Bivariate.fit assigns self.theta (the calibration is not skipped)')
    if stores:
        rep.ok('D0.stores', stores[0][0], stores[0][1], 'theta is assigned during fit', construct='fit assigns theta')
    else:
        rep.bad('D0.stores', fit_, fit_.node.name, 'no function reachable from Bivariate.fit assigns self.theta: after fit the model keeps the theta it was constructed with (None)',
                construct='fit assigns theta')
    rep.guarded('D1.d1', d1, ctx, rep)
    rep.guarded('D2.d2', d2, ctx, rep)
    rep.guarded('D3.d3', d3, ctx, rep)
    rep.guarded('D4.d4', d4, ctx, rep)
    rep.guarded('D5.d5', d5, ctx, rep)
    rep.guarded('D5.d5_pure', d5_pure, ctx, rep)
    rep.guarded('D6.d6', d6, ctx, rep)
    rep.guarded('D7.d7', d7, ctx, rep)


# Kendall's tau of the family as a function of theta, as stated by the property, written so that theta occurs once
# (the interval image is then exact): Clayton theta/(theta+2) = 1 - 2/(theta+2), Gumbel 1 - 1/theta.
def _tau_clayton(th):
    from ..ivkind import IV, add, div, sub
    return sub(IV(1.0), div(IV(2.0), add(th, IV(2.0))))


def _tau_gumbel(th):
    from ..ivkind import IV, div, sub
    return sub(IV(1.0), div(IV(1.0), th))


CALIB = {'copulas.bivariate.clayton.Clayton': (_tau_clayton, 'theta/(theta+2)', 0.0, float('inf')),
         'copulas.bivariate.gumbel.Gumbel': (_tau_gumbel, '1 - 1/theta', 1.0, float('inf'))}


def d7(ctx, rep):
    """Interval abstract interpretation of the closed-form calibrations over a partition of tau in (0, 1)."""
    from ..absint import TOP
    from ..ivkind import IV, evaluate_attrs
    rep.rule('D7.calib', 'closed-form compute_theta (Clayton, Gumbel) evaluated on intervals of tau: the family\'s Kendall tau of the '
             'returned theta meets the interval it came from (refutation only) and theta lies in the admissible set (proved); '
             'Frank calibrates with a numeric solver and is not decided')
    prog = ctx.prog
    n_cells = 200 if ctx.thorough else 50
    cuts = [0.001 + (0.998 * i) / n_cells for i in range(n_cells + 1)]
    n = 0
    for q, (tau_of, formula, lo_adm, hi_adm) in CALIB.items():
        cls = prog.cls(q)
        fn = cls.lookup('compute_theta')
        if fn is None:
            raise AnalysisError(f'anchor vanished: {q}.compute_theta')
        n += 1
        refuted = und = proved_dom = 0
        first = None
        near_one = [(0.999, 0.9999), (0.9999, 0.99999), (0.99999, 0.999999), (0.999999, 0.9999999)]
        for a, b in [(0.0, 0.0), (0.0, 0.001)] + list(zip(cuts, cuts[1:])) + near_one:
            box = IV(a, b)
            alts, ik_ = evaluate_attrs(ctx, cls, 'compute_theta', {'tau': box})
            if not alts:
                from ..absint import Frame
                rs_ = [st_ for st_, d_ in ik_.raise_alts(Frame(fn, {}, cls)) if d_]
                if rs_:
                    rep.bad('D7.calib', fn, rs_[0], f'for tau in {box} compute_theta has no return and raises (`{short(rs_[0], 50)}`): fit refuses data the '
                            f'{cls.name} family can model', construct=f'{cls.name}.compute_theta: admissible tau refused')
                    refuted += 1
                    break
                und += 1
                first = first or f'tau in {box}: no return path is feasible'
                continue
            for th, definite in alts:
                if not isinstance(th, IV):
                    und += 1
                    first = first or f'tau in {box}: result not an interval ({th})'
                    continue
                if th.nan == 0 and th.lo >= lo_adm - 1e-12 and th.hi <= hi_adm:
                    proved_dom += 1
                elif definite and (th.nan == 2 or th.hi < lo_adm - 1e-9):
                    rep.bad('D7.calib', fn, fn.node.name, f'for tau in {box} the returned theta lies in {th}, outside the admissible set '
                            f'[{lo_adm:g}, {hi_adm:g}]', construct=f'{cls.name}.compute_theta: admissible')
                    refuted += 1
                    break
                back = tau_of(th) if th.nan != 2 else th
                if definite and isinstance(back, IV) and (back.nan == 2 or back.lo > b + 1e-9 or back.hi < a - 1e-9):
                    rep.bad('D7.calib', fn, fn.node.name, f'for tau in {box} the returned theta lies in {th}, whose Kendall tau {formula} lies in '
                            f'{back}: the calibration does not invert the family\'s tau map', construct=f'{cls.name}.compute_theta: inverts {formula}')
                    refuted += 1
                    break
            if refuted:
                break
        if not refuted:
            if und:
                rep.undecided('D7.calib', fn, fn.node.name, f'{und} of {len(cuts) - 1} tau cells not evaluated: {first}', construct=f'{cls.name}.compute_theta: inverts {formula}')
            else:
                rep.ok('D7.calib', fn, fn.node.name, f'no tau cell of {len(cuts) - 1} in (0.001, 0.999) refutes tau(theta(tau)) = tau; theta admissible on {proved_dom} path results',
                       construct=f'{cls.name}.compute_theta: inverts {formula}')
    rep.floor('D7.calib', 'closed-form calibrations', n, 2)
    # Frank: the calibration is a numeric solve (not evaluated), but a closed-form *shortcut* on some path is.  For |theta| <= 1.5 the
    # family's Kendall tau has the alternating series theta/9 - theta^3/900 + ..., so theta/9 - theta^3/900 <= tau(theta) <= theta/9
    # for theta >= 0 (mirrored for theta < 0): an enclosure precise enough to refute a wrong small-tau approximation.
    fr_cls = prog.cls('copulas.bivariate.frank.Frank')
    fr_fn = fr_cls.lookup('compute_theta')
    if fr_fn is not None:
        from ..ivkind import mul, sub as isub, div as idiv, power
        edges = [1e-3 * 1.15 ** k for k in range(36)]   # 0.001 .. 0.13
        refuted = None
        closed = 0
        for sign in (1.0, -1.0):
            for a, b in zip(edges, edges[1:]):
                box = IV(a, b) if sign > 0 else IV(-b, -a)
                alts, _ik = evaluate_attrs(ctx, fr_cls, 'compute_theta', {'tau': box})
                for th, definite in alts:
                    if not isinstance(th, IV) or th.nan or not definite:
                        continue
                    closed += 1
                    if max(abs(th.lo), abs(th.hi)) > 1.5:
                        continue
                    lo_t, hi_t = (th.lo, th.hi)
                    f_hi = lambda t: t / 9.0 if t >= 0 else t / 9.0 - t ** 3 / 900.0
                    f_lo = lambda t: t / 9.0 - t ** 3 / 900.0 if t >= 0 else t / 9.0
                    back = IV(min(f_lo(lo_t), f_lo(hi_t)), max(f_hi(lo_t), f_hi(hi_t)))
                    if back.lo > box.hi + 1e-9 or back.hi < box.lo - 1e-9:
                        refuted = refuted or (box, th, back)
        cons = 'Frank.compute_theta: closed-form shortcut inverts the Debye relation'
        if refuted:
            box, th, back = refuted
            rep.bad('D7.calib', fr_fn, fr_fn.node.name, f'for tau in {box} compute_theta returns theta in {th} on a closed-form path; the Frank Kendall tau of that theta lies in {back} '
                    '(series theta/9 - theta^3/900 + ...): the shortcut does not invert the family\'s tau map', construct=cons)
        elif closed:
            rep.undecided('D7.calib', fr_fn, fr_fn.node.name, f'{closed} closed-form results for small tau evaluated, none refuted (the solver path is numeric and not evaluated)', construct=cons)
    # negative tau: Clayton and Gumbel cannot model it; compute_theta must raise or return an inadmissible theta, so that
    # check_theta (which post-dominates the store, D3) refuses - a value silently mapped into the admissible set is accepted
    neg = [(-0.999 + 0.998 * i / 20, -0.999 + 0.998 * (i + 1) / 20) for i in range(20)]
    for q, (tau_of, formula, lo_adm, hi_adm) in CALIB.items():
        cls = prog.cls(q)
        fn = cls.lookup('compute_theta')
        inv = cls.lookup_attr('invalid_thetas')
        invalid = [const_value(e) for e in inv[1].elts] if inv is not None and isinstance(inv[1], (ast.List, ast.Tuple)) else []
        accepted = und = 0
        witness = None
        for a, b in neg:
            alts, _ = evaluate_attrs(ctx, cls, 'compute_theta', {'tau': IV(a, b)})
            for th, definite in alts:
                if not isinstance(th, IV) or th.nan:
                    und += 1
                    continue
                inside = th.lo >= lo_adm and th.hi <= hi_adm and not any(isinstance(v_, (int, float)) and th.lo <= v_ <= th.hi for v_ in invalid) \
                    and not (lo_adm == 0.0 and th.lo <= 0.0 <= th.hi and q.endswith('Clayton') and False)
                if inside and definite:
                    accepted += 1
                    witness = witness or (IV(a, b), th)
        cons = f'{cls.name}.compute_theta: negative tau refused'
        if accepted:
            rep.bad('D7.calib', fn, fn.node.name, f'for tau in {witness[0]} compute_theta returns theta in {witness[1]}, inside the admissible set: fit accepts '
                    f'negatively dependent data that no {cls.name} copula can model instead of raising ValueError', construct=cons)
        elif und:
            rep.undecided('D7.calib', fn, fn.node.name, 'the value returned for negative tau is not derived', construct=cons)
        else:
            rep.ok('D7.calib', fn, fn.node.name, 'for every negative tau cell the returned theta lies outside the admissible set (or the method raises): check_theta refuses',
                   construct=cons)
    # a constant returned by any compute_theta must itself be admissible (check_theta would reject it for every input of that path)
    for famq in list(CALIB) + ['copulas.bivariate.frank.Frank']:
        cls = prog.cls(famq)
        fn = cls.lookup('compute_theta')
        if fn is None:
            continue
        ti = cls.lookup_attr('theta_interval')
        inv = cls.lookup_attr('invalid_thetas')
        invalid = [const_value(e) for e in inv[1].elts] if inv is not None and isinstance(inv[1], (ast.List, ast.Tuple)) else []
        for r in [x for x in walk_no_nested(fn.node) if isinstance(x, ast.Return) and x.value is not None]:
            c = const_value(r.value)
            if isinstance(c, (int, float)) and not isinstance(c, bool) and c in invalid:
                rep.bad('D7.calib', fn, r, f'{cls.name}.compute_theta returns the constant {c}, which is in invalid_thetas: every fit that takes this path '
                        'ends in ValueError (for Frank this includes select_copula on data with tau == 0)', construct=f'{cls.name}.compute_theta: constant {c}')


def d1(ctx, rep):
    prog = ctx.prog
    rep.rule('D1.path', 'every normal exit of Bivariate.fit has passed split_matrix(X), check_marginal on both columns, tau = kendalltau(U, V)[0], the NaN refusal and _compute_theta(), in this order')
    fn = prog.method(BIV, 'fit', inherited=False)
    xp = fn.params[1]
    cfg = CFG(fn.node)
    dom = cfg.dominators(exceptional=False)

    def dominates_exit(node):
        n = cfg.node_containing(node)
        return n is not None and cfg.exit.id in dom and n.id in dom[cfg.exit.id], n

    split = [c for c in walk_no_nested(fn.node) if isinstance(c, ast.Call) and prog.resolve(fn.module, c.func) == 'copulas.bivariate.utils.split_matrix']
    st = stmt_of(split[0]) if split else None
    ok = bool(split) and split[0].args and isinstance(split[0].args[0], ast.Name) and split[0].args[0].id == xp \
        and isinstance(st, ast.Assign) and isinstance(st.targets[0], ast.Tuple) and len(st.targets[0].elts) == 2
    if not ok:
        rep.undecided('D1.path', fn, st if st is not None else fn.node.name, 'the form `U, V = split_matrix(X)` was not found in fit: which values are '
                      'range-checked and correlated is not derived', construct='split_matrix')
        return
    rep.check('D1.path', fn, st, dominates_exit(split[0])[0],
              'U, V = split_matrix(X) on every path', 'the two columns are not taken from X by split_matrix on every path', construct='split_matrix')
    # the columns that are range-checked must be the caller's values themselves (views of X), not a sanitised copy
    from .c20 import get_alias
    sm = get_alias(ctx).summaries.get('copulas.bivariate.utils.split_matrix')
    spl = prog.func('copulas.bivariate.utils.split_matrix')
    raw = sm is not None and ('P', spl.params[0]) in sm.ret
    transformed = [c for c in walk_no_nested(spl.node) if isinstance(c, ast.Call) and call_name(c) in (
        'clip', 'abs', 'round', 'nan_to_num', 'minimum', 'maximum', 'mod', 'where')]
    rep.check('D1.path', spl, transformed[0] if transformed else spl.node.name, raw and not transformed,
              'split_matrix returns views of X (the values that are checked are the values that were given)',
              'split_matrix hands back transformed values: the range check that follows can no longer see out-of-range input',
              construct='raw columns')
    u, v = (e.id for e in st.targets[0].elts)
    chain = [cfg.node_containing(split[0])]
    cms = [c for c in walk_no_nested(fn.node) if isinstance(c, ast.Call) and is_self_attr(c.func, fn.self_name, 'check_marginal')]
    for col in (u, v):
        hit = [c for c in cms if c.args and isinstance(c.args[0], ast.Name) and c.args[0].id == col and dominates_exit(c)[0]]
        rep.check('D1.path', fn, hit[0] if hit else fn.node.name, bool(hit), f'check_marginal({col}) on every path',
                  f'column {col} is not range-checked on every path: values outside [0,1] are silently accepted',
                  construct=f'check_marginal({col})')
        if hit:
            chain.append(cfg.node_containing(hit[0]))
    from ..idioms import attr_stores, private_closure, resolve
    from ..boolcond import Conds, atoms_of, callee_exits, f_and, satisfiable

    def kendall_args(owner, val):
        """Argument expressions of kendalltau when `val` is element 0 / .statistic of a kendalltau(...) call, else None."""
        call = None
        if isinstance(val, tuple) and len(val) == 3 and val[0] == 'unpack' and val[2] == 0 and isinstance(val[1], ast.Call):
            call = val[1]        # `self.tau, *_ = kendalltau(U, V)` / `self.tau, p = kendalltau(U, V)`
        val = resolve(owner.node, val) if isinstance(val, ast.AST) else None
        if isinstance(val, ast.Subscript) and const_value(val.slice) == 0 and isinstance(val.value, ast.Call):
            call = val.value
        if isinstance(val, ast.Attribute) and val.attr in ('statistic', 'correlation') and isinstance(val.value, ast.Call):
            call = val.value
        if call is not None and prog.resolve(owner.module, call.func) == 'scipy.stats.kendalltau' and len(call.args) >= 2:
            return call.args[:2]
        return None

    tau_anchor = None       # the statement of fit at which tau is assigned (directly or through a helper call)
    tau_verdict = None      # True / False / None
    tstores = attr_stores(fn, 'tau')
    if len(tstores) == 1:
        a = kendall_args(fn, tstores[0][1])
        tau_anchor = tstores[0][0]
        if a is not None:
            tau_verdict = {getattr(a[0], 'id', None), getattr(a[1], 'id', None)} == {u, v}
        else:
            tau_verdict = False
    elif not tstores:
        # a private helper called from fit with the two columns
        from .c20 import get_alias
        cal_names = {f.qualname for f in private_closure(ctx, calibrator(ctx))}
        for c in [c for c in walk_no_nested(fn.node) if isinstance(c, ast.Call) and is_self_attr(c.func, fn.self_name)]:
            h = prog.cls(BIV).lookup(c.func.attr)
            if h is None or h.qualname in cal_names or not h.name.startswith('_'):
                continue
            hs = attr_stores(h, 'tau')
            if len(hs) != 1:
                continue
            tau_anchor = stmt_of(c)
            a = kendall_args(h, hs[0][1])
            if a is None:
                tau_verdict = False
            else:
                b = get_alias(ctx).bind(fn, c, h)
                passed = set()
                for x in a:
                    for arg in b.get(getattr(x, 'id', None), []):
                        passed.add(getattr(arg, 'id', None))
                tau_verdict = passed == {u, v}
    if tau_anchor is not None:
        from ..idioms import row_subsets_reaching
        xp_ = fn.data_params[0] if fn.data_params else None
        for st, tn, bn, how in row_subsets_reaching(fn.node, {u, v, xp_} - {None}, before=tau_anchor):
            if tn in (u, v, xp_):
                rep.bad('D1.path', fn, st, f'{tn} is re-bound to {how} of {bn} before tau is estimated: tau is not the Kendall statistic of the sample', construct='tau from all rows')
    if tau_anchor is None or tau_verdict is None:
        rep.undecided('D1.path', fn, fn.node.name, 'where fit assigns self.tau (directly or in a private helper) was not recognised', construct='tau assignment')
    else:
        rep.check('D1.path', fn, tau_anchor, tau_verdict and dominates_exit(tau_anchor)[0],
                  'self.tau = kendalltau(U, V)[0] (the statistic, both columns)', 'tau is not the Kendall statistic of the two columns',
                  construct='tau assignment')
        chain.append(cfg.node_of(tau_anchor) or cfg.node_containing(tau_anchor))
    # NaN refusal: fit never returns normally when tau is NaN, and what stops it is a ValueError
    cd = Conds(prog, fn)
    hook = lambda c2, call2: callee_exits(ctx, c2, call2)
    normal, rs, _rets = cd.exits(callee_hook=hook)
    keys = set(atoms_of(normal))
    for _s, c in rs:
        keys |= set(atoms_of(c))
    nan_atoms = [k for k in keys if 'isnan' in k]
    if not nan_atoms:
        helpers = [c for c in walk_no_nested(fn.node) if isinstance(c, ast.Call) and is_self_attr(c.func, fn.self_name) and c.func.attr.startswith('_')
                   and c.func.attr != calibrator(ctx).name]
        if helpers:
            rep.undecided('D1.path', fn, helpers[0], 'no NaN test of tau visible in fit; a private helper is called whose exits were not derived', construct='NaN refusal')
        else:
            rep.bad('D1.path', fn, fn.node.name, 'fit never tests tau for NaN: a constant column leaves a silently invalid model', construct='NaN refusal')
    else:
        nan = ('atom', nan_atoms[0])
        leak = satisfiable(f_and(normal, nan))
        stops = [st for st, c in rs if satisfiable(f_and(c, nan))]
        ok_exc = bool(stops) and all(raises([st], ('ValueError',)) or not isinstance(st, ast.Raise) for st in stops)
        if leak is None:
            rep.undecided('D1.path', fn, fn.node.name, 'NaN refusal: too many conditions', construct='NaN refusal')
        else:
            rep.check('D1.path', fn, stops[0] if stops else fn.node.name, (not leak) and ok_exc, 'a NaN tau (constant column, too few points) always raises ValueError',
                      'a NaN tau does not always raise ValueError: fit leaves a silently invalid model', construct='NaN refusal')
    cal = calibrator(ctx)
    ct = [c for c in walk_no_nested(fn.node) if isinstance(c, ast.Call) and is_self_attr(c.func, fn.self_name, cal.name)]
    if cal is fn:
        ct = [s_ for s_ in walk_no_nested(fn.node) if isinstance(s_, ast.Assign) and any(is_self_attr(t, fn.self_name, 'theta') for t in s_.targets)]
    rep.check('D1.path', fn, ct[0] if ct else fn.node.name, bool(ct) and dominates_exit(ct[0])[0],
              '_compute_theta() on every normal exit', 'fit can return without calibrating theta', construct='_compute_theta call')
    if ct:
        chain.append(cfg.node_containing(ct[0]))
    # order
    chain = [n for n in chain if n is not None]
    domx = cfg.dominators(exceptional=True)
    in_order = all(chain[i].id in domx.get(chain[i + 1].id, ()) for i in range(len(chain) - 1))
    rep.check('D1.path', fn, fn.node.name, in_order and len(chain) >= 5, 'the steps dominate each other in the stated order',
              'the validation steps do not run in the order split -> range checks -> tau -> NaN refusal -> calibration', construct='order of the steps')


def _side(e):
    """('min'|'max', var) for min(u) / u.min() / np.min(u)."""
    if isinstance(e, ast.Call):
        nm = call_name(e)
        if nm in ('min', 'max', 'amin', 'amax', 'nanmin', 'nanmax'):
            k = 'min' if 'min' in nm else 'max'
            if e.args and isinstance(e.args[0], ast.Name):
                return k, e.args[0].id
            if isinstance(e.func, ast.Attribute) and isinstance(e.func.value, ast.Name) and not e.args:
                return k, e.func.value.id
    return None


def _norm_cmp(c):
    """Compare -> (kind, var, 'lt'|'gt', bound) normalised so the extremum is on the left."""
    if not (isinstance(c, ast.Compare) and len(c.ops) == 1):
        return None
    l, r, op = c.left, c.comparators[0], c.ops[0]
    sl, sr = _side(l), _side(r)
    ops = {ast.Lt: 'lt', ast.Gt: 'gt', ast.LtE: 'le', ast.GtE: 'ge'}
    flip = {'lt': 'gt', 'gt': 'lt', 'le': 'ge', 'ge': 'le'}
    o = ops.get(type(op))
    if o is None:
        return None
    if sl is not None and lit(r) is not None:
        return sl[0], sl[1], o, lit(r)
    if sr is not None and lit(l) is not None:
        return sr[0], sr[1], flip[o], lit(l)
    return None


def d2(ctx, rep):
    prog = ctx.prog
    rep.rule('D2.range', 'check_marginal raises ValueError exactly when min(u) < 0 or max(u) > 1')
    from ..inline import inlined_view
    fn = inlined_view(ctx, prog.method(BIV, 'check_marginal', inherited=False))      # validation split into private helpers is the same validation
    up = fn.params[1]
    # the condition under which a ValueError leaves check_marginal, as a formula over canonical comparison atoms
    from ..boolcond import Conds, atoms_of, equivalent, f_and, f_not, f_or, implies, satisfiable, show
    cd = Conds(prog, fn)
    normal, rs, _rets = cd.exits()
    verr = [c for st_, c in rs if raises([st_], ('ValueError',))]
    if not verr:
        rep.bad('D2.range', fn, fn.node.name, 'no range check raising ValueError', construct='range guard')
        return
    raise_cond = f_or(*verr)
    keys = set(atoms_of(raise_cond)) | set(atoms_of(normal))

    def num(txt):
        try:
            return float(txt)
        except ValueError:
            return None

    def extremum(txt):
        t = txt.replace('np.', '').replace(' ', '')
        for k in ('min', 'max'):
            if t in (f'{k}({up})', f'{up}.{k}()', f'a{k}({up})', f'nan{k}({up})'):
                return k
        return None
    # atoms of the form lt[a|b]: a < b
    below0 = above1 = None
    other = []
    for k in keys:
        if k.startswith('lt['):
            a_, b_ = k[3:-1].split('|', 1)
            if extremum(a_) == 'min' and num(b_) == 0.0:
                below0 = ('atom', k)          # min(u) < 0
                continue
            if extremum(b_) == 'max' and num(a_) == 1.0:
                above1 = ('atom', k)          # 1 < max(u)
                continue
        other.append(k)
    anchor = next((st_ for st_, c in rs if raises([st_], ('ValueError',))), fn.node.name)
    if below0 is None or above1 is None:
        related = [k for k in other if k.startswith('lt[') and any(extremum(x) for x in k[3:-1].split('|', 1))
                   and any(num(x) is not None for x in k[3:-1].split('|', 1))]
        if related:
            missing = 'values below 0 and values above 1' if (below0 is None and above1 is None) else ('values below 0' if below0 is None else 'values above 1')
            # one bound is tested in the canonical form; what stands in for the other is a different comparison
            rep.bad('D2.range', fn, anchor, f'the range test does not refuse {missing}: the comparisons are {sorted(k for k in keys if up in k)}', construct='range test')
        else:
            rep.undecided('D2.range', fn, anchor, f'form of the range test not recognised (comparisons: {sorted(keys)[:4]})', construct='range test')
    else:
        want = f_or(below0, above1)
        # restricted to the two atoms: ValueError is raised exactly when one of them holds (other atoms, e.g. the KS test, only warn)
        rest = [k for k in atoms_of(raise_cond) if ('atom', k) not in (below0, above1)]
        ok = implies(want, raise_cond) is not False and implies(raise_cond, want) is not False if not rest else (implies(want, raise_cond) is True)
        accepts_bad = satisfiable(f_and(normal, want))
        if accepts_bad:
            rep.bad('D2.range', fn, anchor, f'check_marginal can return normally although min(u) < 0 or max(u) > 1 (raise condition: {show(raise_cond)[:120]}): '
                    'values outside [0,1] pass', construct='range test')
        elif not rest and not equivalent(raise_cond, want):
            rep.bad('D2.range', fn, anchor, f'ValueError is raised under `{show(raise_cond)[:120]}`, not exactly when min(u) < 0 or max(u) > 1: valid columns are refused',
                    construct='range test')
        else:
            rep.ok('D2.range', fn, anchor, 'ValueError exactly when min(u) < 0 or max(u) > 1, and no normal exit in that case', construct='range test')


def d3(ctx, rep):
    prog = ctx.prog
    rep.rule('D3.validate', 'theta is validated right after it is assigned: _compute_theta assigns self.theta = self.compute_theta() and then always calls check_theta()')
    rep.rule('D3.check', 'check_theta raises ValueError outside the closed theta_interval or inside invalid_thetas')
    fn = calibrator(ctx)
    cfg = CFG(fn.node)
    pdom = cfg.postdominators()
    assigns = [s for s in walk_no_nested(fn.node) if isinstance(s, ast.Assign) and any(is_self_attr(t, fn.self_name, 'theta') for t in s.targets)]
    checks = [c for c in walk_no_nested(fn.node) if isinstance(c, ast.Call) and is_self_attr(c.func, fn.self_name, 'check_theta')]
    good = bool(assigns) and bool(checks)
    for a in assigns:
        an = cfg.node_of(a)
        good = good and any(cfg.node_containing(c).id in pdom.get(an.id, ()) for c in checks)
        v = a.value
        rep.check('D3.validate', fn, a, isinstance(v, ast.Call) and is_self_attr(v.func, fn.self_name, 'compute_theta'),
                  'theta comes from the family\'s compute_theta()', 'theta is not computed by compute_theta()')
    rep.check('D3.validate', fn, assigns[0] if assigns else fn.node.name, good, 'check_theta() post-dominates the assignment',
              'theta can be assigned without being validated afterwards', construct='check after assign')
    ck = prog.method(BIV, 'check_theta', inherited=False)
    from ..boolcond import Conds, atoms_of, equivalent, f_or, show
    cd = Conds(prog, ck)
    _normal, rs, _rets = cd.exits()
    verr = [(st, c) for st, c in rs if raises([st], ('ValueError',))]
    bounds = _interval_names(ck)
    if not verr:
        rep.bad('D3.check', ck, ck.node.name, 'check_theta never raises ValueError', construct='theta guard')
    elif not bounds:
        rep.undecided('D3.check', ck, ck.node.name, 'lower / upper not unpacked from theta_interval', construct='theta guard')
    else:
        cond = f_or(*[c for _st, c in verr])
        th = f'{ck.self_name}.theta'
        a_lo, a_hi, a_inv = f'lt[{th}|{bounds[0]}]', f'lt[{bounds[1]}|{th}]', f'in[{th}|{ck.self_name}.invalid_thetas]'
        keys = set(atoms_of(cond))
        want_iv = f_or(('atom', a_lo), ('atom', a_hi))
        want = f_or(want_iv, ('atom', a_inv))
        if keys - {a_lo, a_hi, a_inv}:
            # a strict bound shows up as another atom: lt[lower|theta] negated etc.
            strict = {f'lt[{bounds[0]}|{th}]', f'lt[{th}|{bounds[1]}]'} & keys
            if strict:
                rep.bad('D3.check', ck, verr[0][0], 'the interval test treats a bound as excluded (strict comparison): the closed interval [lower, upper] is admissible',
                        construct='interval test')
            else:
                rep.undecided('D3.check', ck, verr[0][0], f'refusal condition not recognised ({show(cond)[:120]})', construct='interval test')
        else:
            eq = equivalent(cond, want)
            eq_iv = equivalent(cond, want_iv)
            rep.check('D3.check', ck, verr[0][0], bool(eq) or bool(eq_iv), 'refuses theta outside the closed interval [lower, upper]',
                      f'the refusal condition `{show(cond)[:120]}` is not "theta < lower or theta > upper"', construct='interval test')
            rep.check('D3.check', ck, verr[0][0], bool(eq), 'refuses theta in invalid_thetas', 'values listed in invalid_thetas are not refused',
                      construct='invalid values test')
    gum = prog.cls('copulas.bivariate.gumbel.Gumbel').methods.get('compute_theta')
    if gum is not None:
        cdg = Conds(prog, gum)
        _n, rsg, _r = cdg.exits()
        ok = any(raises([st], ('ValueError',)) and any(k.startswith('eq[') and f'{gum.self_name}.tau' in k and ('|1]' in k or '[1|' in k or '1.0' in k)
                                                         for k in atoms_of(c)) for st, c in rsg)
        rep.check('D3.check', gum, gum.node.name, ok, 'Gumbel refuses tau == 1 (division by zero)', 'Gumbel does not refuse tau == 1',
                  construct='Gumbel tau == 1')


def _interval_names(ck):
    for s in walk_no_nested(ck.node):
        if isinstance(s, ast.Assign) and isinstance(s.targets[0], ast.Tuple) and len(s.targets[0].elts) == 2 \
                and is_self_attr(s.value, ck.self_name, 'theta_interval'):
            return [e.id for e in s.targets[0].elts]
    return None


def d4(ctx, rep):
    prog = ctx.prog
    rep.rule('D4.domain', 'theta_interval / invalid_thetas of each family equal its mathematical parameter domain')
    n = 0
    for c in prog.cls(BIV).subclasses():
        if c.name not in DOMAINS:
            continue
        n += 1
        iv = lit(c.attrs.get('theta_interval')) if 'theta_interval' in c.attrs else None
        inv = lit(c.attrs.get('invalid_thetas')) if 'invalid_thetas' in c.attrs else None
        (lo, hi), bad = DOMAINS[c.name]
        rep.check('D4.domain', f'{c.qualname[8:]}', None, iv is not None and list(map(float, iv)) == [lo, hi],
                  f'{c.name}.theta_interval = [{lo}, {hi}]', f'{c.name}.theta_interval is {iv}, the family\'s domain is [{lo}, {hi}]',
                  construct=f'{c.name}.theta_interval')
        rep.check('D4.domain', f'{c.qualname[8:]}', None, inv is not None and sorted(inv) == sorted(bad),
                  f'{c.name}.invalid_thetas = {bad}', f'{c.name}.invalid_thetas is {inv}, expected {bad}', construct=f'{c.name}.invalid_thetas')
    rep.floor('D4.domain', 'Archimedean families', n, 3)


def d5(ctx, rep):
    prog = ctx.prog
    rep.rule('D5.writers', 'theta is only written by _compute_theta, by from_dict, or as a copy of an already validated theta; tau only by fit, from_dict, or as a copy')
    n = 0
    from ..idioms import private_closure
    fit_helpers = {f.qualname for f in private_closure(ctx, prog.method(BIV, 'fit', inherited=False))}
    cal = calibrator(ctx)
    ct_helpers = {f.qualname for f in private_closure(ctx, cal)} - fit_helpers | {cal.qualname}
    for fn in prog.functions.values():
        for s in walk_no_nested(fn.node):
            if not isinstance(s, ast.Assign):
                continue
            for t in s.targets:
                if isinstance(t, ast.Attribute) and t.attr in ('theta', 'tau'):
                    if fn.cls is not None and fn.cls.name == 'Edge':
                        continue  # Edge is a record, not a copula
                    types = ctx.cg.expr_classes(fn, t.value)
                    if types and all(not isinstance(c, str) and c.name == 'Edge' for c in types):
                        continue
                    if not types and not (isinstance(t.value, ast.Name) and t.value.id == fn.self_name):
                        n += 1
                        rep.undecided('D5.writers', fn, s, f'the class of `{short(t.value, 30)}` is not derived: whether this store writes a copula is not decided')
                        continue
                    n += 1
                    v = s.value
                    where = fn.short
                    ok = False
                    if t.attr == 'theta':
                        ok = fn.qualname in ct_helpers or (fn.name == 'from_dict' and isinstance(v, ast.Subscript)) \
                            or _is_copy_of(fn, v, 'theta')
                    else:
                        ok = (fn.name == 'fit' and fn.cls is not None and fn.cls.qualname == BIV) or (fn.qualname in fit_helpers and fn is not cal) \
                            or (fn.name == 'from_dict' and isinstance(v, ast.Subscript)) or _is_copy_of(fn, v, 'tau')
                    if not ok and isinstance(v, ast.Name) and v.id in fn.params and fn.cls is None:
                        # a module-level constructor helper: the stored value is its parameter; look at what the callers pass
                        idx = fn.params.index(v.id)
                        passed = []
                        for g in prog.functions.values():
                            for c in walk_no_nested(g.node):
                                if isinstance(c, ast.Call) and prog.resolve(g.module, c.func) == fn.qualname:
                                    a = c.args[idx] if idx < len(c.args) else kwarg(c, v.id)
                                    passed.append(a is not None and _is_copy_of(g, a, t.attr))
                        if passed and all(passed):
                            rep.ok('D5.writers', fn, s, f'{t.attr} receives a copy of an already validated {t.attr} at every call site of {fn.name}')
                        else:
                            rep.undecided('D5.writers', fn, s, f'{where} stores its parameter into {t.attr}: what the callers pass is not derived')
                        continue
                    rep.check('D5.writers', fn, s, ok, f'{t.attr} written by an allowed writer',
                              f'{where} writes {t.attr} directly: the value bypasses calibration/validation')
    rep.floor('D5.writers', 'stores into theta/tau of a copula', n, 1)


def _is_copy_of(fn, v, attr):
    """value is `<obj>.<attr>` or a local that was assigned from `<obj>.<attr>` (copy of a validated value)."""
    if isinstance(v, ast.Attribute) and v.attr == attr:
        return True
    if isinstance(v, ast.Subscript) and isinstance(v.value, ast.Attribute) and v.value.attr == attr:
        return True
    if isinstance(v, ast.Name):
        from ..idioms import assignments
        defs = [a for a in assignments(fn.node, v.id) if isinstance(a, ast.Assign)]
        return bool(defs) and all(isinstance(a.value, ast.Attribute) and a.value.attr == attr for a in defs)
    return False


def d5_pure(ctx, rep):
    prog = ctx.prog
    rep.rule('D5.pure', 'compute_theta is a function of self.tau only: it keeps no state between calibrations (no store outside locals, no mutable class-level cache)')
    n = 0
    for c in prog.cls(BIV).subclasses():
        ct = c.methods.get('compute_theta')
        if ct is None:
            continue
        n += 1
        closure = [ct]
        for call in walk_no_nested(ct.node):
            if isinstance(call, ast.Call):
                for a in [call.func] + list(call.args):
                    if is_self_attr(a, ct.self_name) and c.lookup(a.attr) is not None and c.lookup(a.attr) not in closure:
                        closure.append(c.lookup(a.attr))
        bad = False
        # what the fit pipeline writes besides tau (theta itself): a calibration that reads it depends on the previous fit
        fitted_state = set()
        for mname in ('fit', '_compute_theta'):
            m_ = c.lookup(mname)
            if m_ is not None:
                for x in walk_no_nested(m_.node):
                    if isinstance(x, ast.Assign):
                        for t in x.targets:
                            for e in (t.elts if isinstance(t, (ast.Tuple, ast.List)) else [t]):
                                if is_self_attr(e, m_.self_name):
                                    fitted_state.add(e.attr)
        fitted_state.discard('tau')
        for f in closure:
            for x in walk_no_nested(f.node):
                if isinstance(x, ast.Attribute) and isinstance(x.ctx, ast.Load) and is_self_attr(x, f.self_name) and x.attr in fitted_state:
                    bad = True
                    rep.bad('D5.pure', f, x, f'the calibration reads self.{x.attr}, which the previous fit wrote: theta of this fit depends on the fit history of the object, '
                            'not on this fit\'s tau only', construct=f'{c.name}: calibration reads only tau')
                tgt = None
                if isinstance(x, (ast.Assign, ast.AugAssign, ast.AnnAssign)):
                    tgts = x.targets if isinstance(x, ast.Assign) else [x.target]
                    for t in tgts:
                        for e in (t.elts if isinstance(t, (ast.Tuple, ast.List)) else [t]):
                            if not isinstance(e, ast.Name):
                                tgt = e
                if tgt is not None:
                    bad = True
                    rep.bad('D5.pure', f, x, f'the calibration stores into {short(tgt, 40)}: theta of one fit can depend on an earlier '
                            'calibration (cache / shared state) instead of this fit\'s tau only')
                if isinstance(x, ast.Call) and isinstance(x.func, ast.Attribute) and x.func.attr in ('setdefault', 'update', 'append', 'add') \
                        and not isinstance(x.func.value, ast.Name):
                    bad = True
                    rep.bad('D5.pure', f, x, 'the calibration updates a shared container')
                if isinstance(x, ast.Attribute) and isinstance(x.ctx, ast.Load) and isinstance(x.value, ast.Name) \
                        and x.value.id in (c.name, 'cls', f.self_name) and isinstance(c.lookup_attr(x.attr) and c.lookup_attr(x.attr)[1], (ast.Dict, ast.List, ast.Set)) \
                        and x.attr not in ('theta_interval', 'invalid_thetas'):
                    bad = True
                    rep.bad('D5.pure', f, x, f'the calibration reads the mutable class-level container {x.attr}')
        if not bad:
            rep.ok('D5.pure', ct, ct.node.name, f'{len(closure)} function(s): no store outside locals, no shared container', construct='def compute_theta')
    rep.floor('D5.pure', 'compute_theta implementations', n, 3)


def d6(ctx, rep):
    prog = ctx.prog
    rep.rule('D6.rank', 'values handed to integrate.quad as limits (and to float()) have rank 0 when the residual function is called by least_squares with a rank-1 vector')
    n = 0
    for c in prog.cls(BIV).subclasses():
        ct = c.methods.get('compute_theta')
        if ct is None:
            continue
        for call in walk_no_nested(ct.node):
            if isinstance(call, ast.Call) and prog.resolve(ct.module, call.func) in ('scipy.optimize.least_squares', 'scipy.optimize.root', 'scipy.optimize.fsolve', 'scipy.optimize.minimize'):
                f = call.args[0] if call.args else None
                target = None
                if is_self_attr(f, ct.self_name):
                    target = c.lookup(f.attr)
                if target is None:
                    rep.undecided('D6.rank', ct, call, 'residual function not resolved')
                    continue
                rk = RankKind(ctx)
                p = target.params[1]
                rk.param_ranks[(target.qualname, p)] = 1
                fr = Frame(target, {}, c)
                for q in walk_no_nested(target.node):
                    if isinstance(q, ast.Call) and prog.resolve(target.module, q.func) == 'scipy.integrate.quad':
                        for lim in q.args[1:3]:
                            n += 1
                            r = rk.value(lim, fr)
                            if r == 0:
                                rep.ok('D6.rank', target, q, f'limit {short(lim)} has rank 0', construct=f'quad limit {short(lim)}')
                            elif isinstance(r, int):
                                rep.bad('D6.rank', target, q, f'limit {short(lim)} has rank {r}: integrate.quad raises TypeError under '
                                        'NumPy >= 2 for every fit', construct=f'quad limit {short(lim)}')
                            else:
                                rep.undecided('D6.rank', target, q, f'rank of {short(lim)} not derivable', construct=f'quad limit {short(lim)}')
                for s_ in getattr(rk, 'sinks', []):
                    rep.bad('D6.rank', target, s_[0], f'{s_[3]} of rank {s_[2]}')
    if n == 0:
        frank = prog.cls('copulas.bivariate.frank.Frank')
        rep.undecided('D6.rank', frank.lookup('compute_theta'), 'Frank.compute_theta', 'no integration limit under a vector-calling optimiser found in the Frank calibration',
                      construct='quad limits')
