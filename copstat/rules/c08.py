"""C08 - percent_point inverts the conditional CDF of every bivariate copula (PARTIAL)."""

import ast

from .. import contracts as K
from ..absint import TOP, Frame
from ..kinds import RankKind
from ..model import call_name, const_value, is_self_attr, kwarg, short, walk_no_nested

BIV = 'copulas.bivariate.base.Bivariate'


def inverse_composition(ctx, rep):
    """Clayton's closed-form inverse composed with its conditional CDF, on narrow boxes: h(ppf(y, v), v) must meet y."""
    from ..ivkind import IV, evaluate
    from .ivcases import HI, LO, Q
    cls = ctx.prog.cls(Q['Clayton'])
    fn = cls.lookup('percent_point')
    if fn is None or fn.cls is not cls:
        rep.undecided('D4.values', cls.lookup('percent_point'), 'percent_point', 'Clayton has no closed-form percent_point of its own', construct='Clayton: h(ppf(y,v),v)=y')
        return 1
    thetas = [IV(0.1, 0.12), IV(0.5, 0.55), IV(1.0, 1.1), IV(2.0, 2.1), IV(4.0, 4.2), IV(7.5, 8.0)]
    k = 20 if ctx.thorough else 10
    cuts = [LO + (HI - LO) * i / k for i in range(k + 1)]
    cells = [IV(a, b) for a, b in zip(cuts, cuts[1:])]
    dom = (IV(LO, HI), IV(LO, HI))
    cache = ctx.memo.setdefault('ivcases', {}).setdefault('dom', {})
    total = und = 0
    for th in thetas:
        for y in cells:
            for v in cells:
                total += 1
                for u, definite, _ in evaluate(ctx, cls, 'percent_point', th, y, v, alts=True, domain=dom, domcache=cache):
                    if not isinstance(u, IV) or u.nan or not definite:
                        und += 1
                        continue
                    uu = IV(max(u.lo, 0.0), min(u.hi, 1.0)) if u.lo <= 1.0 and u.hi >= 0.0 else u
                    for h, d2, _ in evaluate(ctx, cls, 'partial_derivative', th, uu, v, alts=True, domain=(IV(0.0, 1.0), IV(LO, HI)), domcache=cache):
                        if isinstance(h, IV) and d2 and (h.nan == 2 or h.lo > y.hi + 1e-9 or h.hi < y.lo - 1e-9):
                            rep.bad('D4.values', fn, fn.node.name, f'for theta in {th}, y in {y}, v in {v} percent_point lies in {u} and '
                                    f'partial_derivative of that lies in {h}: it cannot equal y', construct='Clayton: h(ppf(y,v),v)=y')
                            return 1
                        if not isinstance(h, IV):
                            und += 1
    rep.undecided('D4.values', fn, fn.node.name, f'partial_derivative(percent_point(y, v), v) = y: not refuted on any of {total} narrow boxes '
                  '(a relation between input and output; intervals can refute it, not prove it)', construct='Clayton: h(ppf(y,v),v)=y')
    return 1


def run(ctx, rep):
    prog = ctx.prog
    rep.trust(*K.TRUSTED_BASE_COMMON, 'scipy.optimize.brentq(f, a, b) returns a point of [a, b] and requires f to return a scalar',
              'np.column_stack of two scalars is a (1, 2) matrix')
    rep.notes.append('C08 PARTIAL: decides that the generic search is element-wise (one root problem per (y[i], v[i]), nothing carried '
                     'between iterations), that the root function is partial_derivative_scalar(u, v_i) - y_i of kind dP and rank 0 '
                     'on the bracket [EPSILON, 1], and the dispatch of the family overrides. That Clayton\'s closed form inverts its '
                     'partial derivative and monotonicity in y are numeric identities and not decided.')
    rep.rule('D1.elementwise', 'Bivariate.percent_point solves one root problem per pair (y[i], V[i]) in order and carries nothing between iterations')
    rep.rule('D2.root', 'the root function is partial_derivative_scalar(u, v_i) - y_i with y from the first and v from the second argument; bracket inside [0, 1]')
    rep.rule('D2.rank', 'the value returned to brentq has rank 0 (NumPy >= 2 refuses a size-1 array)')
    rep.rule('D3.dispatch', 'Frank / Gumbel use the generic search through super() outside their independence shortcut; shortcuts return the probability argument')
    rep.rule('D4.values', 'interval abstract interpretation of the closed-form inverses over a partition of (theta, y, v): Clayton\'s result '
             'lies in [0, 1]; at the independence parameter percent_point(y, v) = y (proved, refuted (definite) or undecided)')
    from . import ivcases
    ivcases.refine(ctx)
    cl = ivcases.ppf_clauses()
    n = ivcases.run_family_clauses(ctx, rep, 'D4.values', 'percent_point', cl[:1], ('Clayton',))
    n += ivcases.run_family_clauses(ctx, rep, 'D4.values', 'percent_point', cl[1:], ('Gumbel', 'Independence'))
    n += inverse_composition(ctx, rep)
    rep.rule('D6.monotone', 'a closed-form percent_point is non-decreasing in y (exact theta, narrow cells, refutation only)')
    ivcases.monotone_refutation(ctx, rep, 'D6.monotone', 'percent_point', 'non-decreasing in y', families=('Clayton',))
    rep.floor('D4.values', 'family x clause evaluations', n, 4)
    fn = prog.method(BIV, 'percent_point', inherited=False)
    yp, vp = fn.params[1], fn.params[2]
    loops = [n for n in walk_no_nested(fn.node) if isinstance(n, ast.For)]
    if len(loops) != 1:
        rep.undecided('D1.elementwise', fn, fn.node.name, 'element loop not recognised', construct='element loop')
        return
    lp = loops[0]
    it = lp.iter
    good = isinstance(it, ast.Call) and call_name(it) == 'zip' and len(it.args) == 2 and [getattr(a, 'id', None) for a in it.args] == [yp, vp] \
        and isinstance(lp.target, ast.Tuple) and len(lp.target.elts) == 2
    rep.check('D1.elementwise', fn, it, good, f'iterates zip({yp}, {vp})', 'the loop does not walk the two arguments in parallel, in order',
              construct='zip of the arguments')
    if not good:
        return
    yv, vv = (e.id for e in lp.target.elts)
    # one append per iteration, unconditional, result list returned in order
    apps = [c for c in ast.walk(lp) if isinstance(c, ast.Call) and call_name(c) == 'append' and isinstance(c.func.value, ast.Name)]
    rets = [n for n in walk_no_nested(fn.node) if isinstance(n, ast.Return)]
    res = apps[0].func.value.id if apps else None
    one = len(apps) == 1 and apps[0]._parent in lp.body and not any(isinstance(x, (ast.Break, ast.Continue, ast.Return)) for x in walk_no_nested(lp))
    ret_ok = bool(rets) and any(isinstance(x, ast.Name) and x.id == res for x in ast.walk(rets[-1].value))
    rep.check('D1.elementwise', fn, apps[0] if apps else lp, one and ret_ok, 'exactly one result appended per iteration, list returned',
              'the number/order of results does not follow the input pairs', construct='one append per pair')
    # nothing carried between iterations: names assigned in the loop body are not read before being assigned in the body
    assigned = {}
    carried = []
    for s in lp.body:
        for x in ast.walk(s):
            if isinstance(x, ast.Name) and isinstance(x.ctx, ast.Load) and x.id in _assigned_in(lp) and x.id not in assigned \
                    and x.id not in (yv, vv, res) and not _inside_def(x, lp):
                carried.append(x)
        for x in ast.walk(s):
            if isinstance(x, ast.Name) and isinstance(x.ctx, ast.Store):
                assigned[x.id] = True
            if isinstance(x, ast.FunctionDef):
                assigned[x.name] = True
    rep.check('D1.elementwise', fn, carried[0] if carried else lp, not carried, 'no value flows from one iteration to the next',
              f'`{carried[0].id if carried else ""}` is read before it is assigned in the iteration: state is carried between elements',
              construct='loop-carried state')
    # root function
    defs = [s for s in lp.body if isinstance(s, ast.FunctionDef)]
    br = [c for c in ast.walk(lp) if isinstance(c, ast.Call) and prog.resolve(fn.module, c.func) in ('scipy.optimize.brentq', 'scipy.optimize.bisect', 'scipy.optimize.brenth', 'scipy.optimize.ridder')]
    if not br:
        rep.undecided('D2.root', fn, lp, 'no scalar root finder call found', construct='root finder')
        return
    b = br[0]
    # tolerances: SciPy's defaults (xtol 2e-12, rtol 8.9e-16) or tighter; an explicit tolerance above 1e-8 (what the package's own
    # vectorised finders promise) leaves roots that do not invert the conditional CDF where it is steep
    from ..constfold import fold as _fold
    for kw_, pos_ in (('xtol', 4), ('rtol', 5)):
        te = kwarg(b, kw_, pos_)
        if te is None:
            continue
        tv = _fold(prog, fn.module, te, fn.node)
        if isinstance(tv, (int, float)) and not isinstance(tv, bool):
            rep.check('D2.root', fn, b, tv <= 1e-8, f'{kw_} = {tv:g}', f'the root search is given {kw_} = {tv:g} (`{short(te, 40)}`): roots are resolved to about that much in u, '
                      'so partial_derivative(percent_point(y, v), v) misses y by orders of magnitude more where the conditional CDF is steep', construct=f'root finder {kw_}')
        else:
            rep.undecided('D2.root', fn, b, f'the value of {kw_} (`{short(te, 40)}`) is not derived', construct=f'root finder {kw_}')
    fdef = None
    if b.args and isinstance(b.args[0], ast.Name):
        fdef = [d for d in defs if d.name == b.args[0].id]
        fdef = fdef[0] if fdef else None
    lam = b.args[0] if b.args and isinstance(b.args[0], ast.Lambda) else None
    body_expr, up = None, None
    if fdef is not None:
        r = [n for n in ast.walk(fdef) if isinstance(n, ast.Return)]
        body_expr = r[0].value if len(r) == 1 else None
        up = fdef.args.args[0].arg if fdef.args.args else None
    elif lam is not None:
        body_expr, up = lam.body, (lam.args.args[0].arg if lam.args.args else None)
    if body_expr is None:
        rep.undecided('D2.root', fn, b, 'root function not recognised', construct='root function')
    else:
        # body = <h(u, v_i) ...> - y_i
        ok = False
        what = 'root function is not partial_derivative_scalar(u, v_i) - y_i'
        if isinstance(body_expr, ast.BinOp) and isinstance(body_expr.op, ast.Sub) and isinstance(body_expr.right, ast.Name) \
                and body_expr.right.id == yv:
            hcalls = [c for c in ast.walk(body_expr.left) if isinstance(c, ast.Call) and call_name(c) in ('partial_derivative_scalar', 'partial_derivative')
                      and is_self_attr(c.func, fn.self_name)]
            if len(hcalls) == 1:
                a = hcalls[0].args
                if call_name(hcalls[0]) == 'partial_derivative_scalar':
                    ok = len(a) == 2 and isinstance(a[0], ast.Name) and a[0].id == up and isinstance(a[1], ast.Name) and a[1].id == vv
                    if not ok:
                        what = f'the conditional CDF is evaluated at ({short(a[0])}, {short(a[1])}) instead of (u, {vv})'
        elif isinstance(body_expr, ast.BinOp) and isinstance(body_expr.op, ast.Sub) and isinstance(body_expr.right, ast.Name) \
                and body_expr.right.id == vv:
            what = f'the target subtracted is {vv} (the conditioning value) instead of {yv} (the probability)'
        rep.check('D2.root', fn, body_expr, ok, f'f(u) = partial_derivative_scalar(u, {vv}) - {yv}', what, construct='root function')
        # rank
        rk = RankKind(ctx)
        pds = prog.method(BIV, 'partial_derivative_scalar', inherited=False)
        # rank of what partial_derivative_scalar returns for scalar arguments
        rk.param_ranks[(pds.qualname, pds.params[1])] = 0
        rk.param_ranks[(pds.qualname, pds.params[2])] = 0

        class RK(RankKind):
            def project_call_override(self2, g, node, fr):
                if g.name == 'partial_derivative':
                    # elementwise in the rows of X: one value per row
                    v = self2.value(node.args[0], fr) if node.args else TOP
                    return 1 if v == 2 else TOP
                if g.name == 'partial_derivative_scalar':
                    sub = Frame(pds, {pds.params[1]: 0, pds.params[2]: 0}, fr.concrete, fr.depth + 1)
                    return self2.returns(sub)
                return None
        rk2 = RK(ctx)
        holder = prog.functions.get(f'{fn.qualname}.<locals>.{fdef.name}') if fdef is not None else None
        if holder is not None:
            fr = Frame(holder, {up: 0}, prog.cls(BIV))
            fr.outer_frame = Frame(fn, {yp: 1, vp: 1}, prog.cls(BIV))

            class RK3(RK):
                def iter_elem(self3, val, node, fr_):
                    return 0

                def unpack(self3, val, index, total, node, fr_):
                    return 0 if val == 0 else RK.unpack(self3, val, index, total, node, fr_)
            rk3 = RK3(ctx)
            r = rk3.value(body_expr, fr)
            if r == 0:
                rep.ok('D2.rank', fn, body_expr, 'the root function returns a rank-0 value', construct='rank of the root function')
            elif isinstance(r, int):
                rep.bad('D2.rank', fn, body_expr, f'the root function returns a rank-{r} array: brentq raises TypeError under NumPy >= 2 '
                        '(Frank and Gumbel percent_point / sample fail for every input)', construct='rank of the root function')
            else:
                rep.undecided('D2.rank', fn, body_expr, 'rank of the root function not derivable', construct='rank of the root function')
        else:
            rep.undecided('D2.rank', fn, b, 'root function is not a nested def', construct='rank of the root function')
    lo, hi = (b.args[1:3] + [None, None])[:2] if len(b.args) >= 3 else (kwarg(b, 'a'), kwarg(b, 'b'))
    from ..constfold import fold
    lo_v = fold(prog, fn.module, lo, fn.node) if lo is not None else None
    hi_v = fold(prog, fn.module, hi, fn.node) if hi is not None else None
    if lo_v is None or hi_v is None:
        rep.undecided('D2.root', fn, b, f'the bracket [{short(lo) if lo is not None else "?"}, {short(hi) if hi is not None else "?"}] is not a pair of foldable constants',
                      construct='bracket')
    elif not (0 <= lo_v and hi_v <= 1):
        rep.bad('D2.root', fn, b, f'the bracket [{lo_v:g}, {hi_v:g}] is not inside [0, 1]: results outside the unit interval', construct='bracket')
    elif lo_v > 1e-6 or hi_v < 1 - 1e-6:
        rep.bad('D2.root', fn, b, f'the bracket [{lo_v:g}, {hi_v:g}] does not span the unit interval: a quantile outside it is never found '
                '(the search raises because f has the same sign at both ends)', construct='bracket')
    else:
        rep.ok('D2.root', fn, b, f'bracket [{lo_v:g}, {hi_v:g}] spans the unit interval up to 1e-6 and lies inside it', construct='bracket')
        # D5: the bracket has a sign change for every (theta, y, v) of the property's range
        rep.rule('D5.bracket', 'for the families that use the generic search, the conditional CDF at the lower bracket end is at most the smallest '
                 'probability of the property\'s range (1e-4) for every v and theta of the range: otherwise the search has no sign change and raises')
        generic = []
        for fam_ in ('Frank', 'Gumbel', 'Clayton'):
            m_ = prog.cls(ivcases.Q[fam_]).lookup('percent_point')
            if m_ is fn or (m_ is not None and any(isinstance(c_, ast.Call) and isinstance(c_.func, ast.Attribute) and c_.func.attr == 'percent_point'
                                                     and isinstance(c_.func.value, ast.Call) and call_name(c_.func.value) == 'super' for c_ in walk_no_nested(m_.node))):
                generic.append(fam_)
        ivcases.run_family_clauses(ctx, rep, 'D5.bracket', 'partial_derivative', ivcases.bracket_clauses(lo_v), tuple(generic))
    # the scalar wrapper stacks (u, v) in this order: the family methods take the point as a row (u, v)
    rep.rule('D2.stack', 'partial_derivative_scalar(U, V) evaluates partial_derivative at the rows (U, V), first argument in the first column')
    pds = prog.method(BIV, 'partial_derivative_scalar', inherited=False)
    from ..idioms import resolve as _resolve
    pcalls = [c for c in walk_no_nested(pds.node) if isinstance(c, ast.Call) and is_self_attr(c.func, pds.self_name, 'partial_derivative') and c.args]
    if len(pcalls) != 1:
        rep.undecided('D2.stack', pds, pds.node.name, 'no single self.partial_derivative(...) call in partial_derivative_scalar', construct='scalar wrapper')
    else:
        arg = _resolve(pds.node, pcalls[0].args[0])
        elts = None
        if isinstance(arg, ast.Call) and call_name(arg) in ('column_stack', 'stack', 'hstack', 'array', 'transpose') and arg.args \
                and isinstance(arg.args[0], (ast.Tuple, ast.List)):
            inner = arg.args[0]
            if len(inner.elts) == 1 and isinstance(inner.elts[0], (ast.Tuple, ast.List)):
                inner = inner.elts[0]   # np.array([[U, V]])
            elts = [e.id if isinstance(e, ast.Name) else None for e in inner.elts]
        if elts is None or len(elts) != 2 or None in elts or set(elts) != {pds.params[1], pds.params[2]}:
            rep.undecided('D2.stack', pds, pcalls[0], 'how the two scalars are assembled into a row is not recognised', construct='scalar wrapper')
        else:
            rep.check('D2.stack', pds, pcalls[0], elts == [pds.params[1], pds.params[2]], f'rows ({elts[0]}, {elts[1]})',
                      f'the row is assembled as ({elts[0]}, {elts[1]}): the conditional CDF is evaluated at the transposed point', construct='scalar wrapper')
    # D3 dispatch
    for fam, indep, ret in (('copulas.bivariate.frank.Frank', 0, None), ('copulas.bivariate.gumbel.Gumbel', 1, 'y')):
        m = prog.cls(fam).methods.get('percent_point')
        if m is None:
            rep.ok('D3.dispatch', fam[8:], None, 'inherits the generic search', construct=f'{fam.split(".")[-1]}.percent_point')
            continue
        sup = [c for c in walk_no_nested(m.node) if isinstance(c, ast.Call) and isinstance(c.func, ast.Attribute) and c.func.attr == 'percent_point'
               and isinstance(c.func.value, ast.Call) and call_name(c.func.value) == 'super']
        good = bool(sup) and [getattr(a, 'id', None) for a in sup[0].args] == [m.params[1], m.params[2]]
        rep.check('D3.dispatch', m, sup[0] if sup else m.node.name, good, 'falls back to super().percent_point(y, V)',
                  'the family does not forward (y, V) to the generic search', construct=f'{fam.split(".")[-1]} generic branch')
        from ..idioms import guard_chain
        famcls = prog.cls(fam)
        inv = famcls.lookup_attr('invalid_thetas')
        invalid = [const_value(e) for e in inv[1].elts] if inv is not None and isinstance(inv[1], (ast.List, ast.Tuple)) else []
        short_name = fam.split('.')[-1]
        for r in [n for n in walk_no_nested(m.node) if isinstance(n, ast.Return) and isinstance(n.value, ast.Name)]:
            # a shortcut guarded by `self.theta == c` with c an invalid theta is unreachable after check_fit()
            from ..boolcond import Conds, atoms_of, implies
            reach = Conds(prog, m).reach(r)
            dead = False
            if reach is not None:
                for k in [k for k in atoms_of(reach) if k.startswith('eq[') and 'theta' in k]:
                    consts = [x for x in k[3:-1].split('|') if 'theta' not in x]
                    if implies(reach, ('atom', k)) and any(c_ in {repr(v) for v in invalid} | {str(v) for v in invalid} for c_ in consts):
                        dead = True
            if dead:
                rep.ok('D3.dispatch', m, r, f'shortcut guarded by theta == {invalid}: unreachable after check_fit() (returns `{r.value.id}`)', construct=f'{short_name} shortcut')
            else:
                rep.check('D3.dispatch', m, r, r.value.id == m.params[1], 'independence shortcut returns y (u = y at independence)',
                          f'the shortcut returns `{r.value.id}` instead of the probability `{m.params[1]}`: percent_point no longer inverts the conditional CDF there',
                          construct=f'{short_name} shortcut')
    ind = prog.cls('copulas.bivariate.independence.Independence').methods.get('percent_point')
    if ind is not None:
        rets = [n for n in walk_no_nested(ind.node) if isinstance(n, ast.Return) and isinstance(n.value, ast.Name)]
        rep.check('D3.dispatch', ind, rets[0] if rets else ind.node.name, bool(rets) and rets[0].value.id == ind.params[1],
                  'Independence: u = y', 'Independence.percent_point does not return y', construct='Independence shortcut')


def _assigned_in(loop):
    out = set()
    for x in ast.walk(loop):
        if isinstance(x, ast.Name) and isinstance(x.ctx, ast.Store):
            out.add(x.id)
        if isinstance(x, ast.FunctionDef):
            out.add(x.name)
    for t in ast.walk(loop.target):
        if isinstance(t, ast.Name):
            out.discard(t.id)
    return out


def _inside_def(node, stop):
    p = getattr(node, '_parent', None)
    while p is not None and p is not stop:
        if isinstance(p, (ast.FunctionDef, ast.Lambda)):
            return True
        p = getattr(p, '_parent', None)
    return False
