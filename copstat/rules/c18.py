"""C18 - vectorised root finders return a bracketed root for every lane (PARTIAL)."""

import ast

from .. import contracts as K
from ..exprnf import NF
from ..model import call_name, const_value, kwarg, short, walk_no_nested

OPT = 'copulas.optimize.'
LANE_REDUCTIONS = {'all', 'any', 'max', 'min', 'sum', 'mean', 'argmax', 'argmin', 'prod', 'median', 'sort', 'argsort', 'nanmax', 'nanmin', 'ptp'}


def aliases(fn, names):
    """Local names that are plain copies of the given names (a = xmax; xmin = np.array(xmin))."""
    out = {n: n for n in names}
    changed = True
    while changed:
        changed = False
        for s in fn.body():
            if isinstance(s, ast.Assign):
                tgts = s.targets[0].elts if isinstance(s.targets[0], ast.Tuple) else [s.targets[0]]
                vals = s.value.elts if isinstance(s.value, ast.Tuple) and isinstance(s.targets[0], ast.Tuple) else [s.value]
                if len(tgts) != len(vals):
                    continue
                for t, v in zip(tgts, vals):
                    if not isinstance(t, ast.Name):
                        continue
                    src = v
                    if isinstance(v, ast.Call) and call_name(v) in ('array', 'asarray', 'copy', 'atleast_1d', 'astype') :
                        src = v.args[0] if v.args else (v.func.value if isinstance(v.func, ast.Attribute) else None)
                    if isinstance(src, ast.Name) and src.id in out and t.id not in out:
                        out[t.id] = out[src.id]
                        changed = True
    return out


def f_of(fn, fname, al):
    """name -> bracket parameter for locals assigned `f(<alias>)`."""
    out = {}
    for s in walk_no_nested(fn.node):
        if isinstance(s, ast.Assign) and isinstance(s.targets[0], ast.Name) and isinstance(s.value, ast.Call) \
                and isinstance(s.value.func, ast.Name) and s.value.func.id == fname and s.value.args \
                and isinstance(s.value.args[0], ast.Name) and s.value.args[0].id in al:
            out.setdefault(s.targets[0].id, al[s.value.args[0].id])
    changed = True
    while changed:
        changed = False
        for s in fn.body():
            if isinstance(s, ast.Assign) and isinstance(s.targets[0], ast.Name) and isinstance(s.value, ast.Name) \
                    and s.value.id in out and s.targets[0].id not in out:
                out[s.targets[0].id] = out[s.value.id]
                changed = True
    return out


def _view(ctx, qualname):
    """The root finder with its straight-line private helpers substituted (a split into `_midpoint`, `_update_history`, ... is the same algorithm)."""
    key = ('c18.view', qualname)
    if key not in ctx.memo:
        from ..inline import inlined_view
        ctx.memo[key] = inlined_view(ctx, ctx.prog.func(qualname), max_inlines=16)
    return ctx.memo[key]


def run(ctx, rep):
    prog = ctx.prog
    rep.trust(*K.TRUSTED_BASE_COMMON, 'np.clip(x, lo, hi) lies in [lo, hi]; np.choose(mask, [a, b]) picks a or b per lane',
              'assert statements are removed under python -O (stated, not decided)')
    rep.notes.append('C18 PARTIAL: decides the bracket precondition (both ends, right polarity), containment of every iterate in the '
                     'bracket, lane independence (reductions over the lane axis only in assertions and exit tests), agreement of the '
                     'scalar and the vector interpolation formula (AC normal form) and the stated tolerance of bisect. Convergence '
                     'within the iteration cap and the accuracy reached are numeric and not decided.')
    for rid, text in (('D1.pre', 'an invalid bracket is rejected before iterating: the precondition mentions f at both ends with the right polarity'),
                      ('D2.contain', 'iterates stay inside the bracket: bisect only moves an end to the midpoint under the matching sign mask; chandrupatla clips every evaluated point'),
                      ('D3.lanes', 'reductions over the lane axis occur only in assertions and loop-exit tests, never in a value assigned to a lane'),
                      ('D4.scalar', 'the scalar branch and the vector branch of chandrupatla compute the same interpolation formula'),
                      ('D5.tol', "bisect's default tolerance is at most 1e-8 and its exit test compares the bracket width with it")):
        rep.rule(rid, text)
    rep.rule('D7.bracket', 'chandrupatla: after the history update of every iteration the two retained ends still enclose a sign change of f (given that they did before), '
             'and each retained function value belongs to its end - evaluated over the sign cells of (f(a), f(b), f(xt))')
    rep.rule('D6.float', 'an array that receives computed points by in-place lane stores (x[mask] = point) is created as a float array: '
             'integer brackets must not truncate the points stored into them')
    bisect(ctx, rep)
    chandrupatla(ctx, rep)
    for name in ('bisect', 'chandrupatla'):
        lanes(ctx, rep, _view(ctx, OPT + name))
        float_buffers(ctx, rep, _view(ctx, OPT + name))


def bisect(ctx, rep):
    prog = ctx.prog
    fn = _view(ctx, OPT + 'bisect')
    _NF_CTX['prog'], _NF_CTX['fn'] = prog, fn
    fp, lo, hi = fn.params[0], fn.params[1], fn.params[2]
    al = aliases(fn, [lo, hi])
    loops = [s for s in fn.body() if isinstance(s, (ast.For, ast.While))]
    first_loop = loops[0].lineno if loops else 10 ** 9
    asserts = [(s, fp, al) for s in fn.body() if isinstance(s, (ast.Assert, ast.If)) and s.lineno <= first_loop]
    # a helper called before the loop with f and both ends: its assertions, with its parameters mapped back
    for s in fn.body():
        if s.lineno > first_loop:
            break
        if isinstance(s, ast.Expr) and isinstance(s.value, ast.Call):
            g = prog.functions.get(prog.resolve(fn.module, s.value.func) or '')
            if g is None or g.cls is not None or s.value.keywords or len(s.value.args) > len(g.params):
                continue
            bind = {p_: a_.id for p_, a_ in zip(g.params, s.value.args) if isinstance(a_, ast.Name)}
            gf = [p_ for p_, a_ in bind.items() if a_ == fp]
            gal = {p_: al[a_] for p_, a_ in bind.items() if a_ in al}
            if len(gf) == 1 and set(gal.values()) == {lo, hi}:
                asserts += [(h, gf[0], gal) for h in g.body() if isinstance(h, (ast.Assert, ast.If))]
    pre = {}
    for s, fp_, al_ in asserts:
        if isinstance(s, ast.If) and not any(isinstance(x, ast.Raise) for x in s.body):
            continue
        base_neg = isinstance(s, ast.If)  # `if bad: raise` : the test must be false to continue
        for c in ast.walk(s.test):
            if isinstance(c, ast.Compare) and len(c.ops) == 1 and isinstance(c.left, ast.Name) and const_value(c.comparators[0]) in (0, 0.0):
                # `fmin = f(xmin); assert (fmin <= 0).all()`: the compared name stands for the call it was bound to (bound once, before the loop)
                from ..idioms import single_def as _sd1
                d_ = _sd1(fn.node, c.left.id)
                if isinstance(d_, ast.Call) and isinstance(d_.func, ast.Name) and d_.func.id == fp_:
                    c2_ = ast.copy_location(ast.Compare(left=d_, ops=c.ops, comparators=c.comparators), c)
                    c2_._parent = getattr(c, '_parent', None)
                    c = c2_
            if isinstance(c, ast.Compare) and len(c.ops) == 1 and isinstance(c.left, ast.Call) and isinstance(c.left.func, ast.Name) \
                    and c.left.func.id == fp_ and c.left.args and isinstance(c.left.args[0], ast.Name) and c.left.args[0].id in al_ \
                    and const_value(c.comparators[0]) in (0, 0.0):
                # number of `not` between the test root and the comparison; .all() keeps polarity, .any() does too for our purpose
                negs = 0
                p = c
                while p is not s.test and p is not None:
                    p = p._parent
                    if isinstance(p, ast.UnaryOp) and isinstance(p.op, ast.Not):
                        negs += 1
                neg = base_neg ^ (negs % 2 == 1)
                op = type(c.ops[0]).__name__
                red = c._parent._parent if isinstance(c._parent, ast.Attribute) else None
                redname = c._parent.attr if isinstance(c._parent, ast.Attribute) else None
                if redname in ('all', 'any') and not (isinstance(red, ast.Call) and red.func is c._parent):
                    rep.bad('D1.pre', fn, s, f'`{short(s.test, 50)}` tests the bound method `.{redname}` itself (it is never called): the condition is always true and this end of the bracket is '
                            'not checked', construct=f'precondition on {al_[c.left.args[0].id]}')
                    pre[al_[c.left.args[0].id]] = (op, s, 'vacuous', neg)
                    continue
                if neg:
                    op = {'Gt': 'LtE', 'Lt': 'GtE', 'GtE': 'Lt', 'LtE': 'Gt'}.get(op, op)
                    # not (x <= 0).all()  raises when ANY lane violates: required = all lanes satisfy the original test
                    if redname == 'any':
                        pass
                pre[al_[c.left.args[0].id]] = (op, s, redname, neg)
    handed = [s_ for s_ in fn.body() if s_.lineno <= first_loop and isinstance(s_, ast.Expr) and isinstance(s_.value, ast.Call)
              and any(isinstance(a_, ast.Name) and a_.id == fp for a_ in s_.value.args)]
    if handed and (lo not in pre or hi not in pre):
        rep.undecided('D1.pre', fn, handed[0], f'`{short(handed[0], 50)}` receives f before the loop: whether it rejects an invalid bracket is not derived', construct='precondition')
        pre.setdefault(lo, ('LtE', handed[0], None, False))
        pre.setdefault(hi, ('GtE', handed[0], None, False))
    rep.check('D1.pre', fn, pre.get(lo, (None, fn.node.name))[1], lo in pre and pre[lo][0] in ('LtE', 'Lt'),
              f'requires f({lo}) <= 0', f'no precondition f({lo}) <= 0 before the loop: a bracket whose lower end is above the root is accepted',
              construct=f'precondition on {lo}')
    rep.check('D1.pre', fn, pre.get(hi, (None, fn.node.name))[1], hi in pre and pre[hi][0] in ('GtE', 'Gt'),
              f'requires f({hi}) >= 0', f'no precondition f({hi}) >= 0 before the loop: a bracket whose upper end is below the root is accepted',
              construct=f'precondition on {hi}')
    if not loops:
        rep.undecided('D2.contain', fn, fn.node.name, 'iteration loop not found', construct='loop')
        return
    lp = loops[0]
    # midpoint and its function value
    mids = [s for s in lp.body if isinstance(s, ast.Assign) and isinstance(s.targets[0], ast.Name) and _is_midpoint(s.value, al, lo, hi)]
    gname = mids[0].targets[0].id if mids else None
    fg = [s for s in lp.body if isinstance(s, ast.Assign) and isinstance(s.targets[0], ast.Name) and isinstance(s.value, ast.Call)
          and isinstance(s.value.func, ast.Name) and s.value.func.id == fp and s.value.args and isinstance(s.value.args[0], ast.Name)
          and s.value.args[0].id == gname]
    fgname = fg[0].targets[0].id if fg else None
    fcalls = [c for c in ast.walk(lp) if isinstance(c, ast.Call) and isinstance(c.func, ast.Name) and c.func.id == fp and c.args
              and isinstance(c.args[0], ast.Name) and c.args[0].id == gname]
    others = [c for c in ast.walk(lp) if isinstance(c, ast.Call) and isinstance(c.func, ast.Name) and c.func.id == fp and c not in fcalls]
    if mids and (fg or fcalls) and not others:
        rep.ok('D2.contain', fn, mids[0], 'guess = (xmin + xmax) / 2 and f is evaluated at guess', construct='midpoint')
    elif mids and others:
        rep.bad('D2.contain', fn, others[0], f'f is evaluated at `{short(others[0].args[0], 40) if others[0].args else "?"}`, not at the midpoint of the current bracket', construct='midpoint')
    else:
        rep.undecided('D2.contain', fn, lp, 'the form guess = (xmin + xmax) / 2 was not found in the loop', construct='midpoint')
    stores = [s for s in ast.walk(lp) if isinstance(s, ast.Assign) and isinstance(s.targets[0], (ast.Subscript, ast.Name))]
    n_moves = 0
    for s in stores:
        t = s.targets[0]
        base = t.value.id if isinstance(t, ast.Subscript) and isinstance(t.value, ast.Name) else (t.id if isinstance(t, ast.Name) else None)
        if base not in al:
            continue
        end = al[base]
        n_moves += 1
        want = 'LtE' if end == lo else 'GtE'
        good = False
        why = 'the end is not moved to the midpoint under a sign mask'
        if isinstance(t, ast.Subscript) and isinstance(s.value, ast.Subscript) and isinstance(s.value.value, ast.Name) \
                and s.value.value.id == gname:
            m1, m2 = t.slice, s.value.slice
            if ast.dump(m1) == ast.dump(m2):
                m = m1
                if isinstance(m, ast.Name):
                    from ..idioms import single_def
                    d = single_def(fn.node, m.id)
                    m = d if isinstance(d, ast.AST) else m
                if isinstance(m, ast.Compare) and len(m.ops) == 1 and isinstance(m.left, ast.Name) and m.left.id == fgname \
                        and const_value(m.comparators[0]) in (0, 0.0):
                    op = type(m.ops[0]).__name__
                    good = op in ((want, want[:-1]))
                    why = f'the {"lower" if end == lo else "upper"} end moves where f(guess) {_sym(op)} 0: the root leaves the bracket'
                else:
                    why = 'mask is not a sign test of f(guess)'
            else:
                why = 'different masks select the lanes that move and the values they receive'
        elif isinstance(t, ast.Name) and isinstance(s.value, ast.Call) and call_name(s.value) == 'where':
            a = s.value.args
            if len(a) == 3 and isinstance(a[0], ast.Compare) and isinstance(a[0].left, ast.Name) and a[0].left.id == fgname:
                op = type(a[0].ops[0]).__name__
                good = op in (want, want[:-1]) and isinstance(a[1], ast.Name) and a[1].id == gname and isinstance(a[2], ast.Name) and a[2].id in al and al[a[2].id] == end
        rep.check('D2.contain', fn, s, good, f'{end} moves to the midpoint exactly where f(guess) {"<=" if end == lo else ">="} 0', why)
    if n_moves == 0:
        rep.undecided('D2.contain', fn, lp, 'no store into the bracket ends inside the loop of bisect itself (moved into a helper?): containment of the iterates is not derived',
                      construct='bracket updates')
    rets = [n for n in walk_no_nested(fn.node) if isinstance(n, ast.Return)]
    rep.check('D2.contain', fn, rets[-1] if rets else fn.node.name, bool(rets) and _is_midpoint(rets[-1].value, al, lo, hi),
              'returns the midpoint of the final bracket', 'the result is not the midpoint of the final bracket', construct='result')
    # tolerance
    tolp = [p for p in fn.params if p.startswith('tol') or p in ('xtol', 'eps')]
    d = fn.defaults.get(tolp[0]) if tolp else None
    dv = const_value(d) if d is not None else None
    rep.check('D5.tol', fn, d if d is not None else fn.node.name, isinstance(dv, float) and 0 < dv <= 1e-8, f'default tolerance {dv}',
              f'default tolerance is {dv}, the stated accuracy is 1e-8', construct='default tolerance')
    exits = [s for s in ast.walk(lp) if isinstance(s, ast.If) and any(isinstance(x, (ast.Break, ast.Return)) for b in s.body for x in ast.walk(b))]
    if not exits:
        rep.ok('D5.tol', fn, lp, 'no early exit: the loop always runs maxiter halvings', construct='exit test')
    for ex in exits:
        verdict = 'unknown'
        t = ex.test
        from ..idioms import resolve
        t = resolve(fn.node, t) if isinstance(t, ast.Name) else t
        negated = False
        while isinstance(t, ast.UnaryOp) and isinstance(t.op, ast.Not):
            t, negated = t.operand, not negated
        # np.any(width < tol) / np.all(width < tol) / (width < tol).any(): an element-wise test reduced over the lanes
        if isinstance(t, ast.Call) and call_name(t) in ('any', 'all') and not negated:
            inner = t.args[0] if t.args else (t.func.value if isinstance(t.func, ast.Attribute) else None)
            inner = resolve(fn.node, inner) if isinstance(inner, ast.Name) else inner
            if isinstance(inner, ast.Compare) and len(inner.ops) == 1 and isinstance(inner.ops[0], (ast.Lt, ast.LtE, ast.Gt, ast.GtE)):
                l_, r_ = inner.left, inner.comparators[0]
                small_ = isinstance(inner.ops[0], (ast.Lt, ast.LtE))
                def width_(e_):
                    e_ = resolve(fn.node, e_) if isinstance(e_, ast.Name) else e_
                    return any(isinstance(x, ast.BinOp) and isinstance(x.op, ast.Sub) for x in ast.walk(e_)) and \
                        len({al.get(x.id) for x in ast.walk(e_) if isinstance(x, ast.Name)} & {lo, hi}) == 2
                if width_(r_) and not width_(l_):
                    l_, r_, small_ = r_, l_, not small_
                if width_(l_) and small_:
                    if call_name(t) == 'any':
                        rep.bad('D5.tol', fn, ex, 'the exit test does not compare the (maximal) bracket width with the tolerance: the loop is left as soon as ANY lane is below the '
                                'bound: the other lanes are cut off before they converge', construct='exit test')
                    else:
                        rep.ok('D5.tol', fn, ex, 'stops when every bracket is below the bound', construct='exit test')
                    continue
        if tolp and isinstance(t, ast.Compare) and len(t.ops) == 1 and isinstance(t.ops[0], (ast.Lt, ast.LtE, ast.Gt, ast.GtE)):
            left, right = t.left, t.comparators[0]
            small = isinstance(t.ops[0], (ast.Lt, ast.LtE))     # `left` is the smaller side
            if negated:
                small = not small
            # put the side that measures the bracket on the left
            def measures_width(e_):
                e_ = resolve(fn.node, e_) if isinstance(e_, ast.Name) else e_
                return any(isinstance(x, ast.BinOp) and isinstance(x.op, ast.Sub) for x in ast.walk(e_)) and \
                    len({al.get(x.id) for x in ast.walk(e_) if isinstance(x, ast.Name)} & {lo, hi}) == 2
            if measures_width(right) and not measures_width(left):
                left, right, small = right, left, not small
            wide_exit = measures_width(left) and not small    # exits when the width is ABOVE the bound
            left = resolve(fn.node, left) if isinstance(left, ast.Name) else left
            pieces = [left] + [resolve(fn.node, x) for x in ast.walk(left) if isinstance(x, ast.Name) and x.id not in al]
            names = {x.id for pc in pieces for x in ast.walk(pc) if isinstance(x, ast.Name)}
            width = any(isinstance(x, ast.BinOp) and isinstance(x.op, ast.Sub) for pc in pieces for x in ast.walk(pc))
            ends = [n for n in names if al.get(n) in (lo, hi)]
            reds = {call_name(x) for pc in pieces for x in ast.walk(pc) if isinstance(x, ast.Call)}
            if width and len(ends) >= 2 and not any(isinstance(x, ast.Call) and any(tg.kind == 'proj' for tg in ctx.cg.targets(fn, x)) for pc in pieces for x in ast.walk(pc)):
                is_tol = isinstance(right, ast.Name) and right.id == tolp[0]
                if wide_exit:
                    verdict = 'bad: the loop is left while the bracket is still WIDER than the bound (test inverted): no lane has converged'
                elif is_tol and reds & {'max', 'amax'} and not reds & {'min', 'amin', 'mean', 'median'}:
                    verdict = 'good'
                elif reds & {'min', 'amin', 'mean', 'median'} and not reds & {'max', 'amax'}:
                    verdict = 'bad: the exit looks at the narrowest / average bracket: lanes that have not converged are cut off'
                elif const_value(right) is not None and isinstance(const_value(right), (int, float)) and const_value(right) > 1e-8:
                    verdict = f'bad: the exit compares the width with {const_value(right)}, not with the tolerance'
        tt = t
        while isinstance(tt, ast.UnaryOp):
            tt = tt.operand
        if verdict == 'unknown' and isinstance(tt, ast.Call) and call_name(tt) in ('allclose', 'isclose', 'array_equal', 'array_equiv') \
                and len([a for a in tt.args if isinstance(a, ast.Name) and al.get(a.id) in (lo, hi)]) >= 2:
            rtol = kwarg(tt, 'rtol', 2)
            if call_name(tt) in ('array_equal', 'array_equiv'):
                verdict = 'bad: the exit requires the two ends to be exactly equal, which bisection never reaches in general'
            elif rtol is None or const_value(rtol) != 0:
                verdict = 'bad: the exit uses a relative closeness test (rtol): for large |x| it stops while the bracket is still wider than the tolerance'
        if verdict == 'good':
            rep.ok('D5.tol', fn, ex, 'stops when the widest bracket is below tol', construct='exit test')
        elif verdict.startswith('bad'):
            rep.bad('D5.tol', fn, ex, 'the exit test does not compare the (maximal) bracket width with the tolerance: ' + verdict[5:], construct='exit test')
        else:
            rep.undecided('D5.tol', fn, ex, f'early exit on `{short(t, 60)}`: not recognised as a test of the bracket width', construct='exit test')


def _sym(op):
    return {'Lt': '<', 'LtE': '<=', 'Gt': '>', 'GtE': '>='}.get(op, op)


_NF_CTX = {}


def _is_midpoint(e, al, lo, hi):
    """(xmin + xmax) / 2, 0.5 * (xmin + xmax), a private helper computing it, ... : compared through the AC normal form
    with every alias of the bracket ends renamed to LO / HI."""
    prog, fn = _NF_CTX.get('prog'), _NF_CTX.get('fn')
    if prog is not None and e is not None:
        ren = {k: ('LO' if v == lo else 'HI') for k, v in al.items()}
        nf = NF(prog, fn, rename=ren)
        got = nf.nf(e)
        want = NF(prog, fn, rename={'LO': 'LO', 'HI': 'HI'}).nf(ast.parse('(LO + HI) / 2', mode='eval').body)
        if got == want:
            return True
    return _is_midpoint_syntactic(e, al, lo, hi)


def _is_midpoint_syntactic(e, al, lo, hi):
    if isinstance(e, ast.BinOp) and isinstance(e.op, ast.Div) and const_value(e.right) in (2, 2.0) and isinstance(e.left, ast.BinOp) \
            and isinstance(e.left.op, ast.Add):
        n = {getattr(e.left.left, 'id', None), getattr(e.left.right, 'id', None)}
        return {al.get(x) for x in n} == {lo, hi}
    if isinstance(e, ast.BinOp) and isinstance(e.op, ast.Mult):
        for a, b in ((e.left, e.right), (e.right, e.left)):
            if const_value(a) == 0.5 and isinstance(b, ast.BinOp) and isinstance(b.op, ast.Add):
                n = {getattr(b.left, 'id', None), getattr(b.right, 'id', None)}
                return {al.get(x) for x in n} == {lo, hi}
    return False


def _chandrupatla_tolerances(ctx, rep, fn):
    """The tolerances chandrupatla falls back to when the caller gives none must be of the order of machine precision:
    the property promises 1e-9 of the bracket width, which an absolute tolerance t only delivers for brackets wider than t / 1e-9."""
    from ..constfold import fold
    from ..idioms import is_none_test
    prog = ctx.prog
    for pname in ('eps_m', 'eps_a'):
        if pname not in fn.params:
            continue
        cons = f'chandrupatla default {pname}'
        args_ = fn.node.args
        pos = args_.posonlyargs + args_.args
        dmap = dict(zip([a_.arg for a_ in pos[len(pos) - len(args_.defaults):]], args_.defaults))
        dmap.update({a_.arg: d_ for a_, d_ in zip(args_.kwonlyargs, args_.kw_defaults) if d_ is not None})
        dflt = dmap.get(pname)
        vals = []
        if dflt is not None and not (isinstance(dflt, ast.Constant) and dflt.value is None):
            vals.append(ast.copy_location(ast.Assign(targets=[ast.Name(id=pname, ctx=ast.Store())], value=dflt), dflt))
        for s_ in walk_no_nested(fn.node):
            if isinstance(s_, ast.If):
                nt = is_none_test(s_.test)
                if nt is not None and isinstance(nt[0], ast.Name) and nt[0].id == pname:
                    branch = s_.body if nt[1] else s_.orelse
                    for a in branch:
                        if isinstance(a, ast.Assign) and any(isinstance(t, ast.Name) and t.id == pname for t in a.targets):
                            vals.append(a)
            if isinstance(s_, ast.Assign) and isinstance(s_.value, ast.IfExp) and any(isinstance(t, ast.Name) and t.id == pname for t in s_.targets):
                nt = is_none_test(s_.value.test)
                if nt is not None and isinstance(nt[0], ast.Name) and nt[0].id == pname:
                    vals.append(ast.copy_location(ast.Assign(targets=s_.targets, value=s_.value.body if nt[1] else s_.value.orelse), s_))
        if not vals:
            rep.undecided('D5.tol', fn, fn.node.name, f'where `{pname}` gets its value when the caller passes None is not recognised', construct=cons)
            continue
        a = vals[0]
        v = fold(prog, fn.module, a.value, fn.node)
        if v is None:
            rep.undecided('D5.tol', fn, a, f'default of `{pname}` (`{short(a.value, 40)}`) is not a foldable constant', construct=cons)
        else:
            rep.check('D5.tol', fn, a, 0 <= v <= 1e-12, f'default {pname} = {v:g} (machine-precision order)',
                      f'default {pname} = {v:g}: the root is only located to that tolerance, so "1e-9 of the bracket width" fails for every bracket '
                      f'narrower than {v / 1e-9:g}', construct=cons)


def _bracket_invariant(ctx, rep, fn, fp, lp):
    """D7.bracket: the history update keeps a sign change between the two retained ends.  Decided by evaluating the straight-line
    update over the 21 sign cells (sign f(a), sign f(b), sign f(xt)) with sign f(a) * sign f(b) <= 0: afterwards the value kept
    with each end is the value of f at that end and the two values do not have the same strict sign."""
    rule = 'D7.bracket'
    cons = 'chandrupatla: history update keeps the sign change'
    pre = []
    for s_ in fn.body():
        if s_.lineno >= lp.lineno:
            break
        if isinstance(s_, ast.Assign) and len(s_.targets) == 1 and isinstance(s_.targets[0], ast.Name) and isinstance(s_.value, ast.Call) \
                and isinstance(s_.value.func, ast.Name) and s_.value.func.id == fp and len(s_.value.args) == 1 and isinstance(s_.value.args[0], ast.Name):
            pre.append((s_.targets[0].id, s_.value.args[0].id))
    body = list(lp.body)
    start = None
    for i, s_ in enumerate(body):
        if isinstance(s_, ast.Assign) and len(s_.targets) == 1 and isinstance(s_.targets[0], ast.Name) and isinstance(s_.value, ast.Call) \
                and isinstance(s_.value.func, ast.Name) and s_.value.func.id == fp and len(s_.value.args) == 1 and isinstance(s_.value.args[0], ast.Name):
            start = i
            break
    if len(pre) != 2 or start is None or len({p_[0] for p_ in pre}) != 2:
        rep.undecided(rule, fn, fn.node.name, 'the two bracket ends with their function values, or the evaluation of the new point, were not recognised', construct=cons)
        return
    (fa_n, a_n), (fb_n, b_n) = pre
    ft_n, xt_n = body[start].targets[0].id, body[start].value.args[0].id
    # the names the loop updates: the pre-loop names themselves, or plain copies of them made before the loop (`hist_fa = fmax`)
    stored_in_loop = {x.id for x in ast.walk(lp) if isinstance(x, ast.Name) and isinstance(x.ctx, ast.Store)}
    pre_copies = {}
    for s_ in fn.body():
        if s_.lineno >= lp.lineno:
            break
        if isinstance(s_, ast.Assign) and len(s_.targets) == 1 and isinstance(s_.targets[0], ast.Name) and isinstance(s_.value, ast.Name):
            pre_copies.setdefault(s_.value.id, []).append(s_.targets[0].id)

    def takes_new(nm):
        # the newest estimate: assigned from the new point / its function value inside the loop (possibly through one temporary)
        for x in ast.walk(lp):
            if isinstance(x, ast.Assign) and len(x.targets) == 1 and isinstance(x.targets[0], ast.Name) and x.targets[0].id == nm and isinstance(x.value, ast.Name):
                v_ = x.value.id
                if v_ in (xt_n, ft_n):
                    return True
                for y in ast.walk(lp):
                    if isinstance(y, ast.Assign) and len(y.targets) == 1 and isinstance(y.targets[0], ast.Name) and y.targets[0].id == v_ \
                            and ((isinstance(y.value, ast.Name) and y.value.id in (xt_n, ft_n)) or
                                 (isinstance(y.value, ast.Call) and isinstance(y.value.func, ast.Name) and y.value.func.id == fp)):
                        return True
        return False

    def live(nm, taken):
        if nm in stored_in_loop:
            return nm
        cands = [c_ for c_ in pre_copies.get(nm, []) if c_ in stored_in_loop and c_ not in taken]
        if len(cands) > 1:
            newest = [c_ for c_ in cands if takes_new(c_)]
            cands = newest if len(newest) == 1 else []
        return cands[0] if cands else None
    taken = set()
    resolved = []
    for nm in (fa_n, a_n, fb_n, b_n):
        r_ = live(nm, taken)
        resolved.append(r_)
        if r_:
            taken.add(r_)
    if any(r_ is None for r_ in resolved):
        rep.undecided(rule, fn, body[start], 'the loop does not update the bracket ends and their function values under names that were recognised', construct=cons)
        return
    fa_n, a_n, fb_n, b_n = resolved
    tracked = {fa_n, a_n, fb_n, b_n}
    TOPV = ('top',)

    def ev(e, env):
        if isinstance(e, ast.Name):
            return env.get(e.id, TOPV)
        if isinstance(e, ast.Constant) and isinstance(e.value, (int, float, bool)):
            return ('b', e.value) if isinstance(e.value, bool) else ('n', (e.value > 0) - (e.value < 0), e.value)
        if isinstance(e, ast.Call):
            cn = call_name(e)
            args = [ev(a_, env) for a_ in e.args]
            if cn == 'sign' and len(args) == 1 and args[0][0] in ('f', 'n'):
                return ('n', args[0][1], float(args[0][1]))
            if cn in ('choose',) and len(e.args) == 2 and isinstance(e.args[1], (ast.List, ast.Tuple)) and len(e.args[1].elts) == 2 and args[0][0] == 'b':
                return ev(e.args[1].elts[1 if args[0][1] else 0], env)
            if cn == 'where' and len(args) == 3 and args[0][0] == 'b':
                return args[1] if args[0][1] else args[2]
            if cn in ('logical_and', 'logical_or') and len(args) == 2 and args[0][0] == args[1][0] == 'b':
                return ('b', (args[0][1] and args[1][1]) if cn.endswith('and') else (args[0][1] or args[1][1]))
            if cn == 'logical_not' and len(args) == 1 and args[0][0] == 'b':
                return ('b', not args[0][1])
            if cn in ('asarray', 'array', 'float', 'copy') and len(args) == 1:
                return args[0]
            if cn == 'signbit' and len(args) == 1 and args[0][0] in ('f', 'n') and args[0][1] != 0:
                return ('b', args[0][1] < 0)
            return TOPV
        if isinstance(e, ast.UnaryOp):
            v = ev(e.operand, env)
            if isinstance(e.op, (ast.Not, ast.Invert)) and v[0] == 'b':
                return ('b', not v[1])
            if isinstance(e.op, ast.USub) and v[0] in ('f', 'n'):
                return (v[0], -v[1]) + ((-v[2],) if v[0] == 'n' else ())
            return TOPV
        if isinstance(e, ast.BoolOp):
            vs = [ev(v_, env) for v_ in e.values]
            if all(v_[0] == 'b' for v_ in vs):
                return ('b', all(v_[1] for v_ in vs) if isinstance(e.op, ast.And) else any(v_[1] for v_ in vs))
            return TOPV
        if isinstance(e, ast.BinOp):
            l_, r_ = ev(e.left, env), ev(e.right, env)
            if isinstance(e.op, (ast.BitAnd, ast.BitOr, ast.BitXor)) and l_[0] == r_[0] == 'b':
                return ('b', {ast.BitAnd: l_[1] and r_[1], ast.BitOr: l_[1] or r_[1], ast.BitXor: l_[1] != r_[1]}[type(e.op)])
            if isinstance(e.op, ast.Mult) and l_[0] in ('f', 'n') and r_[0] in ('f', 'n'):
                # only the sign of a product of signed quantities is kept
                exact = l_[0] == r_[0] == 'n'
                return ('n', l_[1] * r_[1], l_[2] * r_[2]) if exact else ('f', l_[1] * r_[1])
            return TOPV
        if isinstance(e, ast.Compare) and len(e.ops) == 1:
            l_, r_ = ev(e.left, env), ev(e.comparators[0], env)
            op = type(e.ops[0])
            if l_[0] == r_[0] == 'b' and op in (ast.Eq, ast.NotEq, ast.Is, ast.IsNot):
                return ('b', (l_[1] == r_[1]) == (op in (ast.Eq, ast.Is)))
            if l_[0] == r_[0] == 'n':
                x_, y_ = l_[2], r_[2]
            elif {l_[0], r_[0]} == {'f', 'n'} and (l_ if l_[0] == 'n' else r_)[2] == 0:
                x_, y_ = l_[1], r_[1]          # f compared with zero: decided by its sign
            else:
                return TOPV
            fnc = {ast.Eq: x_ == y_, ast.NotEq: x_ != y_, ast.Lt: x_ < y_, ast.LtE: x_ <= y_, ast.Gt: x_ > y_, ast.GtE: x_ >= y_}.get(op)
            return TOPV if fnc is None else ('b', fnc)
        if isinstance(e, ast.IfExp):
            c_ = ev(e.test, env)
            return ev(e.body if c_[1] else e.orelse, env) if c_[0] == 'b' else TOPV
        return TOPV

    refuted = None
    und = None
    cells = 0
    for sa in (-1, 0, 1):
        for sb in (-1, 0, 1):
            if sa * sb > 0:
                continue
            for st in (-1, 0, 1):
                cells += 1
                env = {fa_n: ('f', sa), fb_n: ('f', sb), ft_n: ('f', st), a_n: ('p', sa), b_n: ('p', sb), xt_n: ('p', st)}
                for s_ in body[start + 1:]:
                    if isinstance(s_, ast.Assign) and len(s_.targets) == 1 and isinstance(s_.targets[0], ast.Name):
                        env[s_.targets[0].id] = ev(s_.value, env)
                    elif isinstance(s_, ast.Assign) and len(s_.targets) == 1 and isinstance(s_.targets[0], ast.Tuple) and isinstance(s_.value, ast.Tuple) \
                            and len(s_.value.elts) == len(s_.targets[0].elts) and all(isinstance(t_, ast.Name) for t_ in s_.targets[0].elts):
                        vals = [ev(v_, env) for v_ in s_.value.elts]
                        for t_, v_ in zip(s_.targets[0].elts, vals):
                            env[t_.id] = v_
                    else:
                        stored = {x.id for x in ast.walk(s_) if isinstance(x, ast.Name) and isinstance(x.ctx, ast.Store)} | \
                                 {x.value.id for x in ast.walk(s_) if isinstance(x, ast.Subscript) and isinstance(x.ctx, ast.Store) and isinstance(x.value, ast.Name)}
                        for nm in stored & (tracked | {ft_n, xt_n}):
                            env[nm] = TOPV
                fa_v, fb_v, a_v, b_v = env[fa_n], env[fb_n], env[a_n], env[b_n]
                if not (fa_v[0] == fb_v[0] == 'f' and a_v[0] == b_v[0] == 'p'):
                    und = und or f'cell (sign f({a_n}), sign f({b_n}), sign f({xt_n})) = ({sa}, {sb}, {st}): the updated ends were not derived'
                    continue
                if fa_v[1] != a_v[1] or fb_v[1] != b_v[1]:
                    refuted = refuted or ((sa, sb, st), f'the value kept as `{fa_n if fa_v[1] != a_v[1] else fb_n}` is not f at the point kept as `{a_n if fa_v[1] != a_v[1] else b_n}`')
                elif fa_v[1] * fb_v[1] > 0:
                    refuted = refuted or ((sa, sb, st), f'both retained ends have f of strict sign {fa_v[1]:+d}: the sign change (and with it the root) is no longer between them')
    if refuted:
        (sa, sb, st), why = refuted
        rep.bad(rule, fn, body[start], f'for sign f({a_n}) = {sa:+d}, sign f({b_n}) = {sb:+d}, sign f({xt_n}) = {st:+d} (a valid bracket) after the history update {why}',
                construct=cons)
    elif und:
        rep.undecided(rule, fn, body[start], und, construct=cons)
    else:
        rep.ok(rule, fn, body[start], f'{cells} sign cells of a valid bracket: each retained value belongs to its end and the two ends never have the same strict sign', construct=cons)


def chandrupatla(ctx, rep):
    prog = ctx.prog
    fn = _view(ctx, OPT + 'chandrupatla')
    fp, lo, hi = fn.params[0], fn.params[1], fn.params[2]
    al = aliases(fn, [lo, hi])
    fmap = f_of(fn, fp, al)
    loops = [s for s in fn.body() if isinstance(s, (ast.For, ast.While))]
    first_loop = loops[0].lineno if loops else 10 ** 9
    ok = False
    where = fn.node.name
    for s in fn.body():
        if isinstance(s, ast.Assert) and s.lineno < first_loop:
            names = {x.id for x in ast.walk(s.test) if isinstance(x, ast.Name)}
            ends = {fmap[n] for n in names if n in fmap}
            if ends == {lo, hi}:
                # sign(fa) * sign(fb) <= 0
                c = [x for x in ast.walk(s.test) if isinstance(x, ast.Compare)]
                prod = any(isinstance(x, ast.BinOp) and isinstance(x.op, ast.Mult) for x in ast.walk(s.test))
                if c and prod and isinstance(c[0].ops[0], (ast.LtE, ast.Lt)) and const_value(c[0].comparators[0]) in (0, 0.0):
                    ok = True
                    where = s
    rep.check('D1.pre', fn, where, ok, 'requires sign(f(xmin)) * sign(f(xmax)) <= 0 before the loop',
              'no sign-product precondition on both ends before the loop: an invalid bracket returns a value', construct='chandrupatla precondition')
    _chandrupatla_tolerances(ctx, rep, fn)
    if not loops:
        return
    lp = loops[0]
    _bracket_invariant(ctx, rep, fn, fp, lp)
    # the loop is left early only when EVERY lane has terminated
    from ..idioms import resolve as _res
    for ex in [s_ for s_ in ast.walk(lp) if isinstance(s_, ast.If) and any(isinstance(x, ast.Break) for b_ in s_.body for x in ast.walk(b_))]:
        t = ex.test
        neg = False
        t = _res(fn.node, t) if isinstance(t, ast.Name) else t
        while isinstance(t, ast.UnaryOp) and isinstance(t.op, ast.Not):
            t, neg = t.operand, not neg
        red = call_name(t) if isinstance(t, ast.Call) else None
        if red in ('all', 'any'):
            if neg:
                rep.bad('D5.tol', fn, ex, f'the loop is left when NOT {red}(...) lanes have terminated (test inverted): with unfinished lanes the first iterate is returned',
                        construct='chandrupatla exit test')
            elif red == 'any':
                rep.bad('D5.tol', fn, ex, 'the loop is left as soon as ANY lane has terminated: the other lanes are cut off before they converge', construct='chandrupatla exit test')
            else:
                rep.ok('D5.tol', fn, ex, 'the loop is left when all lanes have terminated', construct='chandrupatla exit test')
        else:
            rep.undecided('D5.tol', fn, ex, f'early exit on `{short(ex.test, 50)}`: not a reduction over the lanes', construct='chandrupatla exit test')
    # every evaluated point is clipped into the bracket
    evals = [c for c in ast.walk(lp) if isinstance(c, ast.Call) and isinstance(c.func, ast.Name) and c.func.id == fp]
    from ..idioms import assignments
    for c in evals:
        arg = c.args[0] if c.args else None
        good = False
        if isinstance(arg, ast.Name):
            defs = [a for a in assignments(fn.node, arg.id) if isinstance(a, ast.Assign) and lp.lineno <= a.lineno]
            good = bool(defs) and all(isinstance(a.value, ast.Call) and call_name(a.value) == 'clip' and len(a.value.args) == 3
                                      and [al.get(getattr(x, 'id', None)) for x in a.value.args[1:]] == [lo, hi] for a in defs)
        elif isinstance(arg, ast.Call) and call_name(arg) == 'clip' and len(arg.args) == 3:
            good = [al.get(getattr(x, 'id', None)) for x in arg.args[1:]] == [lo, hi]
        rep.check('D2.contain', fn, c, good, f'f is evaluated at np.clip(..., {lo}, {hi})',
                  'f is evaluated at a point that was not clipped into the bracket', construct=f'evaluation point {short(arg)}')
    # a, b, c only receive bracket values
    point_names = set(al) | {'xt'}
    ev_names = {c.args[0].id for c in evals if c.args and isinstance(c.args[0], ast.Name)}
    pts = set(al) | ev_names
    def selected_from(v):
        """Expressions one of which the value of `v` always is (np.choose / np.where / a selector helper), or None."""
        if isinstance(v, ast.Name):
            return [v]
        if isinstance(v, ast.Call) and call_name(v) in ('choose', 'where'):
            return _choices(v)
        if isinstance(v, ast.Call):
            g = prog.functions.get(prog.resolve(fn.module, v.func) or '')
            if g is not None and g.cls is None and not v.keywords and len(v.args) == len(g.params):
                rets_g = [r for r in walk_no_nested(g.node) if isinstance(r, ast.Return) and r.value is not None]
                if len(rets_g) == 1 and isinstance(rets_g[0].value, ast.Call) and call_name(rets_g[0].value) in ('choose', 'where'):
                    inner = _choices(rets_g[0].value)
                    if all(isinstance(x, ast.Name) and x.id in g.params for x in inner):
                        return [v.args[g.params.index(x.id)] for x in inner]
        return None

    def kind_of(v):
        ch = selected_from(v)
        if ch is not None:
            if all(isinstance(x, ast.Name) and x.id in pts for x in ch):
                return 'point'
            return 'nonpoint' if all(isinstance(x, (ast.Name, ast.Constant)) for x in ch) else 'unknown'
        if isinstance(v, (ast.BinOp, ast.Constant, ast.UnaryOp)):
            return 'nonpoint'
        return 'unknown'

    def pairs_of(s_):
        if isinstance(s_, ast.Assign) and isinstance(s_.targets[0], ast.Name):
            return [(s_.targets[0].id, s_.value)]
        if isinstance(s_, ast.Assign) and isinstance(s_.targets[0], ast.Tuple) and isinstance(s_.value, ast.Tuple) and len(s_.targets[0].elts) == len(s_.value.elts):
            return [(t_.id, v_) for t_, v_ in zip(s_.targets[0].elts, s_.value.elts) if isinstance(t_, ast.Name)]
        return []
    grew = True
    while grew:
        grew = False
        for s in ast.walk(lp):
            for name, v in pairs_of(s):
                if name not in pts and kind_of(v) == 'point':
                    pts.add(name)
                    grew = True
    rets = [n for n in walk_no_nested(fn.node) if isinstance(n, ast.Return)]
    rv = rets[-1].value if rets else None
    if isinstance(rv, ast.Name) and rv.id in pts:
        rep.ok('D2.contain', fn, rets[-1], f'the returned `{short(rv)}` only ever holds bracket ends or clipped iterates', construct='returned point')
    else:
        defs_rv = [v for s in ast.walk(fn.node) for name, v in pairs_of(s) if isinstance(rv, ast.Name) and name == rv.id]
        if defs_rv and any(kind_of(v) == 'nonpoint' for v in defs_rv):
            rep.bad('D2.contain', fn, rets[-1], f'the returned `{short(rv)}` can hold a value that is not a bracket end or a clipped iterate', construct='returned point')
        else:
            rep.undecided('D2.contain', fn, rets[-1] if rets else fn.node.name, f'what the returned `{short(rv)}` can hold is not derived', construct='returned point')
    bad, unknown = [], []
    for s in ast.walk(lp):
        for name, v in pairs_of(s):
            if name in pts and name not in ev_names:
                k = kind_of(v)
                if k == 'nonpoint':
                    bad.append(s)
                elif k == 'unknown':
                    unknown.append(s)
    if bad:
        rep.bad('D2.contain', fn, bad[0], 'a tracked bracket point receives a value that is not one of the bracket points', construct='point updates')
    elif unknown:
        rep.undecided('D2.contain', fn, unknown[0], 'a tracked bracket point is assigned from an expression that is not recognised as a selection among bracket points',
                      construct='point updates')
    else:
        rep.ok('D2.contain', fn, lp, 'a, b, c, xm are only ever assigned bracket points', construct='point updates')
    # D4 scalar vs vector formula.  Roles of the locals (not their names): SHAPE is assigned from np.shape(...); T is the
    # interpolation fraction multiplying (b - a) in the clipped evaluation point; IQI is the mask that selects interpolation.
    SHAPE = T = IQI = None
    for s in walk_no_nested(fn.node):
        if isinstance(s, ast.Assign) and len(s.targets) == 1 and isinstance(s.targets[0], ast.Name) and isinstance(s.value, ast.Call) \
                and (prog.resolve(fn.module, s.value.func) == 'numpy.shape') and SHAPE is None:
            SHAPE = s.targets[0].id
    for c in ast.walk(lp):
        if isinstance(c, ast.Call) and call_name(c) == 'clip' and c.args:
            for x in ast.walk(c.args[0]):
                if isinstance(x, ast.BinOp) and isinstance(x.op, ast.Mult):
                    for side, other in ((x.left, x.right), (x.right, x.left)):
                        if isinstance(side, ast.Name) and isinstance(other, ast.BinOp) and isinstance(other.op, ast.Sub) and T is None:
                            T = side.id
    if T is not None:
        for s in ast.walk(lp):
            if isinstance(s, ast.Assign) and isinstance(s.targets[0], ast.Subscript) and isinstance(s.targets[0].value, ast.Name) and s.targets[0].value.id == T \
                    and isinstance(s.targets[0].slice, ast.Name):
                IQI = s.targets[0].slice.id
    if T is None:
        # the fraction may be handed to a helper that interpolates: the name that is subscript-stored under a mask and also bound to 0.5
        halves_ = {s_.targets[0].id for s_ in walk_no_nested(fn.node) if isinstance(s_, ast.Assign) and len(s_.targets) == 1 and isinstance(s_.targets[0], ast.Name)
                   and (const_value(s_.value) == 0.5 or (isinstance(s_.value, ast.Call) and call_name(s_.value) == 'full' and len(s_.value.args) == 2 and const_value(s_.value.args[1]) == 0.5))}
        masked = {s_.targets[0].value.id: s_.targets[0].slice.id for s_ in ast.walk(lp) if isinstance(s_, ast.Assign) and isinstance(s_.targets[0], ast.Subscript)
                  and isinstance(s_.targets[0].value, ast.Name) and isinstance(s_.targets[0].slice, ast.Name)}
        both = sorted(halves_ & set(masked))
        if len(both) == 1:
            T, IQI = both[0], masked[both[0]]
    if T is None or SHAPE is None:
        rep.undecided('D4.scalar', fn, lp, 'the interpolation fraction / the shape test of chandrupatla were not recognised', construct='interpolation formula')
        return
    scalar_t = vector_t = None
    for s in ast.walk(lp):
        if isinstance(s, ast.If) and isinstance(s.test, ast.UnaryOp) and isinstance(s.test.op, ast.Not) \
                and isinstance(s.test.operand, ast.Name) and s.test.operand.id == SHAPE:
            for x in ast.walk(ast.Module(body=s.body, type_ignores=[])):
                if isinstance(x, ast.If) and isinstance(x.test, ast.Name):
                    for y in x.body:
                        if isinstance(y, ast.Assign) and isinstance(y.targets[0], ast.Name) and y.targets[0].id == T:
                            scalar_t = (y, x.body)
            for y in s.orelse:
                if isinstance(y, ast.Assign) and isinstance(y.targets[0], ast.Subscript) and isinstance(y.targets[0].value, ast.Name) \
                        and y.targets[0].value.id == T:
                    vector_t = (y, s.orelse)
    # every path through the step selection assigns t afresh (bisection 0.5 unless interpolation is chosen)
    from ..idioms import enum_paths
    for s in ast.walk(lp):
        if isinstance(s, ast.If) and isinstance(s.test, ast.UnaryOp) and isinstance(s.test.op, ast.Not) \
                and isinstance(s.test.operand, ast.Name) and s.test.operand.id == SHAPE:
            for which, body in (('scalar', s.body), ('vector', s.orelse)):
                paths = enum_paths(body)
                good = bool(paths)
                halves = True
                for p in paths:
                    assigns = [x for x in p.stmts if isinstance(x, ast.Assign) and isinstance(x.targets[0], ast.Name) and x.targets[0].id == T]
                    good = good and bool(assigns)
                    interp = any(pol and isinstance(t_, ast.Name) and t_.id == IQI for t_, pol in p.conds)
                    if assigns and not interp:
                        v = assigns[0].value
                        if isinstance(v, ast.IfExp) and isinstance(v.test, ast.Name) and v.test.id == IQI:
                            v = v.orelse      # t = <interpolation> if iqi else 0.5
                        halves = halves and (const_value(v) == 0.5 or (isinstance(v, ast.Call) and call_name(v) == 'full' and len(v.args) == 2 and const_value(v.args[1]) == 0.5))
                rep.check('D4.scalar', fn, s, good, f'{which} branch: t is assigned on every path of the iteration',
                          f'{which} branch: some path leaves t unassigned, so the step of the previous iteration is reused where a bisection step is required',
                          construct=f'{which} branch assigns t')
                rep.check('D4.scalar', fn, s, halves, f'{which} branch: the fallback step is the bisection step 0.5',
                          f'{which} branch: the fallback step is not 0.5', construct=f'{which} branch fallback')
    if scalar_t is None or vector_t is None:
        rep.undecided('D4.scalar', fn, lp, 'scalar / vector interpolation branches not recognised', construct='interpolation formula')
    else:
        nf = NF(prog, fn)
        nf.env = {}
        # plain copies made in the loop body before the branch (`a = hist_a`) name the same value on both sides
        copies = {}
        for y in lp.body:
            if isinstance(y, ast.Assign) and len(y.targets) == 1 and isinstance(y.targets[0], ast.Name) and isinstance(y.value, ast.Name):
                copies[y.targets[0].id] = ('name', copies.get(y.value.id, ('name', y.value.id))[1])
        nf.env.update(copies)
        for y in scalar_t[1]:
            if isinstance(y, ast.Assign) and isinstance(y.targets[0], ast.Name):
                nf.env[y.targets[0].id] = nf.nf(y.value)
        a = nf.env.get(T)
        nf2 = NF(prog, fn)
        nf2.env = dict(copies)
        mask = vector_t[0].targets[0].slice
        for y in vector_t[1]:
            pairs = []
            if isinstance(y, ast.Assign) and isinstance(y.targets[0], ast.Tuple) and isinstance(y.value, ast.Tuple):
                pairs = list(zip(y.targets[0].elts, y.value.elts))
            elif isinstance(y, ast.Assign) and len(y.targets) == 1 and isinstance(y.targets[0], ast.Name):
                pairs = [(y.targets[0], y.value)]
            for te, ve in pairs:
                if isinstance(te, ast.Name) and isinstance(ve, ast.Subscript) and isinstance(ve.value, ast.Name) and ast.dump(ve.slice) == ast.dump(mask):
                    nf2.env[te.id] = copies.get(ve.value.id, ('name', ve.value.id))
        b = nf2.nf(vector_t[0].value)
        from ..exprnf import nf_names, nf_refute_equal
        if a is not None and a == b:
            rep.ok('D4.scalar', fn, vector_t[0], 'same AC normal form modulo the lane mask', construct='interpolation formula')
        elif a is not None and b is not None and nf_names(a) == nf_names(b) and nf_refute_equal(a, b):
            rep.bad('D4.scalar', fn, vector_t[0], 'the scalar branch and the vector branch compute different interpolation formulas (their values are disjoint on a common '
                    'box of the six history values): scalar input does not behave like a one-element vector', construct='interpolation formula')
        else:
            rep.undecided('D4.scalar', fn, vector_t[0], 'the scalar and the vector interpolation formulas have different normal forms and no box separates their values',
                          construct='interpolation formula')


def _choices(call):
    out = []
    for a in call.args[1:]:
        if isinstance(a, (ast.List, ast.Tuple)):
            out.extend(a.elts)
        else:
            out.append(a)
    return out


FLOAT_NAMES = {'float', 'np.float64', 'numpy.float64', 'np.double', 'np.float_', 'np.longdouble', "'float'", "'float64'", "'f8'", "'d'"}
COPYING = {'array', 'asarray', 'asanyarray', 'copy', 'ascontiguousarray', 'atleast_1d', 'ravel', 'squeeze', 'flatten', 'reshape'}


def _floatness(prog, fn, e, depth=0):
    """True: the array is float whatever the caller passed; False: it keeps the dtype of a caller's array (positive
    evidence: a dtype-preserving copy of a parameter); None: not derived."""
    if depth > 12 or e is None:
        return None
    if isinstance(e, ast.Name):
        if e.id in fn.params and not any(isinstance(a, ast.Assign) and any(isinstance(t, ast.Name) and t.id == e.id for t in a.targets)
                                         for a in walk_no_nested(fn.node)):
            return False
        defs = [a.value for a in walk_no_nested(fn.node) if isinstance(a, ast.Assign) and len(a.targets) == 1 and isinstance(a.targets[0], ast.Name)
                and a.targets[0].id == e.id]
        # the first definition in source order is what the in-place stores write into (a parameter re-bound to its float copy)
        if not defs:
            return None
        rs = [_floatness(prog, fn, d, depth + 1) if not (isinstance(d, ast.Name) and d.id == e.id) else None for d in defs]
        if all(r is True for r in rs):
            return True
        return False if any(r is False for r in rs) and not any(r is None for r in rs) else None
    if isinstance(e, ast.Constant):
        return isinstance(e.value, float)
    if isinstance(e, ast.BinOp):
        if isinstance(e.op, ast.Div):
            return True
        l, r = _floatness(prog, fn, e.left, depth + 1), _floatness(prog, fn, e.right, depth + 1)
        if l is True or r is True:
            return True
        return False if l is False and r is False else None
    if isinstance(e, ast.Call):
        leaf = call_name(e)
        dt = kwarg(e, 'dtype')
        if leaf == 'astype' and e.args:
            dt = e.args[0]
        if dt is not None:
            txt = ast.unparse(dt)
            return True if txt in FLOAT_NAMES else (False if txt in ('int', 'bool', 'np.int64', 'np.int32', 'np.intp') else None)
        if leaf in ('zeros', 'ones', 'empty', 'linspace'):
            return True
        if leaf == 'full' and len(e.args) >= 2:
            return _floatness(prog, fn, e.args[1], depth + 1)
        if leaf in ('zeros_like', 'ones_like', 'empty_like', 'full_like') and e.args:
            return _floatness(prog, fn, e.args[0], depth + 1)
        if leaf == 'float':
            return True
        if leaf in COPYING:
            src = e.args[0] if (e.args and not (isinstance(e.func, ast.Attribute) and not isinstance(e.func.value, ast.Name))) else None
            if isinstance(e.func, ast.Attribute) and not (isinstance(e.func.value, ast.Name) and e.func.value.id in ('np', 'numpy')):
                src = e.func.value  # x.copy(), x.ravel()
            return _floatness(prog, fn, src, depth + 1) if src is not None else None
    return None


def float_buffers(ctx, rep, fn):
    prog = ctx.prog
    seen = set()
    for s in walk_no_nested(fn.node):
        if not (isinstance(s, ast.Assign) and len(s.targets) == 1 and isinstance(s.targets[0], ast.Subscript) and isinstance(s.targets[0].value, ast.Name)):
            continue
        name = s.targets[0].value.id
        if name in seen:
            continue
        seen.add(name)
        # the buffer as it is when the store happens: its latest whole-name definition before the store
        defs = [a for a in walk_no_nested(fn.node) if isinstance(a, ast.Assign) and len(a.targets) == 1 and isinstance(a.targets[0], ast.Name)
                and a.targets[0].id == name]
        # a definition earlier in the same block is the one the store writes into
        blk = None
        for field in ('body', 'orelse', 'finalbody'):
            lst = getattr(s._parent, field, None)
            if isinstance(lst, list) and s in lst:
                blk = lst
        same = [d for d in defs if blk is not None and d in blk and blk.index(d) < blk.index(s)]
        if same:
            defs = [same[-1]]
        if not defs:
            if name in fn.params:
                continue  # a store into the caller's own array: C20's concern
            rep.undecided('D6.float', fn, s, f'where the buffer `{name}` is created is not recognised', construct=f'{fn.name}: buffer {name}')
            continue
        rs = []
        for d in defs:
            v = d.value
            if isinstance(v, ast.Call) and call_name(v) in COPYING and v.args and isinstance(v.args[0], ast.Name) and v.args[0].id == name \
                    and name in fn.params and kwarg(v, 'dtype') is None:
                rs.append(False)   # x = np.copy(x) / np.array(x): the caller's dtype is kept
            else:
                rs.append(_floatness(prog, fn, v))
        if all(r is True for r in rs):
            rep.ok('D6.float', fn, defs[0], f'`{name}` is a float array before points are stored into it', construct=f'{fn.name}: buffer {name}')
        elif any(r is False for r in rs):
            bad = defs[rs.index(False)]
            rep.bad('D6.float', fn, bad, f'`{name}` = `{short(bad.value, 50)}` keeps the dtype of the caller\'s array, and `{short(s, 50)}` stores computed points into it: '
                    'with an integer bracket every stored point is truncated (the root is lost or the bracket stops shrinking)', construct=f'{fn.name}: buffer {name}')
        else:
            rep.undecided('D6.float', fn, defs[0], f'dtype of the buffer `{name}` (`{short(defs[0].value, 50)}`) is not derived', construct=f'{fn.name}: buffer {name}')
    if not seen:
        rep.ok('D6.float', fn, fn.node.name, 'no in-place lane store', construct=f'def {fn.name}: buffers')


def _only_decides_exit(fn, node, depth):
    """The value of `node` only reaches assertion / loop-exit tests (directly, or through a local it is the only value of)."""
    p = node
    while p is not None and p is not fn.node:
        par = p._parent
        if isinstance(par, ast.Assert):
            return True
        if isinstance(par, ast.While) and par.test is p:
            return True
        if isinstance(par, ast.If) and par.test is p:
            return all(isinstance(s, (ast.Break, ast.Return, ast.Raise)) for s in par.body) and not par.orelse
        if isinstance(par, ast.Assign) and par.value is p and len(par.targets) == 1 and isinstance(par.targets[0], ast.Name) and depth < 3:
            name = par.targets[0].id
            uses = [x for x in walk_no_nested(fn.node) if isinstance(x, ast.Name) and x.id == name and isinstance(x.ctx, ast.Load)]
            nested = any(isinstance(x, ast.Name) and x.id == name for g in ast.walk(fn.node) if isinstance(g, (ast.FunctionDef, ast.Lambda)) and g is not fn.node
                         for x in ast.walk(g))
            return bool(uses) and not nested and all(_only_decides_exit(fn, u, depth + 1) for u in uses)
        if isinstance(par, ast.stmt):
            return False
        p = par
    return False


def lanes(ctx, rep, fn):
    """Reductions over the lane axis only in assert conditions and in tests that only break/return."""
    n = 0
    for c in walk_no_nested(fn.node):
        if not (isinstance(c, ast.Call) and call_name(c) in LANE_REDUCTIONS):
            continue
        if call_name(c) in ('max', 'min') and isinstance(c.func, ast.Name) and len(c.args) >= 2:
            continue
        if call_name(c) in ('minimum', 'maximum'):
            continue
        n += 1
        ok = _only_decides_exit(fn, c, 0)
        rep.check('D3.lanes', fn, c, ok, f'`{short(c, 50)}` only decides an assertion / loop exit',
                  f'`{short(c, 50)}` reduces over the lanes and flows into a value: one lane can change the result of another',
                  construct=f'{fn.name}: {short(c, 80)}')
    if n == 0:
        rep.ok('D3.lanes', fn, fn.node.name, 'no lane reduction', construct=f'def {fn.name}')
