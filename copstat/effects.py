"""E4 - effect summaries: global-RNG use (E4a), self-attribute read/write sets (E4b) and the
may-mutate-parameter alias analysis (E4c)."""

import ast
import re

from . import contracts as K
from .cfg import CFG, forward, header_exprs
from .model import call_name, is_self_attr, kwarg, short, walk_no_nested

SET_RANDOM_STATE = 'copulas.utils.set_random_state'
RANDOM_STATE_DECORATOR = 'copulas.utils.random_state'


# =========================================================================== E4a: global RNG
class RngSite:
    def __init__(self, fn, call, what, scoped_with, kind='consume'):
        self.fn = fn
        self.call = call
        self.what = what
        self.scoped_with = scoped_with  # lexically inside `with set_random_state(...)`
        self.kind = kind  # consume | write-state | entropy


def scope_of_context(prog, fn, ce):
    """If the context expression `ce` (of a with statement in fn) establishes a random-state scope, return
    (set_random_state call, fn in which that call is written, {factory param: argument expr at the with}) else None.
    Recognised: set_random_state(...) itself, and a project function every return of which is such a call
    (a scope factory such as `_seeded(seed)`)."""
    if not isinstance(ce, ast.Call):
        return None
    nm = prog.resolve(fn.module, ce.func)
    if nm == SET_RANDOM_STATE:
        return ce, fn, {}
    g = prog.functions.get(nm) if nm else None
    if g is not None and g.outer is None:
        rets = [n for n in walk_no_nested(g.node) if isinstance(n, ast.Return)]
        falls_through = not rets or not isinstance(g.body()[-1], (ast.Return, ast.Raise, ast.If))
        good = [r for r in rets if isinstance(r.value, ast.Call) and prog.resolve(g.module, r.value.func) == SET_RANDOM_STATE]
        null = [r for r in rets if isinstance(r.value, ast.Call) and prog.resolve(g.module, r.value.func) in ('contextlib.nullcontext', 'contextlib.suppress')
                and not r.value.args]
        if null and good and len(good) + len(null) == len(rets) and not falls_through:
            # a no-op scope is accepted only where the model has no random state of its own (`<x>.random_state is None`)
            from .idioms import enum_paths, is_none_test
            ok = True
            for path in enum_paths(g.body()):
                if path.end in null:
                    est = False
                    for test, pol in path.conds:
                        nt = is_none_test(test) if isinstance(test, ast.expr) else None
                        if nt is not None and nt[1] == pol and isinstance(nt[0], ast.Attribute) and nt[0].attr == 'random_state':
                            est = True
                    ok = ok and est
            if ok:
                rets = good
        if rets and len(good) == len(rets) and not falls_through:
            binding = {}
            for i, a in enumerate(ce.args):
                if i < len(g.params):
                    binding[g.params[i]] = a
            for k in ce.keywords:
                if k.arg:
                    binding[k.arg] = k.value
            return good[0].value, g, binding
    return None


def _inside_with_set_random_state(prog, fn, node):
    p = getattr(node, '_parent', None)
    child = node
    while p is not None and p is not fn.node:
        if isinstance(p, (ast.With, ast.AsyncWith)) and child in p.body:
            for it in p.items:
                if scope_of_context(prog, fn, it.context_expr) is not None:
                    return p
        child = p
        p = getattr(p, '_parent', None)
    return None


_DRAW_METHODS = {'choice', 'normal', 'uniform', 'rand', 'randn', 'random', 'random_sample', 'standard_normal', 'multivariate_normal', 'shuffle', 'permutation',
                 'integers', 'randint', 'beta', 'gamma', 'exponential', 'binomial', 'poisson', 'standard_t', 'bytes'}


def rng_sites(prog, fn):
    """RNG-relevant call sites written directly in fn (nested defs excluded)."""
    out = []
    for call in [n for n in walk_no_nested(fn.node) if isinstance(n, ast.Call)]:
        nm = prog.resolve(fn.module, call.func)
        scoped = _inside_with_set_random_state(prog, fn, call)
        if nm and nm.startswith('numpy.random.'):
            leaf = nm.split('.')[-1]
            if nm in K.RNG_STATE_WRITERS:
                out.append(RngSite(fn, call, nm, scoped, 'write-state'))
            elif leaf not in K.RNG_NON_CONSUMING:
                out.append(RngSite(fn, call, nm, scoped))
            elif leaf == 'default_rng' and not call.args and not call.keywords:
                out.append(RngSite(fn, call, nm + '() (OS entropy)', scoped, 'entropy'))
            elif leaf in ('default_rng', 'Generator', 'RandomState', 'PCG64', 'MT19937', 'SeedSequence') and fn.module.name != 'copulas.utils':
                out.append(RngSite(fn, call, nm + '(...): a generator of its own', scoped, 'private-stream'))
            continue
        if nm in K.OTHER_ENTROPY:
            out.append(RngSite(fn, call, nm, scoped, 'entropy'))
            continue
        meth = call_name(call)
        if isinstance(call.func, ast.Attribute) and meth in _DRAW_METHODS and fn.module.name != 'copulas.utils':
            # a draw method called on the model's own RandomState (directly, through a local, or as one alternative of a conditional)
            def model_state(e, depth=0):
                if isinstance(e, ast.Attribute) and e.attr == 'random_state':
                    return True
                if isinstance(e, ast.IfExp):
                    return model_state(e.body, depth + 1) or model_state(e.orelse, depth + 1)
                if isinstance(e, ast.Name) and depth < 3:
                    return any(model_state(a.value, depth + 1) for a in walk_no_nested(fn.node) if isinstance(a, ast.Assign)
                               and any(isinstance(t, ast.Name) and t.id == e.id for t in a.targets))
                return False
            if model_state(call.func.value):
                out.append(RngSite(fn, call, f'.{meth}() on the model\'s own random_state', scoped, 'model-stream'))
                continue
        if isinstance(call.func, ast.Attribute) and meth in K.RNG_METHODS:
            kw = kwarg(call, K.RNG_METHODS[meth])
            if kw is None or (isinstance(kw, ast.Constant) and kw.value is None):
                # project methods of the same name are resolved through the call graph instead
                if nm is None or not nm.startswith('copulas.'):
                    out.append(RngSite(fn, call, f'.{meth}() without {K.RNG_METHODS[meth]}=', scoped))
    return out


class RngSummary:
    """consumes_unscoped(fn): fn, when called, may draw from numpy's global generator outside any
    `with set_random_state` / own-`@random_state` scope."""

    def __init__(self, ctx):
        self.ctx = ctx
        self.prog = ctx.prog
        self.cg = ctx.cg
        self.sites = {q: rng_sites(self.prog, f) for q, f in self.prog.functions.items()}
        self.unscoped = {}  # qualname -> witness path (list of str) or None
        self._solve()

    def decorated(self, fn):
        return RANDOM_STATE_DECORATOR in fn.decorators

    def _solve(self):
        prog = self.prog
        for q, f in prog.functions.items():
            w = None
            for s in self.sites[q]:
                if s.kind == 'consume' and not s.scoped_with:
                    w = [f'{f.short} [{f.where(s.call)}]: {short(s.call, 70)} ({s.what})']
                    break
            self.unscoped[q] = w
        changed = True
        while changed:
            changed = False
            for q, f in prog.functions.items():
                if self.unscoped[q]:
                    continue
                for call, tgts in self.cg.callees(f, nested=False):
                    if _inside_with_set_random_state(prog, f, call):
                        continue
                    for t in tgts:
                        if t.kind != 'proj' or t.how == 'by method name' and False:
                            continue
                        g = t.fn
                        if g.outer is not None and g.outer.qualname in (RANDOM_STATE_DECORATOR,):
                            continue  # the decorator's wrapper: handled through `decorated`
                        if not self.unscoped.get(g.qualname):
                            continue
                        # a callee under its own @random_state is scoped by the *callee object's* seed;
                        # that only counts as scoped for the caller when the receiver is `self`
                        recv_is_self = (isinstance(call.func, ast.Attribute) and isinstance(call.func.value, ast.Name)
                                        and f.self_name and call.func.value.id == f.self_name)
                        if self.decorated(g) and recv_is_self:
                            continue
                        self.unscoped[q] = [f'{f.short} [{f.where(call)}]: {short(call, 70)} -> {g.short}'
                                            + (' (its @random_state uses the callee object\'s seed, not this '
                                               'model\'s)' if self.decorated(g) else '')] + self.unscoped[g.qualname]
                        changed = True
                        break
                    if self.unscoped[q]:
                        break
                # nested functions defined here and called/handed out count as part of the parent
                if not self.unscoped[q]:
                    for g in prog.functions.values():
                        if g.outer is f and self.unscoped.get(g.qualname) and f.qualname != RANDOM_STATE_DECORATOR:
                            pass

    def consumes_unscoped(self, fn):
        return self.unscoped.get(fn.qualname)


# ================================================================ E4b: self attribute effects
class AttrEffects:
    """Direct and transitive reads/writes of `self.<attr>` per method, per concrete class."""

    def __init__(self, ctx):
        self.ctx = ctx
        self.prog = ctx.prog
        self.cg = ctx.cg
        self._direct = {}

    def direct(self, fn):
        if fn.qualname in self._direct:
            return self._direct[fn.qualname]
        reads, writes, acc, calls = {}, {}, {}, []
        sn = fn.self_name
        if sn:
            for n in ast.walk(fn.node):
                if is_self_attr(n, sn):
                    par = getattr(n, '_parent', None)
                    if isinstance(n.ctx, ast.Store):
                        writes.setdefault(n.attr, []).append(n)
                    elif isinstance(n.ctx, ast.Del):
                        writes.setdefault(n.attr, []).append(n)
                    else:
                        if isinstance(par, ast.Call) and par.func is n:
                            calls.append((n.attr, par))
                            continue
                        reads.setdefault(n.attr, []).append(n)
                        if isinstance(par, ast.Attribute) and isinstance(getattr(par, '_parent', None), ast.Call) \
                                and par._parent.func is par and par.attr in ('append', 'extend', 'insert', 'add', 'update'):
                            acc.setdefault(n.attr, []).append(par._parent)
                        if isinstance(par, ast.AugAssign) and par.target is n:
                            writes.setdefault(n.attr, []).append(n)
                elif isinstance(n, ast.Call) and isinstance(n.func, ast.Attribute) and n.func.attr == 'pop' \
                        and isinstance(n.func.value, ast.Attribute) and n.func.value.attr == '__dict__' \
                        and isinstance(n.func.value.value, ast.Name) and n.func.value.value.id == sn and n.args \
                        and isinstance(n.args[0], ast.Constant) and isinstance(n.args[0].value, str):
                    writes.setdefault(n.args[0].value, []).append(n)
                elif isinstance(n, ast.Call) and isinstance(n.func, ast.Name) and n.func.id in ('setattr', 'getattr', 'hasattr') \
                        and n.args and isinstance(n.args[0], ast.Name) and n.args[0].id == sn and len(n.args) > 1:
                    a = n.args[1]
                    if isinstance(a, ast.Constant) and isinstance(a.value, str):
                        (writes if n.func.id == 'setattr' else reads).setdefault(a.value, []).append(n)
        res = {'reads': reads, 'writes': writes, 'acc': acc, 'calls': calls}
        self._direct[fn.qualname] = res
        return res

    def closure(self, fn, concrete):
        """Methods of `concrete` reachable from fn through calls on self (plus fn itself)."""
        seen = {}
        todo = [fn]
        while todo:
            f = todo.pop()
            if f.qualname in seen:
                continue
            seen[f.qualname] = f
            for inner in self.prog.functions.values():
                if inner.outer is f:
                    todo.append(inner)
            for name, call in self.direct(f)['calls']:
                m = concrete.lookup(name)
                if m is not None:
                    todo.append(m)
                for alt in self.cg.instance_overrides(concrete).get(name, ()):
                    todo.append(alt)
        return seen

    def transitive(self, fn, concrete):
        reads, writes = {}, {}
        for f in self.closure(fn, concrete).values():
            d = self.direct(f)
            sn_owner = f
            while sn_owner.outer is not None:
                sn_owner = sn_owner.outer
            for a, ns in d['reads'].items():
                reads.setdefault(a, []).extend((f, n) for n in ns)
            for a, ns in d['writes'].items():
                writes.setdefault(a, []).extend((f, n) for n in ns)
        return reads, writes

    def nested_direct(self, fn):
        """direct() of fn merged with its nested functions (closures read self of the parent)."""
        out = {'reads': {}, 'writes': {}, 'acc': {}, 'calls': []}
        todo = [fn]
        while todo:
            f = todo.pop()
            sn = fn.self_name
            if f is not fn:
                # nested function: `self` is the parent's self by closure
                saved = None
            d = self._direct_with_self(f, sn)
            for k in ('reads', 'writes', 'acc'):
                for a, ns in d[k].items():
                    out[k].setdefault(a, []).extend(ns)
            out['calls'].extend(d['calls'])
            for inner in self.prog.functions.values():
                if inner.outer is f:
                    todo.append(inner)
        return out

    def _direct_with_self(self, f, sn):
        if f.self_name == sn:
            return self.direct(f)
        reads, writes, acc, calls = {}, {}, {}, []
        for n in ast.walk(f.node):
            if is_self_attr(n, sn):
                par = getattr(n, '_parent', None)
                if isinstance(n.ctx, (ast.Store, ast.Del)):
                    writes.setdefault(n.attr, []).append(n)
                elif isinstance(par, ast.Call) and par.func is n:
                    calls.append((n.attr, par))
                else:
                    reads.setdefault(n.attr, []).append(n)
        return {'reads': reads, 'writes': writes, 'acc': acc, 'calls': calls}


# ===================================================================== E4c: alias / mutation
P, S = 'P', 'S'  # origin tags: parameter, self attribute
EMPTY = frozenset()


def doc_param_types(fn):
    """Google-style docstring parameter types: {'name': 'type text'}."""
    out = {}
    for line in fn.docstring().splitlines():
        m = re.match(r'\s*(\*{0,2}\w+)\s*\(([^)]*)\)\s*:', line)
        if m:
            out[m.group(1).lstrip('*')] = m.group(2).strip().lower()
    return out


def param_is_scalar(fn, name):
    d = fn.defaults.get(name)
    if isinstance(d, ast.Constant) and isinstance(d.value, (int, float, str, bool)) and d.value is not None:
        return True
    t = doc_param_types(fn).get(name)
    if t:
        parts = re.split(r'\s*(?:,|\bor\b|\|)\s*', t)
        parts = [p for p in parts if p and p != 'none' and p != 'optional']
        if parts and all(any(p == s or p.startswith(s + ' ') for s in K.SCALAR_DOC_TYPES) for p in parts):
            return True
    return False


class Event:
    def __init__(self, fn, node, origins, how, sub=None):
        self.fn = fn
        self.node = node
        self.origins = origins
        self.how = how
        self.sub = sub  # Mut of the callee this event inherits from

    def mut(self):
        here = f'{self.fn.short} [{self.fn.where(self.node)}]: {short(self.node, 80)} ({self.how})'
        if self.sub is not None:
            return Mut(self.sub.terminal, (here,) + self.sub.path)
        return Mut(f'{self.fn.short}: {norm(self.node)}', (here,))


class Mut:
    """One way an origin gets modified: the terminal in-place construct and the call path to it."""

    def __init__(self, terminal, path):
        self.terminal = terminal
        self.path = tuple(path)[:8]


def norm(node):
    return ' '.join(short(node, 300).split())


def add_mut(table, key, mut):
    lst = table.setdefault(key, [])
    if all(m.terminal != mut.terminal for m in lst):
        lst.append(mut)


class Summary:
    def __init__(self):
        self.mut_params = {}  # param name -> [path strings]
        self.mut_self = {}  # self attr -> [path strings]
        self.ret = EMPTY  # origins the return value may alias
        self.stores = {}  # self attr -> origins stored into it
        self.events = []

    def sig(self):
        return (tuple(sorted(self.mut_params)), tuple(sorted(self.mut_self)), tuple(sorted(self.ret)),
                tuple(sorted((a, tuple(sorted(o))) for a, o in self.stores.items())))


class AliasAnalysis:
    def __init__(self, ctx):
        self.ctx = ctx
        self.prog = ctx.prog
        self.cg = ctx.cg
        self.summaries = {q: Summary() for q in self.prog.functions}
        self._cfgs = {}
        self._solve()

    # ----------------------------------------------------------------- solving
    def _solve(self):
        order = sorted(self.prog.functions.values(), key=lambda f: f.qualname)
        for _round in range(12):
            changed = False
            for fn in order:
                new = self._analyse(fn)
                if new.sig() != self.summaries[fn.qualname].sig():
                    changed = True
                self.summaries[fn.qualname] = new
            if not changed:
                break

    def cfg(self, fn):
        if fn.qualname not in self._cfgs:
            self._cfgs[fn.qualname] = CFG(fn.node)
        return self._cfgs[fn.qualname]

    # ------------------------------------------------------------- expressions
    def eval(self, fn, expr, st):
        prog = self.prog
        if expr is None:
            return EMPTY
        if isinstance(expr, ast.Name):
            return st.get(expr.id, EMPTY)
        if isinstance(expr, ast.Attribute):
            sn = self._selfname(fn)
            if sn and is_self_attr(expr, sn):
                return frozenset({(S, expr.attr)}) | st.get('#' + expr.attr, EMPTY)
            if expr.attr in K.ALIAS_ATTRS:
                return self.eval(fn, expr.value, st)
            return EMPTY
        if isinstance(expr, ast.Subscript):
            sl = expr.slice
            if isinstance(sl, (ast.Compare, ast.BoolOp, ast.List, ast.UnaryOp, ast.BinOp)):
                return EMPTY  # boolean-mask / fancy indexing gives a copy
            return self.eval(fn, expr.value, st)
        if isinstance(expr, ast.Starred):
            return self.eval(fn, expr.value, st)
        if isinstance(expr, ast.IfExp):
            return self.eval(fn, expr.body, st) | self.eval(fn, expr.orelse, st)
        if isinstance(expr, ast.BoolOp):
            out = EMPTY
            for v in expr.values:
                out |= self.eval(fn, v, st)
            return out
        if isinstance(expr, (ast.Tuple, ast.List, ast.Set)):
            out = EMPTY
            for v in expr.elts:
                out |= self.eval(fn, v, st)
            return out
        if isinstance(expr, ast.NamedExpr):
            return self.eval(fn, expr.value, st)
        if isinstance(expr, ast.Call):
            return self._eval_call(fn, expr, st)
        return EMPTY

    def _selfname(self, fn):
        f = fn
        while f is not None:
            if f.self_name and f.kind == 'method':
                return f.self_name
            f = f.outer
        return None

    def _eval_call(self, fn, call, st):
        prog = self.prog
        f = call.func
        nm = prog.resolve(fn.module, f)
        meth = call_name(call)
        if nm in K.ALIAS_FUNCS and call.args:
            # pd.DataFrame(X, columns=...) / np.asarray(x)
            if kwarg(call, 'copy') is not None and isinstance(kwarg(call, 'copy'), ast.Constant) \
                    and kwarg(call, 'copy').value is True:
                return EMPTY
            return self.eval(fn, call.args[0], st)
        if nm is not None and not nm.startswith('copulas.'):
            if nm.startswith('copy.') or nm in ('numpy.array', 'numpy.copy'):
                return EMPTY
            if isinstance(f, ast.Attribute) and meth in K.ALIAS_METHODS and prog.resolve(fn.module, f.value) is None:
                return self.eval(fn, f.value, st)
            return EMPTY
        if isinstance(f, ast.Attribute):
            if meth in K.COPY_METHODS and not self._project_method(fn, call):
                return EMPTY
            if meth in K.ALIAS_METHODS:
                return self.eval(fn, f.value, st)
        # project callee: return-alias summary
        out = EMPTY
        for t in self.cg.targets(fn, call):
            if t.kind != 'proj' or t.how.startswith('decorator'):
                continue
            g = t.fn
            sm = self.summaries.get(g.qualname)
            if sm is None or not sm.ret:
                continue
            binding = self.bind(fn, call, g)
            for o in sm.ret:
                if o[0] == P:
                    for a in binding.get(o[1], ()):
                        out |= self.eval(fn, a, st)
                elif o[0] == S:
                    recv = self._receiver(fn, call)
                    sn = self._selfname(fn)
                    if recv is not None and isinstance(recv, ast.Name) and sn and recv.id == sn:
                        out |= frozenset({o}) | st.get('#' + o[1], EMPTY)
        return out

    def _project_method(self, fn, call):
        return any(t.kind == 'proj' and t.how != 'by method name' for t in self.cg.targets(fn, call))

    def _receiver(self, fn, call):
        return call.func.value if isinstance(call.func, ast.Attribute) else None

    def bind(self, fn, call, g):
        """{callee param: [arg exprs]} for a call of g at `call`."""
        params = list(g.params)
        bound_recv = None
        f = call.func
        skip = 0
        if g.cls is not None and g.kind in ('method', 'classmethod'):
            # bound call unless spelled Class.method(obj, ...) on a plain method
            if isinstance(f, ast.Attribute):
                base = self.prog.resolve(fn.module, f.value)
                if g.kind == 'method' and base in self.prog.classes:
                    skip = 0
                else:
                    skip = 1
                    bound_recv = f.value
            elif isinstance(f, ast.Name):
                # constructor call Class(...) -> __init__(self, ...)
                skip = 1
        names = params[skip:]
        out = {}
        if bound_recv is not None and params:
            out.setdefault(params[0], []).append(bound_recv)
        i = 0
        for a in call.args:
            if isinstance(a, ast.Starred):
                for n in names[i:]:
                    out.setdefault(n, []).append(a.value)
                if g.vararg:
                    out.setdefault(g.vararg, []).append(a.value)
                i = len(names)
                continue
            if i < len(names):
                out.setdefault(names[i], []).append(a)
            elif g.vararg:
                out.setdefault(g.vararg, []).append(a)
            i += 1
        for k in call.keywords:
            if k.arg is None:
                for n in names + g.kwonly:
                    out.setdefault(n, []).append(k.value)
                if g.kwarg:
                    out.setdefault(g.kwarg, []).append(k.value)
            elif k.arg in names or k.arg in g.kwonly:
                out.setdefault(k.arg, []).append(k.value)
            elif g.kwarg:
                out.setdefault(g.kwarg, []).append(k.value)
        return out

    # -------------------------------------------------------------- statements
    def _assign(self, fn, target, value_origins, st, value_expr=None):
        if isinstance(target, ast.Name):
            st[target.id] = value_origins
        elif isinstance(target, (ast.Tuple, ast.List)):
            if isinstance(value_expr, (ast.Tuple, ast.List)) and len(value_expr.elts) == len(target.elts):
                vals = [self.eval(fn, e, st) for e in value_expr.elts]
                for t, v, e in zip(target.elts, vals, value_expr.elts):
                    self._assign(fn, t, v, st, e)
            else:
                for t in target.elts:
                    self._assign(fn, t.value if isinstance(t, ast.Starred) else t, value_origins, st)
        elif isinstance(target, ast.Attribute):
            sn = self._selfname(fn)
            if sn and is_self_attr(target, sn):
                st['#' + target.attr] = st.get('#' + target.attr, EMPTY) | value_origins
        # subscript stores are events, handled separately

    def _transfer(self, fn):
        def tr(node, st_in):
            st = dict(st_in or {})
            a = node.ast
            if node.kind == 'stmt':
                if isinstance(a, ast.Assign):
                    v = self.eval(fn, a.value, st)
                    for t in a.targets:
                        self._assign(fn, t, v, st, a.value)
                elif isinstance(a, ast.AnnAssign) and a.value is not None:
                    self._assign(fn, a.target, self.eval(fn, a.value, st), st, a.value)
                elif isinstance(a, ast.AugAssign):
                    pass  # name keeps its origins
                elif isinstance(a, (ast.FunctionDef, ast.AsyncFunctionDef)):
                    st[a.name] = EMPTY
            elif node.kind == 'for':
                self._assign(fn, a.target, EMPTY, st)
            elif node.kind == 'with':
                for it in a.items:
                    if it.optional_vars is not None:
                        self._assign(fn, it.optional_vars, EMPTY, st)
            elif node.kind == 'handler':
                if a.name:
                    st[a.name] = EMPTY
            return st
        return tr

    @staticmethod
    def _join(a, b):
        if a is None:
            return b
        if b is None:
            return a
        out = dict(a)
        for k, v in b.items():
            out[k] = out.get(k, EMPTY) | v
        # a variable bound on only one side keeps that side's origins (may-alias)
        return out

    def _analyse(self, fn):
        sm = Summary()
        cfg = self.cfg(fn)
        init = {}
        owner = fn
        for p in fn.params + fn.kwonly + ([fn.vararg] if fn.vararg else []) + ([fn.kwarg] if fn.kwarg else []):
            init[p] = frozenset({(P, p)})
        if fn.self_name:
            init[fn.self_name] = EMPTY
        # closure variables of a nested function alias the parent's parameters under the parent's names
        if fn.outer is not None:
            o = fn.outer
            for p in o.params + o.kwonly:
                if p not in init and p != o.self_name:
                    init[p] = frozenset({(P, '^' + p)})
        states = forward(cfg, init, self._transfer(fn), self._join)
        for node in cfg.nodes:
            st = states.get(node.id)
            if st is None:
                continue
            for ev in self._events(fn, node, st):
                sm.events.append(ev)
                for o in ev.origins:
                    if o[0] == P:
                        add_mut(sm.mut_params, o[1], ev.mut())
                    elif o[0] == S:
                        add_mut(sm.mut_self, o[1], ev.mut())
            a = node.ast
            if node.kind == 'stmt' and isinstance(a, ast.Return) and a.value is not None:
                sm.ret |= self.eval(fn, a.value, st)
            if node.kind == 'stmt' and isinstance(a, (ast.Assign, ast.AnnAssign)):
                tgts = a.targets if isinstance(a, ast.Assign) else [a.target]
                sn = self._selfname(fn)
                for t in tgts:
                    if sn and is_self_attr(t, sn) and a.value is not None:
                        v = self.eval(fn, a.value, st)
                        if v:
                            sm.stores[t.attr] = sm.stores.get(t.attr, EMPTY) | v
                    elif isinstance(t, (ast.Tuple, ast.List)) and isinstance(a.value, (ast.Tuple, ast.List)):
                        for te, ve in zip(t.elts, a.value.elts):
                            if sn and is_self_attr(te, sn):
                                v = self.eval(fn, ve, st)
                                if v:
                                    sm.stores[te.attr] = sm.stores.get(te.attr, EMPTY) | v
        # nested functions: their effects on the parent's parameters/self belong to the parent when
        # the nested function is called or handed to a callee inside the parent
        for g in self.prog.functions.values():
            if g.outer is fn:
                gs = self.summaries.get(g.qualname)
                if gs is None:
                    continue
                for p, muts in gs.mut_params.items():
                    if p.startswith('^'):
                        for m in muts:
                            add_mut(sm.mut_params, p[1:], Mut(m.terminal, (f'{fn.short}: closure {g.name}',) + m.path))
                for a, muts in gs.mut_self.items():
                    for m in muts:
                        add_mut(sm.mut_self, a, m)
        # immutable scalars cannot be mutated
        for p in list(sm.mut_params):
            if not p.startswith('^') and param_is_scalar(fn, p):
                only_aug = all('(augmented assignment to the name)' in m.path[-1] and len(m.path) == 1
                               for m in sm.mut_params[p])
                if only_aug:
                    del sm.mut_params[p]
        return sm

    def _events(self, fn, node, st):
        evs = []
        a = node.ast

        def base_of_store(t):
            if isinstance(t, ast.Subscript):
                return t.value
            if isinstance(t, ast.Attribute):
                sn = self._selfname(fn)
                if sn and is_self_attr(t, sn):
                    return None  # rebinding an attribute of self
                return t.value
            return None

        def store_targets(t):
            if isinstance(t, (ast.Tuple, ast.List)):
                for e in t.elts:
                    yield from store_targets(e)
            elif isinstance(t, ast.Starred):
                yield from store_targets(t.value)
            else:
                yield t

        if node.kind == 'stmt':
            if isinstance(a, ast.Assign):
                for tt in a.targets:
                    for t in store_targets(tt):
                        b = base_of_store(t)
                        if b is not None:
                            o = self.eval(fn, b, st)
                            if o:
                                evs.append(Event(fn, a, o, 'store into ' + short(t, 40)))
            elif isinstance(a, ast.AugAssign):
                t = a.target
                if isinstance(t, ast.Name):
                    o = st.get(t.id, EMPTY)
                    if o:
                        evs.append(Event(fn, a, o, 'augmented assignment to the name'))
                else:
                    b = base_of_store(t)
                    if b is not None:
                        o = self.eval(fn, b, st)
                        if o:
                            evs.append(Event(fn, a, o, 'augmented store into ' + short(t, 40)))
            elif isinstance(a, ast.Delete):
                for t in a.targets:
                    b = base_of_store(t)
                    if b is not None:
                        o = self.eval(fn, b, st)
                        if o:
                            evs.append(Event(fn, a, o, 'del ' + short(t, 40)))
            elif isinstance(a, ast.AnnAssign) and a.value is not None:
                b = base_of_store(a.target)
                if b is not None:
                    o = self.eval(fn, b, st)
                    if o:
                        evs.append(Event(fn, a, o, 'store into ' + short(a.target, 40)))
            elif isinstance(a, (ast.FunctionDef, ast.AsyncFunctionDef, ast.ClassDef)):
                return evs
        for h in header_exprs(node):
            for call in [n for n in walk_no_nested(h) if isinstance(n, ast.Call)]:
                evs.extend(self._call_events(fn, call, st))
        return evs

    def _call_events(self, fn, call, st):
        evs = []
        prog = self.prog
        f = call.func
        nm = prog.resolve(fn.module, f)
        meth = call_name(call)
        if nm in K.MUTATOR_FUNCS and call.args:
            o = self.eval(fn, call.args[0], st)
            if o:
                evs.append(Event(fn, call, o, f'{nm}() modifies its first argument'))
        outkw = kwarg(call, 'out')
        if outkw is not None:
            o = self.eval(fn, outkw, st)
            if o:
                evs.append(Event(fn, call, o, 'out= argument'))
        inpl = kwarg(call, 'inplace')
        if isinstance(f, ast.Attribute) and isinstance(inpl, ast.Constant) and inpl.value is True:
            o = self.eval(fn, f.value, st)
            if o:
                evs.append(Event(fn, call, o, 'inplace=True'))
        is_ext = nm is not None and not nm.startswith('copulas.')
        if isinstance(f, ast.Attribute) and meth in K.MUTATOR_METHODS and not is_ext:
            proj = [t for t in self.cg.targets(fn, call) if t.kind == 'proj' and t.how != 'by method name']
            if not proj:
                o = self.eval(fn, f.value, st)
                # a container built here (`pair = [left, right]`) holds the caller's objects but is not one of them: re-ordering or growing
                # the container changes none of its elements
                fresh = False
                if isinstance(f.value, ast.Name) and meth in ('reverse', 'sort', 'append', 'extend', 'insert', 'pop', 'remove', 'clear', 'add', 'discard', 'popleft', 'appendleft', 'extendleft', 'rotate'):
                    binds = [a_ for a_ in walk_no_nested(fn.node) if isinstance(a_, ast.Assign) and any(isinstance(t_, ast.Name) and t_.id == f.value.id for t_ in a_.targets)]
                    fresh = bool(binds) and f.value.id not in fn.params and all(
                        isinstance(a_.value, (ast.List, ast.Set, ast.ListComp, ast.SetComp, ast.Dict, ast.DictComp)) or
                        (isinstance(a_.value, ast.Call) and isinstance(a_.value.func, ast.Name) and a_.value.func.id in ('list', 'set', 'dict', 'deque', 'sorted'))
                        for a_ in binds)
                if o and not fresh:
                    evs.append(Event(fn, call, o, f'.{meth}() modifies its receiver'))
        # project callees that mutate their parameters / the attributes of self
        if not is_ext:
            seen = set()
            for t in self.cg.targets(fn, call):
                if t.kind != 'proj' or t.how.startswith('decorator'):
                    continue
                g = t.fn
                sm = self.summaries.get(g.qualname)
                if sm is None:
                    continue
                binding = None
                for p, paths in sm.mut_params.items():
                    if p.startswith('^'):
                        continue
                    if g.self_name and p == g.self_name:
                        continue
                    binding = binding or self.bind(fn, call, g)
                    for arg in binding.get(p, ()):
                        o = self.eval(fn, arg, st)
                        if o and (g.qualname, p, id(arg)) not in seen:
                            seen.add((g.qualname, p, id(arg)))
                            how = f'passed as `{p}` to {g.short}, which modifies it'
                            if t.how == 'by method name':
                                how += ' (callee resolved by method name)'
                            for m in paths:
                                evs.append(Event(fn, call, o, how, sub=m))
                # self-call: the callee's in-place writes on self attributes
                recv = self._receiver(fn, call)
                sn = self._selfname(fn)
                if recv is not None and isinstance(recv, ast.Name) and sn and recv.id == sn:
                    for attr, paths in sm.mut_self.items():
                        o = frozenset({(S, attr)}) | st.get('#' + attr, EMPTY)
                        for m in paths:
                            evs.append(Event(fn, call, o, f'self.{g.name}() writes into self.{attr} in place', sub=m))
        return evs
